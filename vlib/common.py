"""Shared plumbing for every check: paths, subprocess helpers, evidence, known findings, verdicts.

Exit codes (DESIGN.md 3.4): 0 = all obligations within the stated bounds discharged (or matched a
listed known finding); 1 = replay-confirmed violation not in known_findings.json; 2 = inconclusive.
"""
import hashlib
import json
import os
import subprocess
import sys
import time

VERIF = os.path.dirname(os.path.dirname(os.path.abspath(__file__)))
REPO = os.environ.get("VERIF_REPO", "/repo")
CACHE = os.path.join(VERIF, ".cache")
EVID = os.path.join(VERIF, "evidence")
REPLAYS = os.path.join(VERIF, "replays")
KNOWN = os.path.join(VERIF, "known_findings.json")
NCPU = int(os.environ.get("VERIF_JOBS", str(os.cpu_count() or 4)))

OFFLINE_ENV = {"CARGO_NET_OFFLINE": "true", "GOPROXY": "off", "PIP_NO_INDEX": "1"}


class Inconclusive(Exception):
    """Raised when a check cannot reach a verdict (missing model, solver unknown, budget...)."""


def env(extra=None):
    e = dict(os.environ)
    e.update(OFFLINE_ENV)
    if extra:
        e.update(extra)
    return e


def run(cmd, cwd=None, timeout=None, extra_env=None, check=False):
    """Run a command, return (rc, stdout+stderr text, seconds)."""
    t0 = time.time()
    # own session: on a time-out the whole process group (cargo -> kani -> cbmc ...) is killed, not just the direct child
    p = subprocess.Popen(cmd, cwd=cwd, env=env(extra_env), stdout=subprocess.PIPE, stderr=subprocess.STDOUT, text=True, errors="replace", start_new_session=True)
    try:
        out, _ = p.communicate(timeout=timeout)
        rc = p.returncode
    except subprocess.TimeoutExpired:
        try:
            os.killpg(p.pid, 9)
        except ProcessLookupError:
            pass
        out, _ = p.communicate()
        rc, out = 124, (out or "") + "\n[timeout]"
    dt = time.time() - t0
    if check and rc != 0:
        raise Inconclusive("command failed (%s): %s\n%s" % (rc, " ".join(cmd), out[-4000:]))
    return rc, out, dt


def seed():
    try:
        return int(os.environ.get("VERIF_SEED", "0"))
    except ValueError:
        return 0


def sha(s):
    if isinstance(s, str):
        s = s.encode()
    return hashlib.sha256(s).hexdigest()


def repo_tree_hash(subdirs=("core/src", "cli/src", "lib/src", "annotation/src")):
    h = hashlib.sha256()
    for sd in subdirs:
        base = os.path.join(REPO, sd)
        for root, dirs, files in sorted(os.walk(base)):
            dirs.sort()
            for f in sorted(files):
                p = os.path.join(root, f)
                h.update(p.encode())
                with open(p, "rb") as fh:
                    h.update(fh.read())
    for f in ("Cargo.lock", "Cargo.toml", "core/Cargo.toml", "cli/Cargo.toml", "lib/Cargo.toml", "annotation/Cargo.toml"):
        p = os.path.join(REPO, f)
        if os.path.exists(p):
            with open(p, "rb") as fh:
                h.update(fh.read())
    return h.hexdigest()[:16]


# ----------------------------------------------------------------------------- known findings
def load_known(pid):
    if not os.path.exists(KNOWN):
        return []
    with open(KNOWN) as fh:
        data = json.load(fh)
    return [e for e in data.get("findings", []) if e.get("property") == pid]


def sig_matches(entry_sig, sig):
    """An entry signature matches a violation signature if every key it lists is equal
    (entry value may be a list of admissible values)."""
    import re as _re
    for k, v in entry_sig.items():
        if k not in sig:
            return False
        if isinstance(v, dict) and "regex" in v:
            if not _re.search(v["regex"], str(sig[k])):
                return False
        elif isinstance(v, list):
            if sig[k] not in v:
                return False
        elif sig[k] != v:
            return False
    return True


class Report:
    """Collects the outcome of one check run and writes evidence / prints verdict lines."""

    def __init__(self, pid, tier, level="model_checking"):
        self.pid, self.tier, self.level = pid, tier, level
        self.t0 = time.time()
        self.states = 0          # symbolic paths explored (input classes)
        self.queries = 0         # solver queries discharged
        self.validated = 0       # traces validated against the real implementation
        self.obligations = 0
        self.discharged = 0
        self.samples = []
        self.assumptions = []
        self.bounds = {}
        self.outside = []
        self.functions = set()
        self.models = set()
        self.harnesses = {}
        self.solver_s = 0.0
        self.violations = []     # (signature dict, description, replay payload)
        self.known_hit = {}      # finding id -> description printed
        self.inconclusive = []
        self.exhaustive = True
        self.extra = {}
        self.known = load_known(pid)

    # -- recording
    def sample(self, s, cap=12):
        if len(self.samples) < cap:
            self.samples.append(s)

    def violation(self, sig, desc, payload):
        """A replay-confirmed violation. Suppressed (reported as KNOWN-FINDING) only if an *open*
        entry of known_findings.json matches its signature."""
        for e in self.known:
            if e.get("status") == "open" and sig_matches(e["signature"], sig):
                self.known_hit.setdefault(e["id"], (e, desc, sig))
                return False
        self.violations.append((sig, desc, payload))
        return True

    def inconc(self, why):
        self.inconclusive.append(why)

    # -- finishing
    def finish(self):
        os.makedirs(EVID, exist_ok=True)
        wall = time.time() - self.t0
        for fid, (e, desc, sig) in sorted(self.known_hit.items()):
            print("KNOWN-FINDING: property=%s %s [%s] e.g. %s" % (self.pid, e["description"], fid, desc))
        vpaths = []
        seen = set()
        for sig, desc, payload in self.violations:
            key = json.dumps(sig, sort_keys=True)
            if key in seen:
                continue
            seen.add(key)
            os.makedirs(REPLAYS, exist_ok=True)
            body = {"property": self.pid, "signature": sig, "description": desc, "case": payload}
            name = "%s-%s.json" % (self.pid, sha(json.dumps(body, sort_keys=True))[:12])
            path = os.path.join(REPLAYS, name)
            with open(path, "w") as fh:
                json.dump(body, fh, indent=1, sort_keys=True)
            vpaths.append(path)
            print("VIOLATION property=%s replay=%s" % (self.pid, path))
            print("  what: %s" % desc)
        cov = {
            "states": max(self.states, 0),
            "transitions": max(self.queries, 0),
            "traces_validated_against_impl": self.validated,
            "samples": self.samples or [{"note": "no sample recorded"}],
            "exhaustive": bool(self.exhaustive and not self.inconclusive),
            "obligations": self.obligations,
            "discharged": self.discharged,
            "bounds": self.bounds,
            "outside_bounds": self.outside,
            "functions_encoded": sorted(self.functions),
            "models_used": sorted(self.models),
            "harnesses": self.harnesses,
            "solver_time_s": round(self.solver_s, 3),
            "known_findings_reproduced": sorted(self.known_hit),
            "inconclusive": self.inconclusive,
            "repo_tree_hash": repo_tree_hash(),
        }
        cov.update(self.extra)
        ev = {
            "property_id": self.pid,
            "tier": self.tier,
            "seed": seed(),
            "level": self.level,
            "coverage": cov,
            "assumptions": self.assumptions,
            "wall_s": round(wall, 2),
            "violations": len(vpaths),
        }
        # runs against a deliberately mutated tree (tools/try_seed.sh) must not overwrite the evidence of the unchanged tree
        suffix = os.environ.get("VERIF_EVID_SUFFIX", "")
        with open(os.path.join(EVID, "%s%s.json" % (self.pid, suffix)), "w") as fh:
            json.dump(ev, fh, indent=1, sort_keys=True, default=str)
        if vpaths:
            for w in self.inconclusive[:10]:
                print("INCONCLUSIVE %s: %s" % (self.pid, str(w)[:600]))
            print("RESULT %s: VIOLATED (%d)%s in %.1fs" % (self.pid, len(vpaths), (" + %d inconclusive" % len(self.inconclusive)) if self.inconclusive else "", wall))
            return 1
        if self.inconclusive:
            for w in self.inconclusive[:10]:
                print("INCONCLUSIVE %s: %s" % (self.pid, w))
            print("RESULT %s: INCONCLUSIVE in %.1fs" % (self.pid, wall))
            return 2
        print("RESULT %s: HOLDS within bounds (%d paths, %d solver queries, %d/%d obligations, %d known findings) in %.1fs"
              % (self.pid, self.states, self.queries, self.discharged, self.obligations, len(self.known_hit), wall))
        return 0
