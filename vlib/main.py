"""Driver: ./check <id> [--tier quick|thorough] [--replay path]"""
import argparse
import importlib
import json
import os
import sys
import traceback

from .common import Report, Inconclusive


def main():
    ap = argparse.ArgumentParser()
    ap.add_argument("pid")
    ap.add_argument("--tier", default=os.environ.get("VERIF_TIER", "quick"), choices=["quick", "thorough"])
    ap.add_argument("--replay", default=None)
    ap.add_argument("--only", default=None, help="comma separated harness names (debugging)")
    a = ap.parse_args()
    pid = a.pid.upper()
    try:
        mod = importlib.import_module("checks.%s" % pid.lower())
    except ModuleNotFoundError as e:
        print("no check for %s (%s)" % (pid, e))
        return 2
    if a.replay:
        with open(a.replay) as fh:
            case = json.load(fh)
        return mod.replay(case)
    rep = Report(pid, a.tier)
    try:
        mod.run(rep, a.tier, only=a.only.split(",") if a.only else None)
    except Inconclusive as e:
        rep.inconc(str(e))
    except Exception as e:  # a crash of the machinery is never a pass and never an alarm
        traceback.print_exc()
        rep.inconc("internal error: %r" % (e,))
    return rep.finish()


if __name__ == "__main__":
    sys.exit(main())
