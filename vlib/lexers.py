"""Comment lexers for the six target languages: split generated text into code and comment/docstring
tokens.  Used by C15: removing the comments of the output generated WITH doc text must leave exactly the
code of the output generated WITHOUT it."""


class LexError(Exception):
    pass


def _line_end(text, i, ends):
    """index of the first line terminator at or after i (len(text) if none)"""
    js = [j for j in (text.find(e, i) for e in ends) if j >= 0]
    return min(js) if js else len(text)


def strip_c_like(text, nested=False, backtick=None, single_quote_strings=True, line_ends="\n"):
    """-> code text with comments removed. nested: /* */ nest (Kotlin, Swift, Scala).
    backtick: None | 'raw' (Go raw strings) | 'template' (TS template literals) | 'ident' (Kotlin/Swift/Scala quoted identifiers)"""
    out = []
    i, n = 0, len(text)
    while i < n:
        c = text[i]
        two = text[i:i + 2]
        if two == "//":
            i = _line_end(text, i, line_ends)     # Kotlin / Swift / Scala (and JS) end a line comment at a bare CR as well
            continue
        if two == "/*":
            depth = 1
            i += 2
            while i < n and depth:
                if text[i:i + 2] == "*/":
                    depth -= 1
                    i += 2
                elif nested and text[i:i + 2] == "/*":
                    depth += 1
                    i += 2
                else:
                    i += 1
            if depth:
                raise LexError("unterminated block comment")
            continue
        if c == '"':
            if text[i:i + 3] == '"""' and nested:      # Kotlin/Swift/Scala raw/multi-line strings
                j = text.find('"""', i + 3)
                if j < 0:
                    raise LexError("unterminated multi-line string")
                out.append(text[i:j + 3])
                i = j + 3
                continue
            j = i + 1
            while j < n and text[j] != '"':
                if text[j] == "\\":
                    j += 1
                if j < n and text[j] == "\n":
                    raise LexError("newline in string literal")
                j += 1
            if j >= n:
                raise LexError("unterminated string literal")
            out.append(text[i:j + 1])
            i = j + 1
            continue
        if c == "'" and single_quote_strings:
            j = i + 1
            while j < n and text[j] != "'":
                if text[j] == "\\":
                    j += 1
                if j < n and text[j] == "\n":
                    raise LexError("newline in quoted literal")
                j += 1
            if j >= n:
                raise LexError("unterminated quoted literal")
            out.append(text[i:j + 1])
            i = j + 1
            continue
        if c == "`" and backtick:
            j = text.find("`", i + 1)
            if j < 0:
                raise LexError("unterminated backtick literal")
            if backtick == "ident" and "\n" in text[i:j]:
                raise LexError("newline in quoted identifier")
            out.append(text[i:j + 1])
            i = j + 1
            continue
        out.append(c)
        i += 1
    return "".join(out)


def strip_python(text):
    """remove # comments and statement-level string literals (docstrings); -> code text"""
    out = []
    i, n = 0, len(text)
    line_has_code = False
    while i < n:
        c = text[i]
        if c in "\n\r":
            line_has_code = False
            out.append(c)
            i += 1
            continue
        if c == "#":
            i = _line_end(text, i, "\n\r")       # Python: a bare CR ends the physical line
            continue
        if c in "\"'":
            q = text[i:i + 3] if text[i:i + 3] in ('"""', "'''") else c
            j = i + len(q)
            while True:
                if j >= n:
                    raise LexError("unterminated string")
                if text[j] == "\\":
                    j += 2
                    continue
                if text.startswith(q, j):
                    break
                if len(q) == 1 and text[j] == "\n":
                    raise LexError("newline in string literal")
                j += 1
            tok = text[i:j + len(q)]
            k = j + len(q)
            # a docstring: nothing but whitespace before it on its line and after it up to the newline
            rest = text[k:text.find("\n", k) if text.find("\n", k) >= 0 else n]
            if not line_has_code and rest.strip() == "":
                i = k
                continue
            out.append(tok)
            line_has_code = True
            i = k
            continue
        if not c.isspace():
            line_has_code = True
        out.append(c)
        i += 1
    return "".join(out)


def code_of(lang, text):
    if lang == "python":
        r = strip_python(text)
    elif lang == "typescript":
        r = strip_c_like(text, nested=False, backtick="template", line_ends="\n\r\u2028\u2029")
    elif lang == "go":
        r = strip_c_like(text, nested=False, backtick="raw")
    else:
        r = strip_c_like(text, nested=True, backtick="ident", line_ends="\n\r")
    return "".join(r.split())
