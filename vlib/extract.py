"""Extractors: recover (type, field, wire key, type text, optional markers, ...) from generated text.

They run on a *skeleton*: every symbolic char of the output is replaced by a private-use code point
that the tokenisers treat as an identifier/key character (sound when the harness constrains those
chars to an alphabet that cannot change tokenisation); results are spans, and `Skel.terms(span)` gives
back the original char terms so that comparisons are z3 equalities decided under the path condition.
"""
import re

PUA0 = 0xE000
PUA_CLASS = "[\ue000-\uf8ff]"   # regex class of the placeholder code points


class Skel:
    def __init__(self, chars):
        self.chars = list(chars)
        out = []
        for i, c in enumerate(self.chars):
            if isinstance(c, int):
                out.append(chr(c))
            else:
                out.append(chr(PUA0 + (i % 0x1800)))
        self.text = "".join(out)

    def terms(self, span):
        return self.chars[span[0]:span[1]]

    def str(self, span):
        return self.text[span[0]:span[1]]

    def is_concrete(self, span):
        return all(isinstance(c, int) for c in self.chars[span[0]:span[1]])


IDC = r"[A-Za-z0-9_-]"
KEYC = r"[A-Za-z0-9_\--]"


def block(text, start_rx, end_rx, flags=re.M):
    """span of the text between the first match of start_rx and the following match of end_rx"""
    m = re.search(start_rx, text, flags)
    if not m:
        return None
    e = re.compile(end_rx, flags).search(text, m.end())
    if not e:
        return None
    return m, (m.end(), e.start()), e


def lines_in(text, span):
    """(line_start, line_end) for each line inside span"""
    pos = span[0]
    for ln in text[span[0]:span[1]].split("\n"):
        yield (pos, pos + len(ln))
        pos += len(ln) + 1


class Field:
    def __init__(self, **kw):
        self.ident = None        # span of the target-language identifier
        self.key = None          # span of the explicit wire-key binding (quoted name, SerialName, CodingKeys raw value, json tag, alias)
        self.type = None         # span of the type text (optional marker removed where it is a suffix/prefix)
        self.optional = False    # the language's optional marker is present
        self.default = None      # text of a default value (Kotlin `null`, Scala `None`/`_`, Python `None`)
        self.null_union = False  # TS `| null`
        self.omitempty = False   # Go
        self.raw = None
        self.__dict__.update(kw)

    def wire_key(self):
        """span that carries the JSON key: explicit binding if present, else the identifier"""
        return self.key if self.key is not None else self.ident


# ------------------------------------------------------------------------------- TypeScript
def ts_struct(sk, name):
    t = sk.text
    b = block(t, r"^export interface %s(?:<[^>\n]*>)? \{\n" % re.escape(name), r"^\}$")
    if not b:
        return None
    out = []
    for ls, le in lines_in(t, b[1]):
        line = t[ls:le]
        m = re.match(r'^\t(?:readonly )?(?:"(%s*)"|([^\s:?"/*]+))(\?)?: (.*);$' % r'[^"\n]', line)
        if not m:
            continue
        f = Field(raw=line)
        if m.group(1) is not None:
            f.key = (ls + m.start(1), ls + m.end(1))
            f.ident = f.key
        else:
            f.ident = (ls + m.start(2), ls + m.end(2))
        f.optional = m.group(3) is not None
        ty = m.group(4)
        ts, te = ls + m.start(4), ls + m.end(4)
        if ty.endswith(" | null"):
            f.null_union = True
            te -= len(" | null")
        f.type = (ts, te)
        out.append(f)
    return out


# ------------------------------------------------------------------------------- Kotlin
def kotlin_struct(sk, name):
    t = sk.text
    b = block(t, r"^(?:@\w+(?:\([^)\n]*\))?\s)*?(?:data class|class) %s(?:<[^>\n]*>)? \(\n" % re.escape(name), r"^\)")
    if not b:
        return None
    out = []
    pending_key = None
    for ls, le in lines_in(t, b[1]):
        line = t[ls:le]
        m = re.match(r'^\t@SerialName\("([^"\n]*)"\)$', line)
        if m:
            pending_key = (ls + m.start(1), ls + m.end(1))
            continue
        m = re.match(r"^\t(?:@\w+(?:\([^)\n]*\))? )*val (`?%s+`?): (.*?)( = null)?,?$" % IDC, line)
        if not m:
            continue
        f = Field(raw=line)
        f.ident = (ls + m.start(1), ls + m.end(1))
        f.key = pending_key
        pending_key = None
        ty = m.group(2)
        ts, te = ls + m.start(2), ls + m.end(2)
        if ty.endswith("?"):
            f.optional = True
            te -= 1
        f.type = (ts, te)
        f.default = "null" if m.group(3) else None
        out.append(f)
    return out


# ------------------------------------------------------------------------------- Swift
def swift_struct(sk, name):
    t = sk.text
    b = block(t, r"^public (?:struct|class) %s(?:<[^>\n]*>)?: [^\n]*\{\n" % re.escape(name), r"^\}$")
    if not b:
        return None
    body = b[1]
    out = []
    for ls, le in lines_in(t, body):
        line = t[ls:le]
        m = re.match(r"^\tpublic (?:let|var) (`?%s+`?): (.*)$" % IDC, line)
        if not m:
            continue
        f = Field(raw=line)
        a, z = ls + m.start(1), ls + m.end(1)
        if t[a] == "`":
            a, z = a + 1, z - 1
        f.ident = (a, z)
        ty = m.group(2)
        ts, te = ls + m.start(2), ls + m.end(2)
        if ty.endswith("?"):
            f.optional = True
            te -= 1
        f.type = (ts, te)
        out.append(f)
    # CodingKeys
    ck = re.compile(r"^\tenum CodingKeys: String, CodingKey, Codable \{\n\t\tcase ((?:.|\n)*?)\n\t\}$", re.M).search(t, body[0], body[1])
    keys = None
    if ck:
        keys = []
        base = ck.start(1)
        for part in re.finditer(r'(`?%s+`?)(?: = "([^"\n]*)")?(?:,\n\t\t\t|$)' % IDC, ck.group(1)):
            a, z = base + part.start(1), base + part.end(1)
            if t[a] == "`":
                a, z = a + 1, z - 1
            raw = (base + part.start(2), base + part.end(2)) if part.group(2) is not None else None
            keys.append(((a, z), raw))
        if len(keys) == len(out):
            for f, (case, raw) in zip(out, keys):
                f.case = case
                f.key = raw if raw is not None else case
    # init signature
    im = re.compile(r"^\tpublic init\((.*)\) \{$", re.M).search(t, body[0], body[1])
    init = None
    if im:
        init = []
        base = im.start(1)
        for part in re.finditer(r"(`?%s+`?): ([^,]*(?:\[[^\]]*\])?[^,]*)(?:, |$)" % IDC, im.group(1)):
            init.append(((base + part.start(1), base + part.end(1)), (base + part.start(2), base + part.end(2))))
    return out, keys, init


# ------------------------------------------------------------------------------- Scala
def scala_struct(sk, name):
    t = sk.text
    b = block(t, r"^case class %s(?:\[[^\]\n]*\])? \(\n" % re.escape(name), r"^\)")
    if not b:
        return None
    out = []
    for ls, le in lines_in(t, b[1]):
        line = t[ls:le]
        m = re.match(r"^\t(`?%s+`?): (.*?)( = None| = _)?,?$" % IDC, line)
        if not m:
            continue
        f = Field(raw=line)
        f.ident = (ls + m.start(1), ls + m.end(1))
        ty = m.group(2)
        ts, te = ls + m.start(2), ls + m.end(2)
        if ty.startswith("Option[") and ty.endswith("]"):
            f.optional = True
            ts, te = ts + len("Option["), te - 1
        f.type = (ts, te)
        f.default = m.group(3)[3:] if m.group(3) else None
        out.append(f)
    return out


# ------------------------------------------------------------------------------- Go
def go_struct(sk, name):
    t = sk.text
    b = block(t, r"^type %s(?:\[[^\]\n]*\])? struct \{\n" % re.escape(name), r"^\}$")
    if not b:
        return None
    out = []
    for ls, le in lines_in(t, b[1]):
        line = t[ls:le]
        m = re.match(r'^\t(%s+) (.*) `json:"([^",\n]*)(,omitempty)?"`$' % IDC, line)
        if not m:
            continue
        f = Field(raw=line)
        f.ident = (ls + m.start(1), ls + m.end(1))
        ty = m.group(2)
        ts, te = ls + m.start(2), ls + m.end(2)
        if ty.startswith("*"):
            f.optional = True
            ts += 1
        f.type = (ts, te)
        f.key = (ls + m.start(3), ls + m.end(3))
        f.omitempty = m.group(4) is not None
        out.append(f)
    return out


# ------------------------------------------------------------------------------- Python
def python_struct(sk, name):
    t = sk.text
    b = block(t, r"^class %s\([^)\n]*\):\n" % re.escape(name), r"^(?=\S)|\Z")
    if not b:
        return None
    out = []
    for ls, le in lines_in(t, b[1]):
        line = t[ls:le]
        m = re.match(r"^    (%s+): (.*?)(?: = Field\((.*)\)| = (None))?$" % IDC, line)
        if not m or m.group(1) == "model_config":
            continue
        f = Field(raw=line)
        f.ident = (ls + m.start(1), ls + m.end(1))
        ty = m.group(2)
        ts, te = ls + m.start(2), ls + m.end(2)
        if ty.startswith("Annotated[") and ty.endswith("]"):
            # Annotated[<type>, BeforeValidator(..), PlainSerializer(..)]: the field's type is the first argument
            depth, cut = 0, None
            for k in range(len("Annotated["), len(ty)):
                ch = ty[k]
                if ch in "[(":
                    depth += 1
                elif ch in "])":
                    depth -= 1
                elif ch == "," and depth == 0:
                    cut = k
                    break
            if cut is not None:
                ts, te = ts + len("Annotated["), ts + cut
                ty = ty[len("Annotated["):cut]
        if ty.startswith("Optional[") and ty.endswith("]"):
            f.optional = True
            ts, te = ts + len("Optional["), te - 1
        f.type = (ts, te)
        if m.group(3) is not None:
            am = re.search(r'alias="([^"\n]*)"', m.group(3))
            if am:
                f.key = (ls + m.start(3) + am.start(1), ls + m.start(3) + am.end(1))
            if "default=None" in m.group(3):
                f.default = "None"
        elif m.group(4):
            f.default = "None"
        out.append(f)
    return out


def struct_fields(lang, sk, name):
    r = {"typescript": ts_struct, "kotlin": kotlin_struct, "swift": swift_struct, "scala": scala_struct, "go": go_struct, "python": python_struct}[lang](sk, name)
    if lang == "swift" and r is not None:
        return r[0]
    return r
