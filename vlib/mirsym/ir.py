"""Builders for typeshare's IR values (rust_types.rs) laid out per the current source (astdump)."""
from .values import *  # noqa


class IR:
    def __init__(self, layout, prefix=""):
        self.L = layout
        self.p = prefix   # "" for typeshare-core's own MIR, "typeshare_core::" from the cli

    def adt(self, path, **kw):
        names = list(kw.keys())
        return self.L.make_adt(self.p + path, [kw[n] for n in names], [n.rstrip("_") for n in names])

    def variant(self, enum_path, variant, *pos, **kw):
        if kw:
            names = list(kw.keys())
            return self.L.make_adt(self.p + enum_path + "::" + variant, [kw[n] for n in names], [n.rstrip("_") for n in names])
        return self.L.make_adt(self.p + enum_path + "::" + variant, list(pos), None)

    @staticmethod
    def s(x):
        return x if isinstance(x, RString) else S(x)

    def id(self, original, renamed=None, serde_rename=None):
        if serde_rename is None:
            serde_rename = renamed is not None
        return self.adt("rust_types::Id", original=self.s(original), renamed=self.s(renamed if renamed is not None else original),
                        serde_rename=serde_rename)

    # ---- types
    def simple(self, name):
        return self.variant("rust_types::RustType", "Simple", id=self.s(name))

    def generic(self, name, params):
        return self.variant("rust_types::RustType", "Generic", id=self.s(name), parameters=RVec(list(params)))

    def special(self, kind, *params):
        ps = [BoxV(p) if isinstance(p, (Agg, EnumV)) else p for p in params]
        return self.variant("rust_types::RustType", "Special", self.variant("rust_types::SpecialRustType", kind, *ps))

    def vec(self, t): return self.special("Vec", t)
    def option(self, t): return self.special("Option", t)
    def hashmap(self, k, v): return self.special("HashMap", k, v)
    def array(self, t, n): return self.special("Array", t, n)
    def slice(self, t): return self.special("Slice", t)

    # ---- members
    def field(self, name, ty, renamed=None, has_default=False, comments=(), decorators=None, serde_rename=None):
        return self.adt("rust_types::RustField", id=self.id(name, renamed, serde_rename), ty=ty, comments=RVec([self.s(c) for c in comments]),
                        has_default=has_default, decorators=decorators if decorators is not None else RMap("HashMap"))

    def struct(self, name, fields, generics=(), comments=(), renamed=None, decorators=None, is_redacted=False, serde_rename=None):
        return self.adt("rust_types::RustStruct", id=self.id(name, renamed, serde_rename), generic_types=RVec([self.s(g) for g in generics]),
                        fields=RVec(list(fields)), comments=RVec([self.s(c) for c in comments]),
                        decorators=decorators if decorators is not None else RMap("HashMap"), is_redacted=is_redacted)

    def alias(self, name, ty, generics=(), comments=(), renamed=None, decorators=None, is_redacted=False, serde_rename=None):
        return self.adt("rust_types::RustTypeAlias", id=self.id(name, renamed, serde_rename), generic_types=RVec([self.s(g) for g in generics]),
                        type=ty, comments=RVec([self.s(c) for c in comments]),
                        decorators=decorators if decorators is not None else RMap("HashMap"), is_redacted=is_redacted)

    def const(self, name, ty, value, renamed=None):
        return self.adt("rust_types::RustConst", id=self.id(name, renamed), type=ty,
                        expr=self.variant("rust_types::RustConstExpr", "Int", value))

    def vshared(self, name, renamed=None, comments=(), serde_rename=None):
        return self.adt("rust_types::RustEnumVariantShared", id=self.id(name, renamed, serde_rename), comments=RVec([self.s(c) for c in comments]))

    def v_unit(self, name, renamed=None, comments=()):
        return self.variant("rust_types::RustEnumVariant", "Unit", self.vshared(name, renamed, comments))

    def v_tuple(self, name, ty, renamed=None, comments=()):
        return self.variant("rust_types::RustEnumVariant", "Tuple", ty=ty, shared=self.vshared(name, renamed, comments))

    def v_anon(self, name, fields, renamed=None, comments=()):
        return self.variant("rust_types::RustEnumVariant", "AnonymousStruct", fields=RVec(list(fields)), shared=self.vshared(name, renamed, comments))

    def eshared(self, name, variants, generics=(), comments=(), renamed=None, decorators=None, is_recursive=False, is_redacted=False, serde_rename=None):
        return self.adt("rust_types::RustEnumShared", id=self.id(name, renamed, serde_rename), generic_types=RVec([self.s(g) for g in generics]),
                        comments=RVec([self.s(c) for c in comments]), variants=RVec(list(variants)),
                        decorators=decorators if decorators is not None else RMap("HashMap"), is_recursive=is_recursive, is_redacted=is_redacted)

    def enum_unit(self, name, variants, **kw):
        return self.variant("rust_types::RustEnum", "Unit", self.eshared(name, variants, **kw))

    def enum_alg(self, name, variants, tag="type", content="content", **kw):
        return self.variant("rust_types::RustEnum", "Algebraic", tag_key=self.s(tag), content_key=self.s(content), shared=self.eshared(name, variants, **kw))

    def item(self, kind, v):
        return self.variant("rust_types::RustItem", kind, v)

    def parsed_data(self, structs=(), enums=(), aliases=(), consts=(), crate="", file_name="", multi_file=False, import_types=None, type_names=None):
        names = type_names
        if names is None:
            names = RMap("HashSet")
        vals = dict(structs=RVec(list(structs)), enums=RVec(list(enums)), aliases=RVec(list(aliases)), consts=RVec(list(consts)),
                    import_types=import_types if import_types is not None else RMap("HashSet"),
                    crate_name=Agg(self.p + "language::CrateName", [self.s(crate)]), file_name=self.s(file_name), type_names=names,
                    errors=RVec([]), multi_file=multi_file)
        order = self.L.structs["ParsedData"]
        return self.L.make_adt(self.p + "parser::ParsedData", [vals[n] for n in order], list(order))

    # ---- reading back
    def get(self, agg, struct_name, field):
        return agg.fields[self.L.structs[struct_name].index(field)]

    def item_name(self, item):
        """id.original of a RustItem"""
        L = self.L
        kind = L.enums["RustItem"][item.variant]
        v = item.fields[0]
        if kind == "Enum":
            ev = L.enums["RustEnum"][v.variant]
            if ev == "Unit":
                sh = v.fields[0]
            else:
                sh = v.fields[L.enum_fields[("RustEnum", "Algebraic")].index("shared")]
            idv = self.get(sh, "RustEnumShared", "id")
        else:
            sn = {"Struct": "RustStruct", "Alias": "RustTypeAlias", "Const": "RustConst"}[kind]
            idv = self.get(v, sn, "id")
        return self.get(idv, "Id", "original")
