"""Assemble a Program (MIR + layout + models) for the current /repo tree."""
import time

from . import dump
from .interp import Interp, Program
from .layout import Layout
from .mirparse import parse_mir
from . import models_core, models_iter, models_fmt, models_coll, models_misc, models_syn, models_fs  # noqa: registers models
from .models_core import MODELS

_PROGRAMS = {}


def load_program(crates=("core",)):
    key = tuple(crates)
    if key in _PROGRAMS:
        return _PROGRAMS[key]
    t0 = time.time()
    funcs = {}
    for c in crates:
        text, path = dump.mir_text(c)
        fs = parse_mir(text)
        if c == "core" and len(crates) > 1:
            # other crates call into the library as `typeshare_core::...`
            for name, f in list(fs.items()):
                fs["typeshare_core::" + name] = f
        funcs.update(fs)
    L = Layout()
    L.add_astdump(dump.layout_json(list(crates)))
    L.add_syn(dump.syn_src_dir())
    prog = Program(funcs, L, MODELS)
    prog.load_s = time.time() - t0
    prog.crates = crates
    _PROGRAMS[key] = prog
    return prog


def new_interp(prog, **kw):
    return Interp(prog, **kw)
