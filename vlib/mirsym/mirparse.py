"""Parser for `rustc -Zunpretty=mir` text (nightly 2026-08, -Ztrim-diagnostic-paths=no).

Produces Func objects whose statements/terminators are *pre-compiled* into small tuples so the
interpreter never touches text on the hot path.  The parser is strict: anything it does not
understand raises MirError naming the line, so a format change shows up as INCONCLUSIVE, never as
a wrong verdict.
"""
import re


class MirError(Exception):
    pass


class Func:
    __slots__ = ("name", "params", "ret", "locals", "raw_blocks", "blocks", "is_const", "nparams", "_uses", "_ncaps")

    def __init__(self, name, params, ret):
        self.name, self.params, self.ret = name, params, ret
        self.locals = {}
        self.raw_blocks = {}
        self.blocks = None      # compiled lazily: bb -> (stmts, term)
        self.is_const = False
        self.nparams = len(params)
        self._uses = None
        self._ncaps = None


# ------------------------------------------------------------------------------ text helpers
def split_top(s, sep=","):
    """split on sep at nesting depth 0 wrt ()[]{}<> and string/char literals."""
    out, depth, cur = [], 0, []
    i, n = 0, len(s)
    while i < n:
        c = s[i]
        if c == '"':
            j = i + 1
            while j < n and s[j] != '"':
                if s[j] == "\\":
                    j += 1
                j += 1
            cur.append(s[i:j + 1])
            i = j + 1
            continue
        if c == "'":
            # char literal vs lifetime
            if i + 2 < n and s[i + 1] != "\\" and s[i + 2] == "'":
                cur.append(s[i:i + 3])
                i += 3
                continue
            if i + 1 < n and s[i + 1] == "\\":
                j = i + 2
                if s[j] == "u":
                    while s[j] != "}":
                        j += 1
                elif s[j] == "x":
                    j += 2
                j += 1
                if j < n and s[j] == "'":
                    cur.append(s[i:j + 1])
                    i = j + 1
                    continue
        if c in "([{":
            depth += 1
        elif c in ")]}":
            depth -= 1
        elif c == "<":
            depth += 1
        elif c == ">":
            if i > 0 and s[i - 1] in "-=":
                pass
            elif depth > 0:
                depth -= 1
        if c == sep and depth == 0:
            out.append("".join(cur).strip())
            cur = []
        else:
            cur.append(c)
        i += 1
    last = "".join(cur).strip()
    if last:
        out.append(last)
    return out


def match_paren_back(s, close_idx):
    """index of '(' matching the ')' at close_idx, skipping string literals."""
    depth = 0
    i = close_idx
    in_str = False
    while i >= 0:
        c = s[i]
        if c == '"' and (i == 0 or s[i - 1] != "\\"):
            in_str = not in_str
        elif not in_str:
            if c == ")":
                depth += 1
            elif c == "(":
                depth -= 1
                if depth == 0:
                    return i
        i -= 1
    raise MirError("unbalanced parens: " + s)


def strip_generics(path):
    """remove every ::<...> turbofish and <...> argument list from a path (balanced)."""
    out = []
    depth = 0
    i, n = 0, len(path)
    while i < n:
        c = path[i]
        if c == "<" and depth == 0 and path.startswith("::<", i - 2) and i >= 2:
            # turbofish: drop the '::' already emitted
            del out[-2:]
            depth = 1
        elif c == "<" and depth > 0:
            depth += 1
        elif c == ">" and depth > 0 and not (i > 0 and path[i - 1] in "-="):
            depth -= 1
        elif depth == 0:
            out.append(c)
        i += 1
    return "".join(out)


_NORM_CACHE = {}


def _drop_angle_groups(s):
    """remove every <...> group (any nesting) except `<impl at ...>` segments; `->`/`=>` are not brackets"""
    out = []
    depth = 0
    i, n = 0, len(s)
    while i < n:
        c = s[i]
        if c == "<":
            if depth == 0 and s.startswith("<impl at ", i):
                j = s.index(">", i)
                out.append(s[i:j + 1])
                i = j + 1
                continue
            depth += 1
        elif c == ">" and depth > 0 and not (i > 0 and s[i - 1] in "-="):
            depth -= 1
        elif depth == 0:
            out.append(c)
        i += 1
    r = "".join(out)
    return r


def normalize(name):
    """callee name with all generic arguments removed: `<Ty as Trait>::method`, `path::Type::method`;
    `::<impl [T]>::` / `::<impl str>::` segments of inherent impls on primitives are dropped."""
    r = _NORM_CACHE.get(name)
    if r is not None:
        return r
    s = name
    if s.startswith("<") and not s.startswith("<impl at "):
        # qualified self: find the matching '>'
        depth = 0
        end = None
        for i, c in enumerate(s):
            if c == "<":
                depth += 1
            elif c == ">" and not (i > 0 and s[i - 1] in "-="):
                depth -= 1
                if depth == 0:
                    end = i
                    break
        inner = s[1:end]
        rest = s[end + 1:]
        # split at top-level " as "
        depth = 0
        cut = None
        i = 0
        while i < len(inner):
            c = inner[i]
            if c in "<([{":
                depth += 1
            elif c in ")]}" or (c == ">" and not (i > 0 and inner[i - 1] in "-=")):
                depth -= 1
            elif depth == 0 and inner.startswith(" as ", i):
                cut = i
            i += 1
        if cut is None:
            r = "<" + _drop_angle_groups(inner) + ">" + _drop_angle_groups(rest)
        else:
            ty, tr = inner[:cut], inner[cut + 4:]
            r = "<" + _drop_angle_groups(ty).strip() + " as " + _drop_angle_groups(tr).strip() + ">" + _drop_angle_groups(rest)
    else:
        r = re.sub(r"::<impl (?!at )[^>]*(?:<[^<>]*(?:<[^<>]*>[^<>]*)*>[^<>]*)*>", "", s)
        r = _drop_angle_groups(r)
    r = r.replace("::::", "::")
    if r.endswith("::"):
        r = r[:-2]
    _NORM_CACHE[name] = r
    return r


# ------------------------------------------------------------------------------ top level
def parse_mir(text):
    funcs = {}
    lines = text.split("\n")
    i, n = 0, len(lines)
    while i < n:
        line = lines[i]
        is_const = False
        am = re.match(r"^(alloc\d+) \(static: ([^,]+),", line)
        if am:
            funcs.setdefault("#allocs", {})[am.group(1)] = am.group(2)
        cm = re.match(r"^(?:const|static(?: mut)?) (.*) = \{$", line)
        if cm:
            body = cm.group(1)
            pos = -1
            while True:
                pos = body.find(": ", pos + 1)
                if pos < 0:
                    break
                nm = body[:pos]
                if nm.count("<") == nm.count(">") and nm.count("{") == nm.count("}") and nm.count("(") == nm.count(")"):
                    break
            if pos > 0:
                line = "fn " + body[:pos] + "() -> " + body[pos + 2:] + " {"
                is_const = True
        else:
            cm2 = re.match(r"^(?:const|static(?: mut)?) (.*?): (.*) = (const .*);$", line)
            if cm2:
                f = Func(cm2.group(1), [], cm2.group(2))
                f.is_const = True
                f.raw_blocks = {"bb0": ["_0 = " + cm2.group(3), "return"]}
                funcs[f.name] = f
                i += 1
                continue
        if line.startswith("fn ") and line.rstrip().endswith("{"):
            hdr = line[3:].rstrip()[:-1].rstrip()
            m = re.search(r"\((_1: |\) ->)", hdr)
            if not m:
                i += 1
                continue
            name = hdr[:m.start()]
            rest = hdr[m.start():]
            depth = 0
            j = 0
            for j, c in enumerate(rest):
                if c in "([{":
                    depth += 1
                elif c in ")]}":
                    depth -= 1
                    if depth == 0:
                        break
            params_s = rest[1:j]
            ret = rest[j + 1:].strip()
            if ret.startswith("->"):
                ret = ret[2:].strip()
            params = []
            for p in split_top(params_s):
                pm = re.match(r"(_\d+): (.*)$", p)
                if pm:
                    params.append((pm.group(1), pm.group(2)))
            f = Func(name, params, ret)
            f.is_const = is_const
            for pn, pt in params:
                f.locals[pn] = pt
            i += 1
            cur_bb = None
            stmts = []
            while i < n and lines[i] != "}":
                l = lines[i].strip()
                if cur_bb is None:
                    lm = re.match(r"let (?:mut )?(_\d+): (.*);$", l)
                    if lm:
                        f.locals[lm.group(1)] = lm.group(2)
                        i += 1
                        continue
                bm = re.match(r"(bb\d+)( \(cleanup\))?: \{$", l)
                if bm:
                    cur_bb = bm.group(1)
                    stmts = []
                elif l == "}" and cur_bb is not None:
                    f.raw_blocks[cur_bb] = stmts
                    cur_bb = None
                elif cur_bb is not None and l:
                    while not l.endswith(";") and i + 1 < n:
                        i += 1
                        l += " " + lines[i].strip()
                    stmts.append(l[:-1])
                i += 1
            if name in funcs and funcs[name].params != f.params:
                # several impls generated at one macro span (thiserror #[from]): keep all, keyed by first param type
                ov = funcs.setdefault("#overloads", {})
                first = funcs[name]
                lst = ov.setdefault(name, [(first.params[0][1] if first.params else "", name)])
                alt = name + "#" + (f.params[0][1] if f.params else str(len(lst)))
                f.name = alt
                funcs[alt] = f
                lst.append((f.params[0][1] if f.params else "", alt))
            else:
                funcs[name] = f
        i += 1
    return funcs


# ------------------------------------------------------------------------------ compilation
BINOPS = {"Add", "Sub", "Mul", "Div", "Rem", "BitXor", "BitAnd", "BitOr", "Shl", "Shr", "Eq", "Lt", "Le", "Ne", "Ge", "Gt",
          "AddWithOverflow", "SubWithOverflow", "MulWithOverflow", "Offset", "Cmp", "AddUnchecked", "SubUnchecked",
          "MulUnchecked", "ShlUnchecked", "ShrUnchecked"}
UNOPS = {"Not", "Neg", "PtrMetadata"}
NOP_PREFIXES = ("StorageLive", "StorageDead", "nop", "FakeRead", "PlaceMention", "AscribeUserType", "Retag",
                "Coverage", "ConstEvalCounter", "Deinit", "BackwardIncompatibleDropHint")

INT_TYPES = {"u8": (8, False), "u16": (16, False), "u32": (32, False), "u64": (64, False), "u128": (128, False), "usize": (64, False),
             "i8": (8, True), "i16": (16, True), "i32": (32, True), "i64": (64, True), "i128": (128, True), "isize": (64, True),
             "char": (32, False)}


def parse_place(s):
    s = s.strip()
    ast, pos = _place(s, 0)
    if pos != len(s):
        raise MirError("trailing text in place %r at %d" % (s, pos))
    return ast


def _skip_type(s, i):
    depth = 0
    n = len(s)
    while i < n:
        c = s[i]
        if c in "([{":
            depth += 1
        elif c in ")]}":
            if depth == 0:
                return i
            depth -= 1
        i += 1
    raise MirError("unterminated type in place: " + s)


def _place(s, i):
    if s[i] == "_":
        m = re.match(r"_\d+", s[i:])
        node = ("local", m.group(0))
        i += len(m.group(0))
    elif s[i] == "(":
        i += 1
        if s[i] == "*":
            inner, i = _place(s, i + 1)
            if s[i] != ")":
                raise MirError("place: " + s)
            i += 1
            node = ("deref", inner)
        else:
            inner, i = _place(s, i)
            if s[i] == ".":
                m = re.match(r"\.(\d+): ", s[i:])
                idx = int(m.group(1))
                i += len(m.group(0))
                j = _skip_type(s, i)
                ty = s[i:j]
                i = j + 1
                node = ("field", inner, idx, ty)
            elif s.startswith(" as ", i):
                m = re.match(r" as ([A-Za-z_0-9]+)\)", s[i:])
                if not m:
                    # (_x as Type) subtype cast places are not expected
                    raise MirError("place downcast: " + s)
                node = ("downcast", inner, m.group(1))
                i += len(m.group(0))
            else:
                raise MirError("place: " + s)
    else:
        raise MirError("place: " + s)
    while i < len(s) and s[i] == "[":
        j = s.index("]", i)
        inside = s[i + 1:j]
        if inside.startswith("_"):
            node = ("index", node, inside)
        elif " of " in inside:
            a, b = inside.split(" of ")
            node = ("cindex", node, abs(int(a)), a.startswith("-"))
        elif ":" in inside:
            a, b = inside.split(":")
            node = ("subslice", node, int(a) if a else 0, b)
        else:
            raise MirError("place index: " + s)
        i = j + 1
    return node, i


def compile_operand(s):
    s = s.strip()
    if s.startswith("no_retag "):
        s = s[9:]
    if s.startswith("copy "):
        return ("copy", parse_place(s[5:]))
    if s.startswith("move "):
        return ("move", parse_place(s[5:]))
    if s.startswith("const "):
        return ("const", s[6:].strip())
    if re.match(r"^[<A-Za-z_{]", s):
        return ("fnitem", s)
    raise MirError("operand: " + s)


def compile_rvalue(s):
    s = s.strip()
    if s.startswith("&raw const "):
        rest = s[len("&raw const "):]
        if rest.startswith("(fake) "):
            rest = rest[len("(fake) "):]      # fake borrow emitted for bounds checks: same place
        return ("ref", parse_place(rest))
    if s.startswith("&raw mut "):
        rest = s[len("&raw mut "):]
        if rest.startswith("(fake) "):
            rest = rest[len("(fake) "):]
        return ("ref", parse_place(rest))
    if s.startswith("&mut "):
        return ("ref", parse_place(s[5:]))
    if s.startswith("&fake "):
        return ("ref", parse_place(s[6:].replace("shallow ", "")))
    if s.startswith("&"):
        return ("ref", parse_place(s[1:]))
    if s.startswith(("copy ", "move ", "const ", "no_retag ")):
        m = re.match(r"(.*) as (.*) \((\w+)(\(.*\))?\)$", s)
        if m and not s.startswith("const \"") and len(split_top(s)) == 1:
            try:
                return ("cast", compile_operand(m.group(1)), m.group(2), m.group(3))
            except MirError:
                pass
        return ("use", compile_operand(s))
    if s.endswith(")") and " as " in s and re.search(r" \((PointerCoercion|Transmute|PtrToPtr|IntToInt|Subtype|FnPtrToPtr)\b.*\)$", s):
        m = re.match(r"(.*) as (.*) \((\w+)(\(.*\))?\)$", s)
        if m:
            try:
                return ("cast", compile_operand(m.group(1)), m.group(2), m.group(3))
            except MirError:
                pass
    m = re.match(r"([A-Za-z]+)\((.*)\)$", s)
    if m:
        head = m.group(1)
        if head in BINOPS:
            a, b = split_top(m.group(2))
            return ("binop", head, compile_operand(a), compile_operand(b))
        if head in UNOPS:
            return ("unop", head, compile_operand(m.group(2)))
        if head == "discriminant":
            return ("discr", parse_place(m.group(2)))
        if head == "Len":
            return ("len", parse_place(m.group(2)))
        if head == "CopyForDeref":
            return ("use", ("copy", parse_place(m.group(2))))
        if head in ("ShallowInitBox", "ThreadLocalRef", "NullOp", "SizeOf", "AlignOf", "OffsetOf", "WrapUnsafeBinder"):
            raise MirError("unsupported rvalue: " + s)
    if s.startswith("("):
        inner = s[1:-1].strip()
        if inner.endswith(","):
            inner = inner[:-1]
        return ("tuple", [compile_operand(x) for x in split_top(inner)] if inner else [])
    if s.startswith("["):
        inner = s[1:-1]
        parts = split_top(inner, ";")
        if len(parts) == 2 and len(split_top(inner)) == 1:
            return ("repeat", compile_operand(parts[0]), parts[1].strip())
        return ("array", [compile_operand(x) for x in split_top(inner)])
    m = re.match(r"(\{(?:closure|coroutine)@[^}]*\})(?: \{(.*)\})?$", s)
    if m:
        caps = []
        if m.group(2):
            caps = [compile_operand(x.split(": ", 1)[1]) for x in split_top(m.group(2).strip())]
        return ("closure", m.group(1), caps)
    m = re.match(r"(.*?) \{ (.*) \}$", s)
    if m and not s.startswith("const"):
        parts = split_top(m.group(2))
        names = [x.split(": ", 1)[0] for x in parts]
        ops = [compile_operand(x.split(": ", 1)[1]) for x in parts]
        return ("adt", strip_generics(m.group(1)), ops, names)
    if s.endswith(")"):
        o = match_paren_back(s, len(s) - 1)
        inner = s[o + 1:-1]
        ops = [compile_operand(x) for x in split_top(inner)] if inner.strip() else []
        return ("adt", strip_generics(s[:o]), ops, None)
    return ("adt", strip_generics(s), [], None)


def compile_term(t):
    if t == "return":
        return ("return",)
    if t.startswith("goto -> "):
        return ("goto", t[8:])
    if t.startswith("switchInt("):
        m = re.match(r"switchInt\((.*)\) -> \[(.*)\]$", t)
        op = compile_operand(m.group(1))
        tgts, other = [], None
        for x in split_top(m.group(2)):
            val, bb = x.split(": ")
            if val == "otherwise":
                other = bb
            else:
                tgts.append((int(val), bb))
        return ("switch", op, tgts, other)
    if t.startswith("drop("):
        m = re.search(r"return: (bb\d+)", t)
        return ("goto", m.group(1))
    if t.startswith("assert("):
        m = re.match(r"assert\((!?)(.*?), (\".*\")(?:, .*)?\) -> \[success: (bb\d+)", t)
        if not m:
            raise MirError("assert: " + t)
        return ("assert", bool(m.group(1)), compile_operand(m.group(2)), m.group(3), m.group(4))
    if t == "unreachable":
        return ("unreachable",)
    if t.startswith("resume") or t.startswith("abort") or t.startswith("terminate"):
        return ("resume",)
    if t.startswith("falseEdge") or t.startswith("falseUnwind"):
        m = re.search(r"real: (bb\d+)", t)
        return ("goto", m.group(1))
    m = re.match(r"(?:(.*?) = )?(.*?) -> (?:\[return: (bb\d+), unwind[^\]]*\]|unwind.*|bb\d+)$", t)
    if m and m.group(2).endswith(")"):
        dest, callexpr, ret = m.group(1), m.group(2), m.group(3)
        o = match_paren_back(callexpr, len(callexpr) - 1)
        callee = callexpr[:o]
        inner = callexpr[o + 1:-1]
        args = [compile_operand(x) for x in split_top(inner)] if inner.strip() else []
        if callee.startswith(("move ", "copy ")):
            cal = ("value", compile_operand(callee))
        else:
            cal = ("static", callee)
        return ("call", parse_place(dest) if dest else None, cal, args, ret)
    raise MirError("terminator: " + t)


def compile_stmt(st):
    if st.startswith(NOP_PREFIXES):
        return None
    if st.startswith("assume("):
        return None
    if " = " not in st:
        raise MirError("statement: " + st)
    lhs, rhs = st.split(" = ", 1)
    if lhs.startswith("discriminant("):
        return ("setdiscr", parse_place(lhs[len("discriminant("):-1]), int(rhs))
    return ("assign", parse_place(lhs), compile_rvalue(rhs))


def _count_local_uses(f, nm):
    cache = getattr(f, "_uses", None)
    if cache is None:
        cache = {}
        for raw in f.raw_blocks.values():
            for line in raw:
                for m in re.finditer(r"_\d+", line):
                    cache[m.group(0)] = cache.get(m.group(0), 0) + 1
        try:
            f._uses = cache
        except AttributeError:
            pass
    return cache.get(nm, 0)


def compile_func(f):
    if f.blocks is not None:
        return
    blocks = {}
    for bb, raw in f.raw_blocks.items():
        if not raw:
            blocks[bb] = ([], ("return",))
            continue
        try:
            stmts = [c for c in (compile_stmt(s) for s in raw[:-1]) if c is not None]
            term = compile_term(raw[-1])
            # rustc prints one capture per captured *variable*; with precise captures a closure aggregate may have more
            # operands than printed.  The unprinted ones are the temporaries assigned just before it and used nowhere else.
            for k, st in enumerate(stmts):
                if st[0] == "assign" and st[2][0] == "closure":
                    cands = []
                    for prev in stmts[:k]:
                        if prev[0] == "assign" and prev[1][0] == "local":
                            nm = prev[1][1]
                            if _count_local_uses(f, nm) == 1:
                                cands.append(nm)
                    stmts[k] = ("assign", st[1], ("closure", st[2][1], st[2][2], cands))
        except MirError as e:
            # cleanup / never-executed blocks may contain constructs we do not support: fail lazily
            stmts, term = [], ("unsupported", "%s in %s %s" % (e, f.name, bb))
        except Exception as e:  # noqa
            stmts, term = [], ("unsupported", "%r in %s %s: %s" % (e, f.name, bb, raw[-1][:200]))
        blocks[bb] = (stmts, term)
    f.blocks = blocks
