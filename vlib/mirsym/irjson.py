"""Interpreter values of typeshare's IR -> the JSON shape tools/vreplay prints for the real values."""
from .values import *  # noqa
from .models_fmt import display_chars

KEY_ENUMS = ("SupportedLanguage", "DecoratorKind")


def sort_key(L, v):
    v = unbox(v)
    if isinstance(v, RString):
        return (0, pystr(v))
    if isinstance(v, EnumV):
        return (1, v.variant, tuple(sort_key(L, f) for f in v.fields))
    if isinstance(v, Agg):
        return (2, tuple(sort_key(L, f) for f in v.fields))
    if isinstance(v, (int, bool)):
        return (3, v)
    return (9, repr(v))


def to_json(L, v):
    v = deref(v)
    if isinstance(v, BoxV):
        return to_json(L, v.cell[0])
    if isinstance(v, RString):
        return pystr(v)
    if isinstance(v, bool):
        return v
    if isinstance(v, int):
        return v
    if isinstance(v, RVec):
        return [to_json(L, x) for x in v.items]
    if isinstance(v, list):
        return [to_json(L, x) for x in v]
    if isinstance(v, RMap):
        es = sorted(v.entries, key=lambda e: sort_key(L, e[0]))
        if v.is_set():
            return [to_json(L, e[0]) for e in es]
        out = []
        for k, x in es:
            kk = unbox(k)
            if isinstance(kk, EnumV) and kk.ty.split("::")[-1] in KEY_ENUMS:
                out.append([L.enums[kk.ty.split("::")[-1]][kk.variant], to_json(L, x)])
            else:
                out.append([to_json(L, k), to_json(L, x)])
        out.sort(key=lambda p: str(p[0]))
        return out
    if isinstance(v, EnumV):
        en = v.ty.split("::")[-1]
        if en == "Option":
            return None if v.variant == 0 else to_json(L, v.fields[0])
        vn = L.enums[en][v.variant]
        d = {"$": "%s::%s" % (en, vn)}
        names = L.enum_fields.get((en, vn))
        for i, f in enumerate(v.fields):
            key = names[i] if names else str(i)
            if en == "RustConstExpr":
                d[key] = str(to_json(L, f))
            else:
                d[key] = to_json(L, f)
        return d
    if isinstance(v, Agg):
        sn = v.ty.split("::")[-1]
        names = L.structs.get(sn)
        d = {"$": sn}
        for i, f in enumerate(v.fields):
            d[names[i] if names else str(i)] = to_json(L, f)
        return d
    raise Unsupported("to_json of %r" % (v,))


def parsed_data_json(I, pd):
    """mirror of vreplay's parsed_data()"""
    L = I.prog.layout
    names = L.structs["ParsedData"]
    g = lambda n: pd.fields[names.index(n)]
    imports = []
    for e in g("import_types").entries:
        it = unbox(e[0])
        inames = L.structs["ImportedType"]
        bc = unbox(it.fields[inames.index("base_crate")])
        imports.append([pystr(bc.fields[0]), pystr(it.fields[inames.index("type_name")])])
    imports.sort()
    errs = []
    for e in g("errors").items:
        en = L.structs["ErrorInfo"]
        err = unbox(e.fields[en.index("error")])
        variant = L.enums["ParseError"][err.variant]
        msg = "".join(chr(c) if isinstance(c, int) else "?" for c in display_chars(I, err))
        errs.append({"$": "ErrorInfo", "file_name": pystr(e.fields[en.index("file_name")]), "variant": variant, "message": msg})
    return {"$": "ParsedData", "structs": to_json(L, g("structs")), "enums": to_json(L, g("enums")), "aliases": to_json(L, g("aliases")),
            "consts": to_json(L, g("consts")), "import_types": imports, "crate_name": pystr(unbox(g("crate_name")).fields[0]),
            "file_name": pystr(g("file_name")), "type_names": sorted(pystr(e[0]) for e in g("type_names").entries),
            "errors": errs, "multi_file": bool(g("multi_file"))}
