"""Parser-level harness entry points: run typeshare's visitor / parser from MIR on an abstract AST."""
from .values import *  # noqa
from .models_misc import RPath
from . import synast


def crate_name(prog, s, prefix=""):
    return Agg(prefix + "language::CrateName", [s if isinstance(s, RString) else S(s)])


def parse_context(prog, target_os=(), multi_file=False, ignored=(), prefix=""):
    L = prog.layout
    vals = {"ignored_types": RVec([S(x) for x in ignored]), "multi_file": multi_file,
            "target_os": RVec([t if isinstance(t, RString) else S(t) for t in target_os])}
    return L.make_adt(prefix + "context::ParseContext", [vals[n] for n in L.structs["ParseContext"]], list(L.structs["ParseContext"]))


def run_visitor(I, file_ast, target_os=(), multi_file=False, crate="", file_name="", file_path="", ignored=()):
    """TypeShareVisitor::new(..); visit_file(..); parsed_data() -> Option<ParsedData> value"""
    prog = I.prog
    ctx = parse_context(prog, target_os, multi_file, ignored)
    vis = I.call_static("visitors::TypeShareVisitor::new", [Ref([ctx], 0), crate_name(prog, crate), S(file_name), RPath(S(file_path))])
    cell = [vis]
    I.call_static("<visitors::TypeShareVisitor as syn::visit::Visit>::visit_file", [Ref(cell, 0), Ref([file_ast], 0)])
    return I.call_static("visitors::TypeShareVisitor::parsed_data", [cell[0]])


def first_item(prog, file_ast, k=0):
    return synast.item_payload(synast.file_items(prog, file_ast)[k])
