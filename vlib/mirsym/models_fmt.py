"""core::fmt: format_args! templates of this nightly, Display/Debug rendering, write_fmt on writers."""
import re

import z3

from .values import *  # noqa
from .models_core import model, meth, chars_of, items_of, map_iter_order


class FmtArg:
    __slots__ = ("kind", "v")

    def __init__(self, kind, v):
        self.kind, self.v = kind, v


class FmtArgs:
    __slots__ = ("parts",)

    def __init__(self, parts):
        self.parts = parts  # list of ("lit", [chars]) | ("arg", FmtArg, spec)


class Formatter:
    type_name = "Formatter"

    def __init__(self, buf, alternate=False):
        self.buf = buf
        self.alternate = alternate


class DynWrite:
    """`&mut dyn Write` / `impl Write` sink: collects chars."""
    type_name = "DynWrite"

    def __init__(self, chars=None):
        self.chars = chars if chars is not None else []


class JoinObj:
    """joinery::Join: Display joins the items with the separator"""

    def __init__(self, items, sep):
        self.items, self.sep = items, sep


def utf8_decode(bs):
    return [ord(c) for c in bytes(bs).decode("utf-8")]


def parse_template(tmpl, args):
    """Template grammar of library/core/src/fmt/mod.rs (rustc nightly 2026-08)."""
    parts = []
    i = 0
    nxt = 0
    b = tmpl
    while True:
        c = b[i]
        if c == 0:
            break
        if c < 0x80:
            parts.append(("lit", utf8_decode(b[i + 1:i + 1 + c])))
            i += 1 + c
        elif c == 0x80:
            ln = b[i + 1] | (b[i + 2] << 8)
            parts.append(("lit", utf8_decode(b[i + 3:i + 3 + ln])))
            i += 3 + ln
        else:
            if c & 0xC0 != 0xC0:
                raise Unsupported("format template byte 0x%02x" % c)
            i += 1
            spec = {}
            if c & 1:
                spec["flags"] = b[i] | (b[i + 1] << 8) | (b[i + 2] << 16) | (b[i + 3] << 24)
                i += 4
            if c & 2:
                spec["width"] = b[i] | (b[i + 1] << 8)
                i += 2
            if c & 4:
                spec["precision"] = b[i] | (b[i + 1] << 8)
                i += 2
            if c & 8:
                nxt = b[i] | (b[i + 1] << 8)
                i += 2
            parts.append(("arg", args[nxt], spec))
            nxt += 1
    return parts


@model(r"^core::fmt::rt::Argument::new_display$")
def arg_display(I, a, n):
    return FmtArg("display", a[0])


@model(r"^core::fmt::rt::Argument::new_debug$")
def arg_debug(I, a, n):
    return FmtArg("debug", a[0])


@model(r"^core::fmt::rt::Argument::new_(lower_hex|upper_hex|octal|binary|pointer|lower_exp|upper_exp)$")
def arg_other(I, a, n):
    return FmtArg(meth(n)[4:], a[0])


@model(r"^std::fmt::Arguments::new$|^core::fmt::Arguments::new$")
def args_new(I, a, n):
    tmpl = a[0]
    if isinstance(tmpl, Ref):
        tmpl = tmpl.get()
    args = deref(a[1])
    if isinstance(args, SliceRef):
        args = args.view()
    return FmtArgs(parse_template(list(tmpl), args))


@model(r"^std::fmt::Arguments::from_str$|^std::fmt::Arguments::from_str_nonconst$|^core::fmt::Arguments::from_str$")
def args_from_str(I, a, n):
    return FmtArgs([("lit", list(chars_of(a[0])))])


def debug_str_chars(I, chars):
    out = [34]
    for c in chars:
        if is_sym(c):
            from .models_core import char_domain
            char_domain(I, c)       # ASCII + the printable non-ASCII representatives (none of which Debug escapes)
            k = I.branch([c == 34, c == 92, c == 10, c == 13, c == 9, z3.Or(z3.ULT(c, 32), c == 127),
                          z3.Not(z3.Or(c == 34, c == 92, z3.ULT(c, 32), c == 127))])
            if k == 0:
                out += [92, 34]
            elif k == 1:
                out += [92, 92]
            elif k == 2:
                out += [92, 110]
            elif k == 3:
                out += [92, 114]
            elif k == 4:
                out += [92, 116]
            elif k == 5:
                raise Unsupported("Debug formatting of a symbolic control character")
            else:
                out.append(c)
        else:
            if c == 34:
                out += [92, 34]
            elif c == 92:
                out += [92, 92]
            elif c == 10:
                out += [92, 110]
            elif c == 13:
                out += [92, 114]
            elif c == 9:
                out += [92, 116]
            elif c == 39:
                out.append(39)
            elif c < 32 or c == 127:
                out += [ord(x) for x in "\\u{%x}" % c]
            else:
                out.append(c)
    out.append(34)
    return out


def display_chars(I, v):
    v = unbox(v)
    if isinstance(v, RString):
        return list(v.chars)
    if isinstance(v, bool):
        return [ord(c) for c in ("true" if v else "false")]
    if isinstance(v, int):
        return [ord(c) for c in str(v)]
    if is_sym(v):
        if z3.is_bool(v):
            return [ord(c) for c in ("true" if I.branch_bool(v) else "false")]
        if v.size() == 32:
            return [v]     # char
        raise Unsupported("Display of a symbolic integer")
    if isinstance(v, JoinObj):
        out = []
        sep = display_chars(I, v.sep)
        for k, x in enumerate(v.items):
            if k:
                out += sep
            out += display_chars(I, x)
        return out
    if isinstance(v, FmtArgs):
        return render(I, v)
    if isinstance(v, EnumV) and v.ty.endswith("Cow"):
        return display_chars(I, v.fields[0])
    if isinstance(v, Agg) and v.ty.split("::")[-1] == "LazyFormat":
        # lazy_format::make_lazy_format!: Display::fmt is `(self.0)(f)`
        buf = RString([])
        I.callf(v.fields[0], [Ref([Formatter(buf)], 0)])
        return buf.chars
    if isinstance(v, (Agg, EnumV, Closure)):
        buf = RString([])
        fm = Formatter(buf)
        r = I.resolve("<%s as std::fmt::Display>::fmt" % v.ty if not isinstance(v, Closure) else "?", [v])
        if r is None or r[0] == "none":
            # lazy_format!-style objects: Display impl defined next to the type
            r = find_display(I, v)
        if r[0] == "mir":
            I.call_mir(r[1], [Ref([v], 0), Ref([fm], 0)])
        else:
            r[1](I, [Ref([v], 0), Ref([fm], 0)], "Display::fmt")
        return buf.chars
    if isinstance(v, Opaque):
        return [ord(c) for c in "<%s>" % v.what]
    d = getattr(v, "display", None)
    if d:
        return d(I)
    from .models_iter import ListIt
    if isinstance(v, ListIt) and v.kind == "chars":
        return list(v.items[v.i:])       # char::ToLowercase / ToUppercase implement Display
    raise Unsupported("Display of %r" % (v,))


def find_display(I, v):
    tn = I.type_name(v)
    for tr in ("Display",):
        k = (tn, tr, "fmt")
        if k in I.prog.methods:
            return ("mir", I.prog.methods[k])
    raise Unsupported("no Display impl for run-time type %s" % tn)


def debug_chars(I, v):
    v0 = v
    v = unbox(v)
    if isinstance(v, RString):
        return debug_str_chars(I, v.chars)
    if isinstance(v, (bool, int)) or is_sym(v):
        return display_chars(I, v)
    if isinstance(v, EnumV) and v.ty.split("::")[-1] == "Option":
        if v.variant == 0:
            return [ord(c) for c in "None"]
        return [ord(c) for c in "Some("] + debug_chars(I, v.fields[0]) + [41]
    if isinstance(v, (RVec, SliceRef, list)):
        out = [91]
        for k, x in enumerate(items_of(v)):
            if k:
                out += [44, 32]
            out += debug_chars(I, x)
        return out + [93]
    if isinstance(v, RMap):
        out = [123]
        for k, e in enumerate(map_iter_order(I, v)):
            if k:
                out += [44, 32]
            out += debug_chars(I, e[0])
            if not v.is_set():
                out += [58, 32] + debug_chars(I, e[1])
        return out + [125]
    if isinstance(v, (Agg, EnumV)):
        tn = I.type_name(v)
        k = (tn, "Debug", "fmt")
        if k in I.prog.methods:
            buf = RString([])
            I.call_mir(I.prog.methods[k], [Ref([v], 0), Ref([Formatter(buf)], 0)])
            return buf.chars
        return [ord(c) for c in "<%s>" % tn]
    if isinstance(v, Opaque):
        return [ord(c) for c in "<%s>" % v.what]
    if v == ():
        return [40, 41]
    d = getattr(v, "debug", None)
    if d:
        return d(I)
    return [ord(c) for c in "<?>"]


def render_arg(I, fa, spec):
    if fa.kind == "display":
        out = display_chars(I, fa.v)
    elif fa.kind == "debug":
        out = debug_chars(I, fa.v)
    else:
        raise Unsupported("format trait " + fa.kind)
    w = spec.get("width") if spec else None
    if w and len(out) < w:
        flags = spec.get("flags", 0)
        # default alignment: left for text, right for numbers
        v = unbox(fa.v)
        pad = [32] * (w - len(out))
        out = (pad + out) if isinstance(v, int) and not isinstance(v, bool) else (out + pad)
    return out


def render(I, fa):
    out = []
    for part in fa.parts:
        if part[0] == "lit":
            out += list(part[1])
        else:
            out += render_arg(I, part[1], part[2])
    return out


@model(r"^std::fmt::format$|^alloc::fmt::format$")
def fmt_format(I, a, n):
    return RString(render(I, a[0]))


def sink_of(v):
    v = deref(v)
    while isinstance(v, BoxV):
        v = deref(v.cell[0])
    return v


def write_chars(I, sink, chars):
    s = sink_of(sink)
    if isinstance(s, DynWrite):
        s.chars.extend(chars)
    elif isinstance(s, RVec):
        s.text = True
        s.items.extend(chars)
    elif isinstance(s, RString):
        s.chars.extend(chars)
    elif isinstance(s, Formatter):
        s.buf.chars.extend(chars)
    else:
        w = getattr(s, "write_chars", None)
        if w is None:
            raise Unsupported("write to %r" % (s,))
        w(I, chars)


@model(r"^<.* as std::io::Write>::write_fmt$|^std::io::Write::write_fmt$")
def io_write_fmt(I, a, n):
    write_chars(I, a[0], render(I, a[1]))
    return OK(UNIT)


@model(r"^<.* as std::io::Write>::write_all$|^std::io::Write::write_all$")
def io_write_all(I, a, n):
    write_chars(I, a[0], list(items_of(a[1])))
    return OK(UNIT)


@model(r"^<.* as std::io::Write>::write$")
def io_write(I, a, n):
    xs = list(items_of(a[1]))
    write_chars(I, a[0], xs)
    return OK(len(xs))


@model(r"^<.* as std::io::Write>::flush$")
def io_flush(I, a, n):
    return OK(UNIT)


@model(r"^std::fmt::Formatter::write_fmt$|^<std::fmt::Formatter as std::fmt::Write>::write_fmt$|^<std::string::String as std::fmt::Write>::write_fmt$|^std::fmt::Write::write_fmt$")
def fmt_write_fmt(I, a, n):
    write_chars(I, a[0], render(I, a[1]))
    return OK(UNIT)


@model(r"^std::fmt::Formatter::write_str$|^<std::fmt::Formatter as std::fmt::Write>::write_str$|^<std::string::String as std::fmt::Write>::write_str$|^std::fmt::Formatter::pad$")
def fmt_write_str(I, a, n):
    write_chars(I, a[0], list(chars_of(a[1])))
    return OK(UNIT)


@model(r"^<std::fmt::Formatter as std::fmt::Write>::write_char$|^<std::string::String as std::fmt::Write>::write_char$")
def fmt_write_char(I, a, n):
    write_chars(I, a[0], [a[1]])
    return OK(UNIT)


@model(r"^std::fmt::Formatter::alternate$")
def fmt_alternate(I, a, n):
    return deref(a[0]).alternate


@model(r"^<(&)*(str|std::string::String|usize|u8|u16|u32|u64|i8|i16|i32|i64|i128|isize|bool|char|std::borrow::Cow|std::fmt::Arguments|joinery::.*|T) as std::fmt::Display>::fmt$")
def std_display_fmt(I, a, n):
    write_chars(I, a[1], display_chars(I, a[0]))
    return OK(UNIT)


@model(r"^<(&)*(str|std::string::String|usize|u8|u16|u32|u64|i8|i16|i32|i64|i128|isize|bool|char|std::option::Option|std::vec::Vec|std::collections::\w+|std::boxed::Box|\[.*\]|\(.*\)|T) as std::fmt::Debug>::fmt$")
def std_debug_fmt(I, a, n):
    write_chars(I, a[1], debug_chars(I, a[0]))
    return OK(UNIT)


@model(r"^<.* as std::string::ToString>::to_string$")
def any_to_string(I, a, n):
    return RString(display_chars(I, a[0]))


def dbg_fields(I, a, tuple_like):
    f = a[0]
    name = chars_of(a[1])
    rest = a[2:]
    out = list(name)
    if tuple_like:
        out += [40]
        for k, v in enumerate(rest):
            if k:
                out += [44, 32]
            out += debug_chars(I, v)
        out += [41]
    else:
        out += [32, 123, 32]
        for k in range(0, len(rest), 2):
            if k:
                out += [44, 32]
            out += list(chars_of(rest[k])) + [58, 32] + debug_chars(I, rest[k + 1])
        out += [32, 125]
    write_chars(I, f, out)
    return OK(UNIT)


@model(r"^std::fmt::Formatter::debug_tuple_field\d_finish$")
def fmt_debug_tuple(I, a, n):
    return dbg_fields(I, a, True)


@model(r"^std::fmt::Formatter::debug_struct_field\d_finish$")
def fmt_debug_struct(I, a, n):
    return dbg_fields(I, a, False)


@model(r"^std::fmt::Formatter::debug_struct_fields_finish$")
def fmt_debug_struct_n(I, a, n):
    names = items_of(a[2])
    vals = items_of(a[3])
    flat = []
    for nm, v in zip(names, vals):
        flat += [nm, v]
    return dbg_fields(I, [a[0], a[1]] + flat, False)


@model(r"^std::fmt::Formatter::debug_tuple_fields_finish$")
def fmt_debug_tuple_n(I, a, n):
    return dbg_fields(I, [a[0], a[1]] + list(items_of(a[2])), True)
