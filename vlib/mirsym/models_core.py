"""Models of core/alloc/std entry points called from typeshare's MIR: Option/Result, Vec/slice,
String/str/char, Box, Clone/PartialEq/Ord/Default/Hash on std types, mem, bool.

Every model is part of the claim; the names of the models actually hit are written to the evidence.
"""
import re

import z3

from .values import *  # noqa
from .interp import MASK

MODELS = []


def meth(n):
    """method name (last path segment) of a callee, generics removed"""
    from .mirparse import normalize
    return normalize(n).rsplit("::", 1)[-1]


def model(rx):
    crx = re.compile(rx)

    def deco(fn):
        MODELS.append((crx, fn))
        return fn
    return deco


# non-ASCII representatives with exact Unicode case data (others are assumed away, see char_domain)
NONASCII = [0xE9, 0xC9, 0xDF, 0x1C5, 0x4E2D]  # é É ß ǅ 中
WHITESPACE = [9, 10, 11, 12, 13, 32, 0x85, 0xA0, 0x1680, 0x2028, 0x2029, 0x202F, 0x205F, 0x3000] + list(range(0x2000, 0x200B))


def char_domain(I, c):
    """symbolic chars handed to Unicode-sensitive operations are restricted to ASCII + NONASCII."""
    if is_sym(c):
        dom = z3.Or(z3.ULT(c, 0x80), *[c == t for t in NONASCII])
        I.assume(dom)
        if "unicode-domain" not in I.env:
            I.env["unicode-domain"] = True
            I.notes.append("symbolic chars reaching Unicode case/whitespace operations are restricted to ASCII + {é É ß ǅ 中}")


def ascii_upper(c):
    if is_sym(c):
        return z3.If(z3.And(z3.UGE(c, 97), z3.ULE(c, 122)), c - 32, c)
    return c - 32 if 97 <= c <= 122 else c


def ascii_lower(c):
    if is_sym(c):
        return z3.If(z3.And(z3.UGE(c, 65), z3.ULE(c, 90)), c + 32, c)
    return c + 32 if 65 <= c <= 90 else c


def is_upper(I, c):
    if is_sym(c):
        char_domain(I, c)
        return z3.Or(z3.And(z3.UGE(c, 65), z3.ULE(c, 90)), *[c == t for t in NONASCII if chr(t).isupper()])
    return chr(c).isupper()


def is_lower(I, c):
    if is_sym(c):
        char_domain(I, c)
        return z3.Or(z3.And(z3.UGE(c, 97), z3.ULE(c, 122)), *[c == t for t in NONASCII if chr(t).islower()])
    return chr(c).islower()


def is_ws(I, c):
    if is_sym(c):
        return z3.Or(*[c == w for w in WHITESPACE])
    return c in WHITESPACE


def unicode_map(I, chars, fn):
    """str::to_uppercase / to_lowercase on a (partly symbolic) string."""
    out = []
    conc = all(isinstance(c, int) for c in chars)
    if conc:
        return [ord(x) for x in fn("".join(chr(c) for c in chars))]
    for c in chars:
        if isinstance(c, int):
            out.extend(ord(x) for x in fn(chr(c)))
            continue
        char_domain(I, c)
        if I.branch_bool(z3.ULT(c, 0x80)):
            out.append(ascii_upper(c) if fn("a") == "A" else ascii_lower(c))
        else:
            k = I.branch([c == t for t in NONASCII])
            out.extend(ord(x) for x in fn(chr(NONASCII[k])))
    return out


def chars_of(v):
    v = unbox(v)
    if isinstance(v, RString):
        return v.chars
    if isinstance(v, EnumV) and v.ty.endswith("Cow"):
        return chars_of(v.fields[0])
    if isinstance(v, RVec) and v.text:
        return v.items
    raise Unsupported("expected a string, got %r" % (v,))


def seq_eq(I, xs, ys):
    """symbolic equality of two char/int sequences -> python bool or z3 Bool"""
    if len(xs) != len(ys):
        return False
    conds = []
    for p, q in zip(xs, ys):
        if is_sym(p) or is_sym(q):
            conds.append(p == q)
        elif p != q:
            return False
    if not conds:
        return True
    return z3.And(conds) if len(conds) > 1 else conds[0]


def val_eq(I, a, b):
    """structural equality of two run-time values -> bool or z3 Bool (strings may be symbolic)"""
    a, b = unbox(a), unbox(b)
    if isinstance(a, RString) and isinstance(b, RString):
        return seq_eq(I, a.chars, b.chars)
    if isinstance(a, (Agg, EnumV)) and isinstance(b, (Agg, EnumV)):
        # the analysed crate's own PartialEq impl (hand-written or derived) decides
        k = (a.ty.split("::")[-1], "PartialEq", "eq")
        fn = I.prog.methods.get(k)
        if fn is not None and fn not in I.prog.overloads:
            return I.call_mir(fn, [Ref([a], 0), Ref([b], 0)])
    if is_sym(a) or is_sym(b):
        return a == b
    if isinstance(a, (bool, int)) and isinstance(b, (bool, int)):
        return a == b
    if isinstance(a, EnumV) and isinstance(b, EnumV):
        if a.variant != b.variant:
            return False
        return all_of(I, [val_eq(I, x, y) for x, y in zip(a.fields, b.fields)])
    if isinstance(a, Agg) and isinstance(b, Agg):
        return all_of(I, [val_eq(I, x, y) for x, y in zip(a.fields, b.fields)])
    if isinstance(a, (RVec, SliceRef, list)) and isinstance(b, (RVec, SliceRef, list)):
        xa, xb = items_of(a), items_of(b)
        if len(xa) != len(xb):
            return False
        return all_of(I, [val_eq(I, x, y) for x, y in zip(xa, xb)])
    if isinstance(a, RMap) and isinstance(b, RMap):
        if len(a.entries) != len(b.entries):
            return False
        res = []
        for k, v in a.entries:
            e = map_find(I, b, k)
            if e is None:
                return False
            res.append(val_eq(I, v, e[1]))
        return all_of(I, res)
    if a == () and b == ():
        return True
    if hasattr(a, "eq"):
        return a.eq(I, b)
    raise Unsupported("val_eq %r %r" % (a, b))


def all_of(I, conds):
    sym = []
    for c in conds:
        if is_sym(c):
            sym.append(c)
        elif not c:
            return False
    if not sym:
        return True
    return z3.And(sym) if len(sym) > 1 else sym[0]


def items_of(v):
    v = unbox(v)
    if isinstance(v, RVec):
        return v.items
    if isinstance(v, SliceRef):
        return v.view()
    if isinstance(v, list):
        return v
    raise Unsupported("expected a sequence, got %r" % (v,))


def clone_val(I, v):
    """deep Clone of a run-time value"""
    v = deref(v)
    if isinstance(v, RString):
        return RString(list(v.chars))
    if isinstance(v, RVec):
        return RVec([clone_val(I, x) for x in v.items], v.text)
    if isinstance(v, SliceRef):
        return v
    if isinstance(v, BoxV):
        return BoxV(clone_val(I, v.cell[0]))
    if isinstance(v, Agg):
        return Agg(v.ty, [clone_val(I, x) for x in v.fields])
    if isinstance(v, EnumV):
        return EnumV(v.ty, v.variant, [clone_val(I, x) for x in v.fields])
    if isinstance(v, list):
        return [clone_val(I, x) for x in v]
    if isinstance(v, RMap):
        return RMap(v.kind, [[clone_val(I, k), clone_val(I, x)] for k, x in v.entries])
    if isinstance(v, Closure):
        return Closure(v.key, [clone_val(I, x) if not isinstance(x, Ref) else x for x in v.fields], v.body)
    c = getattr(v, "clone", None)
    if c:
        return c(I)
    return v


def cmp_vals(I, a, b):
    """Ord::cmp -> -1/0/1 (forks on symbolic comparisons)"""
    a, b = unbox(a), unbox(b)
    if isinstance(a, (Agg, EnumV)) and isinstance(b, (Agg, EnumV)):
        fn = I.prog.methods.get((a.ty.split("::")[-1], "Ord", "cmp"))
        if fn is not None:
            return deref(I.call_mir(fn, [Ref([a], 0), Ref([b], 0)])).variant - 1
    if isinstance(a, RString) and isinstance(b, RString):
        for x, y in zip(a.chars, b.chars):
            if is_sym(x) or is_sym(y):
                # chars compare by code point; UTF-8 byte order agrees with code point order
                X = x if is_sym(x) else z3.BitVecVal(x, 32)
                Y = y if is_sym(y) else z3.BitVecVal(y, 32)
                k = I.branch([z3.ULT(X, Y), X == Y, z3.UGT(X, Y)])
                if k != 1:
                    return -1 if k == 0 else 1
            elif x != y:
                return -1 if x < y else 1
        return (len(a.chars) > len(b.chars)) - (len(a.chars) < len(b.chars))
    if is_sym(a) or is_sym(b):
        A = a if is_sym(a) else z3.BitVecVal(a, b.size())
        B = b if is_sym(b) else z3.BitVecVal(b, a.size())
        k = I.branch([z3.ULT(A, B), A == B, z3.UGT(A, B)])
        return k - 1
    if isinstance(a, (int, bool)) and isinstance(b, (int, bool)):
        return (a > b) - (a < b)
    if isinstance(a, EnumV) and isinstance(b, EnumV):
        if a.variant != b.variant:
            return -1 if a.variant < b.variant else 1
        for x, y in zip(a.fields, b.fields):
            c = cmp_vals(I, x, y)
            if c:
                return c
        return 0
    if isinstance(a, Agg) and isinstance(b, Agg):
        for x, y in zip(a.fields, b.fields):
            c = cmp_vals(I, x, y)
            if c:
                return c
        return 0
    if isinstance(a, (RVec, SliceRef, list)) and isinstance(b, (RVec, SliceRef, list)):
        xa, xb = items_of(a), items_of(b)
        for x, y in zip(xa, xb):
            c = cmp_vals(I, x, y)
            if c:
                return c
        return (len(xa) > len(xb)) - (len(xa) < len(xb))
    raise Unsupported("cmp_vals %r %r" % (a, b))


def ordering(k):
    return EnumV("Ordering", k + 1, [])


def sort_items(I, items, cmpf=None):
    """stable insertion sort driven by (possibly forking) comparisons"""
    out = []
    for x in items:
        pos = len(out)
        while pos > 0:
            c = cmpf(out[pos - 1], x) if cmpf else cmp_vals(I, out[pos - 1], x)
            if c <= 0:
                break
            pos -= 1
        out.insert(pos, x)
    return out


def map_find(I, m, key):
    """entry [k, v] whose key equals `key` (forks on symbolic string equality)"""
    for e in m.entries:
        if I.branch_bool(val_eq(I, e[0], key)):
            return e
    return None


def map_insert(I, m, key, val):
    e = map_find(I, m, key)
    if e is not None:
        old = e[1]
        e[1] = val
        return old, False
    m.entries.append([key, val])
    return None, True


def map_iter_order(I, m):
    """iteration order: BTree* sorted by key, Hash* = an arbitrary order chosen by the environment"""
    if m.kind.startswith("BTree"):
        return sort_items(I, list(m.entries), lambda a, b: cmp_vals(I, a[0], b[0]))
    es = list(m.entries)
    mode = I.env.get("hash_order", "insertion")
    if mode == "reversed":      # one global order for every hash container of the run (cheap whole-run witnesses)
        return es[::-1]
    if mode == "rotated":
        return es[1:] + es[:1]
    if len(es) > 4 and I.env.get("hash_order", "insertion") == "any":
        # n! orders are out of reach: three representative orders (insertion, reversed, rotated), recorded as a restriction
        note = "hash containers with more than 4 entries are iterated in 3 representative orders only (insertion, reversed, rotated)"
        if note not in I.notes:
            I.notes.append(note)
        k = I.choose(3, "hash iteration order (representative)")
        return es if k == 0 else (es[::-1] if k == 1 else es[len(es) // 2:] + es[:len(es) // 2])
    if len(es) > 1 and I.env.get("hash_order", "insertion") == "any":
        out = []
        while es:
            out.append(es.pop(I.choose(len(es), "hash iteration order")))
        return out
    return es


def byte_to_char_idx(I, s, b):
    """byte offset -> char index; panics if not on a char boundary / out of range"""
    chars = s.chars
    if is_sym(b):
        b = I.concretize_int(b, 0, 4 * len(chars) + 1, "byte offset")
    pos = 0
    for k, c in enumerate(chars):
        if pos == b:
            return k
        if pos > b:
            raise Panic("byte index %d is not a char boundary" % b)
        pos += I.char_width(c)
    if pos == b:
        return len(chars)
    if pos > b:
        raise Panic("byte index %d is not a char boundary" % b)
    raise Panic("byte index %d is out of bounds of string" % b)


def first_generic(name):
    """text of the turbofish argument list of the last path segment, split at top level"""
    from .mirparse import split_top
    if not name.endswith(">"):
        return []
    depth = 0
    for i in range(len(name) - 1, -1, -1):
        c = name[i]
        if c == ">" and not (i > 0 and name[i - 1] in "-="):
            depth += 1
        elif c == "<":
            depth -= 1
            if depth == 0:
                if name[i - 2:i] == "::":
                    return split_top(name[i + 1:-1])
                return []
    return []


# =============================================================================== Option
@model(r"^std::option::Option::unwrap$")
def opt_unwrap(I, a, n):
    if a[0].variant == 0:
        raise Panic("called `Option::unwrap()` on a `None` value")
    return a[0].fields[0]


@model(r"^std::option::Option::expect$")
def opt_expect(I, a, n):
    if a[0].variant == 0:
        raise Panic("Option::expect: " + show_chars(chars_of(a[1])))
    return a[0].fields[0]


@model(r"^std::option::Option::is_some$")
def opt_is_some(I, a, n):
    return deref(a[0]).variant == 1


@model(r"^std::option::Option::is_none$")
def opt_is_none(I, a, n):
    return deref(a[0]).variant == 0


@model(r"^std::option::Option::unwrap_or$")
def opt_unwrap_or(I, a, n):
    return a[0].fields[0] if a[0].variant == 1 else a[1]


@model(r"^std::option::Option::unwrap_or_default$")
def opt_unwrap_or_default(I, a, n):
    if a[0].variant == 1:
        return a[0].fields[0]
    return default_of(I, opt_inner_type(n))


def opt_inner_type(n):
    m = re.match(r"^std::(?:option::Option|result::Result)::<(.*)>::\w+$", n)
    if m:
        from .mirparse import split_top
        return split_top(m.group(1))[0]
    return None


def default_of(I, ty):
    if ty is None:
        raise Unsupported("Default of unknown type")
    ty = ty.strip()
    if ty in ("std::string::String", "&str", "&'static str") or re.match(r"^&('\w+ )?str$", ty):
        return RString([])
    if ty.startswith("std::vec::Vec<"):
        return RVec([])
    if ty == "bool":
        return False
    if ty in ("usize", "u8", "u16", "u32", "u64", "i8", "i16", "i32", "i64", "isize", "i128", "u128"):
        return 0
    if ty.startswith("std::option::Option<"):
        return NONE()
    if ty.startswith("std::collections::HashMap<"):
        return RMap("HashMap")
    if ty.startswith("std::collections::HashSet<"):
        return RMap("HashSet")
    if ty.startswith("std::collections::BTreeMap<"):
        return RMap("BTreeMap")
    if ty.startswith("std::collections::BTreeSet<"):
        return RMap("BTreeSet")
    if ty == "()":
        return UNIT
    if ty.startswith("&[") or ty.startswith("&mut ["):
        return SliceRef([], 0, 0)
    if ty in ("&str", "&mut str"):
        return RString([])
    if ty.startswith("syn::token::"):
        return Opaque("token")
    r = I.resolve("<%s as std::default::Default>::default" % ty)
    if r is not None and r[0] == "mir":
        return I.call_mir(r[1], [])
    raise Unsupported("Default of " + ty)


@model(r"^std::option::Option::map$")
def opt_map(I, a, n):
    if a[0].variant == 0:
        return NONE()
    return SOME(I.callf(a[1], [a[0].fields[0]]))


@model(r"^std::option::Option::map_or$")
def opt_map_or(I, a, n):
    if a[0].variant == 0:
        return a[1]
    return I.callf(a[2], [a[0].fields[0]])


@model(r"^std::option::Option::map_or_else$")
def opt_map_or_else(I, a, n):
    if a[0].variant == 0:
        return I.callf(a[1], [])
    return I.callf(a[2], [a[0].fields[0]])


@model(r"^std::option::Option::and_then$")
def opt_and_then(I, a, n):
    if a[0].variant == 0:
        return NONE()
    return I.callf(a[1], [a[0].fields[0]])


@model(r"^std::option::Option::or_else$")
def opt_or_else(I, a, n):
    if a[0].variant == 1:
        return a[0]
    return I.callf(a[1], [])


@model(r"^std::option::Option::or$")
def opt_or(I, a, n):
    return a[0] if a[0].variant == 1 else a[1]


@model(r"^std::option::Option::filter$")
def opt_filter(I, a, n):
    if a[0].variant == 0:
        return a[0]
    v = a[0].fields[0]
    return a[0] if I.branch_bool(I.callf(a[1], [Ref([v], 0)])) else NONE()


@model(r"^std::option::Option::as_ref$|^std::option::Option::as_mut$")
def opt_as_ref(I, a, n):
    o = deref(a[0])
    if o.variant == 0:
        return NONE()
    return SOME(Ref(o.fields, 0))


@model(r"^std::option::Option::as_deref$")
def opt_as_deref(I, a, n):
    o = deref(a[0])
    if o.variant == 0:
        return NONE()
    return SOME(unbox(o.fields[0]))


@model(r"^std::option::Option::cloned$|^std::option::Option::copied$")
def opt_cloned(I, a, n):
    if a[0].variant == 0:
        return NONE()
    return SOME(clone_val(I, deref(a[0].fields[0])))


@model(r"^std::option::Option::ok_or_else$")
def opt_ok_or_else(I, a, n):
    if a[0].variant == 1:
        return OK(a[0].fields[0])
    return ERR(I.callf(a[1], []))


@model(r"^std::option::Option::ok_or$")
def opt_ok_or(I, a, n):
    if a[0].variant == 1:
        return OK(a[0].fields[0])
    return ERR(a[1])


@model(r"^std::option::Option::take$")
def opt_take(I, a, n):
    slot = a[0]
    old = slot.get()
    slot.set(NONE())
    return old


@model(r"^std::option::Option::replace$")
def opt_replace(I, a, n):
    slot = a[0]
    old = slot.get()
    slot.set(SOME(a[1]))
    return old


@model(r"^std::option::Option::insert$|^std::option::Option::get_or_insert_with$")
def opt_insert(I, a, n):
    slot = a[0]
    if meth(n) == "get_or_insert_with" and slot.get().variant == 1:
        return Ref(slot.get().fields, 0)
    v = a[1] if meth(n) == "insert" else I.callf(a[1], [])
    o = SOME(v)
    slot.set(o)
    return Ref(o.fields, 0)


@model(r"^<std::option::Option as std::ops::Try>::branch$")
def opt_try(I, a, n):
    o = a[0]
    if o.variant == 1:
        return EnumV("ControlFlow", 0, [o.fields[0]])
    return EnumV("ControlFlow", 1, [NONE()])


@model(r"^<std::option::Option as std::ops::FromResidual>::from_residual$")
def opt_from_res(I, a, n):
    return NONE()


@model(r"^<std::option::Option as std::default::Default>::default$")
def opt_default(I, a, n):
    return NONE()


# =============================================================================== Result
@model(r"^<std::result::Result as std::ops::Try>::branch$")
def res_try(I, a, n):
    r = a[0]
    if r.variant == 0:
        return EnumV("ControlFlow", 0, [r.fields[0]])
    return EnumV("ControlFlow", 1, [ERR(r.fields[0])])


@model(r"^<std::result::Result as std::ops::FromResidual>::from_residual$")
def res_from_residual(I, a, n):
    """`?`: the error is converted with From; typeshare's From impls come from thiserror #[from]"""
    e = a[0].fields[0]
    m = re.match(r"^<std::result::Result<(.*)> as std::ops::FromResidual<std::result::Result<std::convert::Infallible, (.*)>>>::from_residual$", n)
    if m:
        from .mirparse import split_top
        tgt = split_top(m.group(1))
        src = m.group(2)
        if len(tgt) == 2 and tgt[1].strip() != src.strip():
            e = convert_err(I, e, src.strip(), tgt[1].strip())
    return ERR(e)


def convert_err(I, e, src, tgt):
    r = I.resolve("<%s as std::convert::From<%s>>::from" % (tgt, src), [e])
    if r is not None and r[0] == "mir":
        return I.call_mir(r[1], [e])
    if tgt.startswith("std::boxed::Box<dyn"):
        return BoxV(e)
    if tgt == "anyhow::Error":
        from .models_fs import AnyErr
        if isinstance(deref(e), AnyErr):
            return e
        try:
            from .models_fmt import display_chars
            msg = display_chars(I, e)
        except Unsupported:
            msg = [ord(c) for c in "<error>"]
        return AnyErr(msg, e)
    if r is not None and r[0] == "model":
        return r[1](I, [e], "<%s as std::convert::From<%s>>::from" % (tgt, src))
    raise Unsupported("error conversion %s -> %s" % (src, tgt))


@model(r"^std::result::Result::map_err$")
def res_map_err(I, a, n):
    r = a[0]
    if r.variant == 0:
        return r
    return ERR(I.callf(a[1], [r.fields[0]]))


@model(r"^std::result::Result::map$")
def res_map(I, a, n):
    r = a[0]
    if r.variant == 1:
        return r
    return OK(I.callf(a[1], [r.fields[0]]))


@model(r"^std::result::Result::and_then$")
def res_and_then(I, a, n):
    r = a[0]
    if r.variant == 1:
        return r
    return I.callf(a[1], [r.fields[0]])


@model(r"^std::result::Result::unwrap$")
def res_unwrap(I, a, n):
    if a[0].variant == 1:
        raise Panic("called `Result::unwrap()` on an `Err` value: %r" % (a[0].fields[0],))
    return a[0].fields[0]


@model(r"^std::result::Result::expect$")
def res_expect(I, a, n):
    if a[0].variant == 1:
        raise Panic("Result::expect: " + show_chars(chars_of(a[1])))
    return a[0].fields[0]


@model(r"^std::result::Result::unwrap_or_default$")
def res_unwrap_or_default(I, a, n):
    if a[0].variant == 0:
        return a[0].fields[0]
    return default_of(I, opt_inner_type(n))


@model(r"^std::result::Result::unwrap_or$")
def res_unwrap_or(I, a, n):
    return a[0].fields[0] if a[0].variant == 0 else a[1]


@model(r"^std::result::Result::unwrap_or_else$")
def res_unwrap_or_else(I, a, n):
    return a[0].fields[0] if a[0].variant == 0 else I.callf(a[1], [a[0].fields[0]])


@model(r"^std::result::Result::ok$")
def res_ok(I, a, n):
    return SOME(a[0].fields[0]) if a[0].variant == 0 else NONE()


@model(r"^std::result::Result::err$")
def res_err(I, a, n):
    return SOME(a[0].fields[0]) if a[0].variant == 1 else NONE()


@model(r"^std::result::Result::is_ok$")
def res_is_ok(I, a, n):
    return deref(a[0]).variant == 0


@model(r"^std::result::Result::is_err$")
def res_is_err(I, a, n):
    return deref(a[0]).variant == 1


@model(r"^std::result::Result::inspect_err$")
def res_inspect_err(I, a, n):
    if a[0].variant == 1:
        I.callf(a[1], [Ref(a[0].fields, 0)])
    return a[0]


@model(r"^std::result::Result::as_ref$")
def res_as_ref(I, a, n):
    r = deref(a[0])
    return EnumV("Result", r.variant, [Ref(r.fields, 0)])


# =============================================================================== bool / misc
@model(r"^core::bool::then_some$")
def bool_then_some(I, a, n):
    return SOME(a[1]) if I.branch_bool(a[0]) else NONE()


@model(r"^core::bool::then$")
def bool_then(I, a, n):
    return SOME(I.callf(a[1], [])) if I.branch_bool(a[0]) else NONE()


@model(r"^<bool as std::ops::Not>::not$")
def bool_not(I, a, n):
    v = a[0]
    return z3.Not(v) if is_sym(v) else (not v)


@model(r"^<bool as std::default::Default>::default$")
def bool_default(I, a, n):
    return False


@model(r"^std::hint::must_use$|^std::convert::identity$|^<T as std::convert::Into>::into$|^<T as std::convert::From>::from$")
def ident_fn(I, a, n):
    return a[0]


@model(r"^std::mem::take$")
def mem_take(I, a, n):
    slot = a[0]
    old = slot.get()
    if isinstance(old, RString):
        slot.set(RString([]))
    elif isinstance(old, RVec):
        slot.set(RVec([]))
    elif isinstance(old, RMap):
        slot.set(RMap(old.kind))
    elif isinstance(old, EnumV) and old.ty == "Option":
        slot.set(NONE())
    elif isinstance(old, bool):
        slot.set(False)
    else:
        raise Unsupported("mem::take of %r" % (old,))
    return old


@model(r"^std::mem::replace$")
def mem_replace(I, a, n):
    old = a[0].get()
    a[0].set(a[1])
    return old


@model(r"^std::mem::swap$")
def mem_swap(I, a, n):
    x, y = a[0].get(), a[1].get()
    a[0].set(y)
    a[1].set(x)
    return UNIT


@model(r"^std::mem::drop$|^core::mem::drop$")
def mem_drop(I, a, n):
    return UNIT


@model(r"^std::intrinsics::discriminant_value$|^core::intrinsics::discriminant_value$")
def discr_value(I, a, n):
    v = deref(a[0])
    if isinstance(v, EnumV):
        return v.variant
    raise Unsupported("discriminant_value of %r" % (v,))


@model(r"^core::panicking::panic$|^std::rt::begin_panic$|^core::panicking::panic_explicit$")
def panic_str(I, a, n):
    raise Panic("panic: " + (show_chars(chars_of(a[0])) if a else "explicit panic"))


@model(r"^core::panicking::panic_fmt$|^std::rt::panic_fmt$")
def panic_fmt(I, a, n):
    from .models_fmt import render
    try:
        msg = show_chars(render(I, a[0]))
    except Unsupported:
        msg = "<unrenderable panic message>"
    raise Panic("panic: " + msg)


@model(r"^core::panicking::unreachable_display$|^core::panicking::panic_display$")
def panic_disp(I, a, n):
    raise Panic("panic (display)")


@model(r"^core::option::unwrap_failed$")
def unwrap_failed(I, a, n):
    raise Panic("called `Option::unwrap()` on a `None` value")


@model(r"^core::result::unwrap_failed$|^core::option::expect_failed$")
def unwrap_failed2(I, a, n):
    raise Panic("unwrap/expect failed")


# =============================================================================== Box / Cow / clone / eq
@model(r"^std::boxed::Box::new$")
def box_new(I, a, n):
    return BoxV(a[0])


@model(r"^std::boxed::Box::new_uninit$")
def box_new_uninit(I, a, n):
    return BoxV(Uninit())


@model(r"^std::boxed::box_assume_init_into_vec_unsafe$")
def box_into_vec(I, a, n):
    u = a[0].cell[0]
    return RVec(list(u.slot[0]))


@model(r"^<std::boxed::Box as std::convert::AsRef>::as_ref$|^<std::boxed::Box as std::ops::Deref>::deref$|^<std::boxed::Box as std::ops::DerefMut>::deref_mut$|^<std::boxed::Box as std::borrow::Borrow>::borrow$")
def box_as_ref(I, a, n):
    return Ref(deref(a[0]).cell, 0)


@model(r"^<std::boxed::Box as std::convert::From>::from$")
def box_from(I, a, n):
    return BoxV(a[0])


@model(r"^<std::borrow::Cow as std::convert::AsRef>::as_ref$|^<std::borrow::Cow as std::ops::Deref>::deref$")
def cow_as_ref(I, a, n):
    c = deref(a[0])
    return unbox(c.fields[0]) if isinstance(c, EnumV) else c


@model(r"^std::borrow::Cow::into_owned$|^<std::borrow::Cow as std::string::ToString>::to_string$")
def cow_into_owned(I, a, n):
    c = deref(a[0])
    return clone_val(I, unbox(c.fields[0])) if isinstance(c, EnumV) else clone_val(I, c)


@model(r"^std::result::Result::(Ok|Err)$|^std::option::Option::Some$")
def enum_ctor_fn(I, a, n):
    # `Ok` / `Err` / `Some` used as a function value (e.g. `.map_or_else(f, Ok)`)
    m = meth(n)
    return OK(a[0]) if m == "Ok" else (ERR(a[0]) if m == "Err" else SOME(a[0]))


@model(r"^core::slice::windows$|^core::slice::chunks$")
def slice_windows(I, a, n):
    from .models_iter import ListIt
    s = vec_as_slice(I, a, n)
    k = a[1]
    if is_sym(k):
        k = I.concretize_int(k, 0, 64, "window size")
    if k == 0:
        raise Panic("window size must be non-zero")
    if meth(n) == "windows":
        return ListIt([SliceRef(s.items, s.lo + i, s.lo + i + k) for i in range(0, max(0, len(s) - k + 1))], False)
    return ListIt([SliceRef(s.items, s.lo + i, min(s.hi, s.lo + i + k)) for i in range(0, len(s), k)], False)


@model(r"^std::borrow::Cow::(Owned|Borrowed)$")
def cow_ctor(I, a, n):
    # Cow::Borrowed / Cow::Owned used as a function (e.g. `.map(Cow::Borrowed)`)
    return EnumV("Cow", 0 if meth(n) == "Borrowed" else 1, [a[0]])


@model(r"^<std::borrow::Cow as std::convert::From>::from$")
def cow_from(I, a, n):
    v = a[0]
    if isinstance(deref(v), RString) and not isinstance(v, Ref):
        # &str -> Borrowed, String -> Owned: both are read through as_ref only
        return EnumV("Cow", 1, [v])
    return EnumV("Cow", 0, [deref(v)])


@model(r"^<(&)*(std::string::String|str|std::vec::Vec|std::boxed::Box|std::option::Option|std::collections::\w+|std::path::PathBuf|F|T|\(.*\)|\[.*\]|usize|bool|char|u8|u32|i32) as std::clone::Clone>::clone$")
def std_clone(I, a, n):
    return clone_val(I, a[0])


@model(r"^<.* as std::clone::Clone>::clone_from$|^<.* as std::borrow::ToOwned>::clone_into$")
def std_clone_from(I, a, n):
    # clone_from(&mut self, source) / clone_into(&self, target: &mut Owned)
    dst, src = (a[0], a[1]) if meth(n) == "clone_from" else (a[1], a[0])
    v = clone_val(I, src)
    tgt = dst
    while isinstance(tgt, Ref) and isinstance(tgt.get(), Ref):
        tgt = tgt.get()
    if isinstance(v, SliceRef):
        v = RVec(list(v.view()))
    tgt.set(v)
    return UNIT


@model(r"^<.* as std::borrow::ToOwned>::to_owned$")
def to_owned(I, a, n):
    v = deref(a[0])
    if isinstance(v, (Agg, EnumV)):
        fn = I.prog.methods.get((v.ty.split("::")[-1], "Clone", "clone"))
        if fn is not None:
            return I.call_mir(fn, [Ref([v], 0)])
    if isinstance(v, SliceRef):
        return RVec([clone_val(I, x) for x in v.view()])
    return clone_val(I, v)


@model(r"^<(&)*(std::string::String|str|std::vec::Vec|std::boxed::Box|std::option::Option|std::collections::\w+|usize|bool|char|u8|u32|i32|isize|\[.*\]|std::ffi::OsStr|std::path::Path(Buf)?|\(.*\)|A|T) as std::cmp::PartialEq>::(eq|ne)$")
def std_eq(I, a, n):
    r = val_eq(I, a[0], a[1])
    if meth(n) == "ne":
        return z3.Not(r) if is_sym(r) else (not r)
    return r


@model(r"^<(&)*(std::string::String|str|usize|isize|char|u8|u32|i32|std::vec::Vec|\(.*\)|\[.*\]) as std::cmp::Ord>::cmp$")
def std_cmp(I, a, n):
    return ordering(cmp_vals(I, a[0], a[1]))


@model(r"^<(&)*(std::string::String|str|usize|isize|char|u8|u32|i32|std::vec::Vec|\(.*\)|\[.*\]) as std::cmp::PartialOrd>::partial_cmp$")
def std_partial_cmp(I, a, n):
    return SOME(ordering(cmp_vals(I, a[0], a[1])))


@model(r"^<(&)*(std::string::String|str|usize|isize|char|u8|u32|i32) as std::cmp::PartialOrd>::(lt|le|gt|ge)$")
def std_lt(I, a, n):
    c = cmp_vals(I, a[0], a[1])
    op = meth(n)
    return {"lt": c < 0, "le": c <= 0, "gt": c > 0, "ge": c >= 0}[op]


@model(r"^std::cmp::Ordering::(is_eq|is_ne|is_lt|is_gt|is_le|is_ge|reverse|then_with|then)$")
def ordering_ops(I, a, n):
    k = deref(a[0]).variant - 1
    op = meth(n)
    if op == "reverse":
        return ordering(-k)
    if op == "then":
        return a[0] if k != 0 else a[1]
    if op == "then_with":
        return a[0] if k != 0 else I.callf(a[1], [])
    return {"is_eq": k == 0, "is_ne": k != 0, "is_lt": k < 0, "is_gt": k > 0, "is_le": k <= 0, "is_ge": k >= 0}[op]


@model(r"^std::cmp::min$|^std::cmp::max$|^std::cmp::Ord::min$|^std::cmp::Ord::max$")
def cmp_minmax(I, a, n):
    c = cmp_vals(I, a[0], a[1])
    if "min" in meth(n):
        return a[0] if c <= 0 else a[1]
    return a[1] if c <= 0 else a[0]


@model(r"^<(isize|usize|std::string::String|str|bool|char|u8) as std::hash::Hash>::hash$")
def hash_noop(I, a, n):
    return UNIT


# =============================================================================== Vec / slices
@model(r"^std::vec::Vec::new$|^<std::vec::Vec as std::default::Default>::default$|^std::vec::Vec::with_capacity$")
def vec_new(I, a, n):
    return RVec([])


@model(r"^std::string::String::new$|^<std::string::String as std::default::Default>::default$|^std::string::String::with_capacity$")
def string_new(I, a, n):
    return RString([])


@model(r"^std::vec::Vec::len$")
def vec_len(I, a, n):
    return len(deref(a[0]).items)


@model(r"^std::vec::Vec::is_empty$")
def vec_is_empty(I, a, n):
    return len(deref(a[0]).items) == 0


@model(r"^std::vec::Vec::push$")
def vec_push(I, a, n):
    deref(a[0]).items.append(a[1])
    return UNIT


@model(r"^std::vec::Vec::pop$")
def vec_pop(I, a, n):
    v = deref(a[0])
    return SOME(v.items.pop()) if v.items else NONE()


@model(r"^std::vec::Vec::insert$")
def vec_insert(I, a, n):
    v = deref(a[0])
    i = I.concretize_index(a[1], len(v.items) + 1)
    if i > len(v.items):
        raise Panic("insertion index out of bounds")
    v.items.insert(i, a[2])
    return UNIT


@model(r"^std::vec::Vec::remove$")
def vec_remove(I, a, n):
    v = deref(a[0])
    i = I.concretize_index(a[1], len(v.items))
    if i >= len(v.items):
        raise Panic("removal index (is %d) should be < len (is %d)" % (i, len(v.items)))
    return v.items.pop(i)


@model(r"^std::vec::Vec::clear$")
def vec_clear(I, a, n):
    del deref(a[0]).items[:]
    return UNIT


@model(r"^std::vec::Vec::truncate$")
def vec_truncate(I, a, n):
    v = deref(a[0])
    k = I.concretize_index(a[1], len(v.items) + 1)
    del v.items[k:]
    return UNIT


@model(r"^std::vec::Vec::append$")
def vec_append(I, a, n):
    v, o = deref(a[0]), deref(a[1])
    v.items.extend(o.items)
    o.items = []
    return UNIT


@model(r"^std::vec::Vec::extend_from_slice$")
def vec_extend_from_slice(I, a, n):
    deref(a[0]).items.extend(clone_val(I, x) for x in items_of(a[1]))
    return UNIT


@model(r"^std::vec::Vec::retain$")
def vec_retain(I, a, n):
    v = deref(a[0])
    keep = []
    for k in range(len(v.items)):
        if I.branch_bool(I.callf(a[1], [Ref(v.items, k)])):
            keep.append(v.items[k])
    v.items[:] = keep
    return UNIT


@model(r"^std::vec::Vec::dedup$")
def vec_dedup(I, a, n):
    v = deref(a[0])
    out = []
    for x in v.items:
        if out and I.branch_bool(val_eq(I, out[-1], x)):
            continue
        out.append(x)
    v.items[:] = out
    return UNIT


@model(r"^std::vec::Vec::as_slice$|^<std::vec::Vec as std::ops::Deref>::deref$|^<std::vec::Vec as std::ops::DerefMut>::deref_mut$|^std::vec::Vec::as_mut_slice$|^<std::vec::Vec as std::convert::AsRef>::as_ref$|^<std::vec::Vec as std::borrow::Borrow>::borrow$")
def vec_as_slice(I, a, n):
    v = deref(a[0])
    if isinstance(v, SliceRef):
        return v
    return SliceRef(v.items, 0, len(v.items))


@model(r"^<std::vec::Vec as std::ops::Index>::index$|^<std::vec::Vec as std::ops::IndexMut>::index_mut$|^<\[.*\] as std::ops::Index>::index$|^<\[.*\] as std::ops::IndexMut>::index_mut$")
def vec_index(I, a, n):
    v = deref(a[0])
    idx = a[1]
    if isinstance(idx, Agg):
        return slice_range(I, v, idx)
    its = v.items if isinstance(v, RVec) else None
    ln = I.len_of(v)
    i = I.concretize_index(idx, ln)
    if i >= ln:
        raise Panic("index out of bounds: the len is %d but the index is %d" % (ln, i))
    if isinstance(v, RVec):
        return Ref(v.items, i)
    if isinstance(v, SliceRef):
        return Ref(v.items, v.lo + i)
    return Ref(v, i)


def slice_range(I, v, r):
    ln = I.len_of(v)
    tn = r.ty.split("::")[-1]
    lo, hi = 0, ln
    if tn == "Range":
        lo, hi = r.fields
    elif tn == "RangeTo":
        hi = r.fields[0]
    elif tn == "RangeFrom":
        lo = r.fields[0]
    elif tn == "RangeInclusive":
        lo, hi = r.fields[0], r.fields[1] + 1
    lo = I.concretize_index(lo, ln + 1)
    hi = I.concretize_index(hi, ln + 1)
    if lo > hi:
        raise Panic("slice index starts at %d but ends at %d" % (lo, hi))
    if hi > ln:
        raise Panic("range end index %d out of range for slice of length %d" % (hi, ln))
    if isinstance(v, RVec):
        return SliceRef(v.items, lo, hi)
    if isinstance(v, SliceRef):
        return SliceRef(v.items, v.lo + lo, v.lo + hi)
    return SliceRef(v, lo, hi)


@model(r"^<std::vec::Vec as std::convert::From>::from$|^std::slice::to_vec$|^std::slice::into_vec$")
def vec_from(I, a, n):
    v = deref(a[0])
    if isinstance(v, RString):
        return RVec(list(v.chars), text=True)
    if isinstance(v, BoxV):
        v = v.cell[0]
    return RVec([clone_val(I, x) if meth(n) == "to_vec" else x for x in items_of(v)])


@model(r"^core::slice::len$")
def slice_len(I, a, n):
    return I.len_of(a[0])


@model(r"^core::slice::is_empty$")
def slice_is_empty(I, a, n):
    return I.len_of(a[0]) == 0


@model(r"^core::slice::first$|^core::slice::first_mut$")
def slice_first(I, a, n):
    s = vec_as_slice(I, a, n)
    return SOME(Ref(s.items, s.lo)) if len(s) else NONE()


@model(r"^core::slice::last$|^core::slice::last_mut$")
def slice_last(I, a, n):
    s = vec_as_slice(I, a, n)
    return SOME(Ref(s.items, s.hi - 1)) if len(s) else NONE()


@model(r"^core::slice::get$")
def slice_get(I, a, n):
    s = vec_as_slice(I, a, n)
    i = I.concretize_index(a[1], len(s))
    return SOME(Ref(s.items, s.lo + i)) if i < len(s) else NONE()


@model(r"^core::slice::split_first$")
def slice_split_first(I, a, n):
    s = vec_as_slice(I, a, n)
    if not len(s):
        return NONE()
    return SOME([Ref(s.items, s.lo), SliceRef(s.items, s.lo + 1, s.hi)])


@model(r"^core::slice::split_last$")
def slice_split_last(I, a, n):
    s = vec_as_slice(I, a, n)
    if not len(s):
        return NONE()
    return SOME([Ref(s.items, s.hi - 1), SliceRef(s.items, s.lo, s.hi - 1)])


@model(r"^std::slice::from_ref$|^core::slice::from_ref$|^std::slice::from_mut$")
def slice_from_ref(I, a, n):
    r = a[0]
    if isinstance(r, Ref) and isinstance(r.c, list) and isinstance(r.k, int):
        return SliceRef(r.c, r.k, r.k + 1)
    return SliceRef([deref(r)], 0, 1)


@model(r"^core::slice::split$")
def slice_split(I, a, n):
    """[T]::split(pred): sub-slices separated by the elements matching pred"""
    from .models_iter import ListIt
    s = vec_as_slice(I, a, n)
    out, start = [], s.lo
    for k in range(s.lo, s.hi):
        if I.branch_bool(I.callf(a[1], [Ref(s.items, k)])):
            out.append(SliceRef(s.items, start, k))
            start = k + 1
    out.append(SliceRef(s.items, start, s.hi))
    return ListIt(out, False)


@model(r"^std::vec::from_elem$|^alloc::vec::from_elem$")
def vec_from_elem(I, a, n):
    cnt = a[1]
    if is_sym(cnt):
        cnt = I.concretize_int(cnt, 0, 4096, "vec![x; n] length")
    return RVec([clone_val(I, a[0]) for _ in range(cnt)], text=("u8" in n))


@model(r"^core::slice::swap$")
def slice_swap(I, a, n):
    s = vec_as_slice(I, a, n)
    i = I.concretize_index(a[1], len(s))
    j = I.concretize_index(a[2], len(s))
    if i >= len(s) or j >= len(s):
        raise Panic("index out of bounds in slice::swap")
    it = s.items
    it[s.lo + i], it[s.lo + j] = it[s.lo + j], it[s.lo + i]
    return UNIT


@model(r"^core::slice::contains$")
def slice_contains(I, a, n):
    s = vec_as_slice(I, a, n)
    x = deref(a[1])
    for y in s.view():
        if I.branch_bool(val_eq(I, y, x)):
            return True
    return False


@model(r"^std::ops::RangeInclusive::new$|^core::ops::RangeInclusive::new$")
def range_inclusive_new(I, a, n):
    return Agg("std::ops::RangeInclusive", [a[0], a[1], False])


@model(r"^core::slice::binary_search$")
def slice_binary_search(I, a, n):
    """std's binary_search_by (1.82+): halve `size`, keep `base`, one final comparison.  Modelled step for step, because what it
    returns on a slice that is NOT sorted is exactly what a caller that forgot to sort depends on."""
    s = vec_as_slice(I, a, n)
    xs = list(s.view())
    x = deref(a[1])
    size = len(xs)
    if size == 0:
        return ERR(0)
    base = 0
    while size > 1:
        half = size // 2
        mid = base + half
        c = cmp_vals(I, xs[mid], x)
        base = base if c > 0 else mid
        size -= half
    c = cmp_vals(I, xs[base], x)
    if c == 0:
        return OK(base)
    return ERR(base + (1 if c < 0 else 0))


@model(r"^std::ops::Range::contains$|^core::ops::Range::contains$|^std::ops::RangeInclusive::contains$|^core::ops::RangeInclusive::contains$")
def range_contains(I, a, n):
    r = deref(a[0])
    x = deref(a[1])
    lo, hi = deref(r.fields[0]), deref(r.fields[1])
    incl = "RangeInclusive" in n
    def le(p, q, strict):
        if is_sym(p) or is_sym(q):
            P = p if is_sym(p) else z3.BitVecVal(p, q.size())
            Q = q if is_sym(q) else z3.BitVecVal(q, p.size())
            return z3.ULT(P, Q) if strict else z3.ULE(P, Q)
        return (p < q) if strict else (p <= q)
    c1, c2 = le(lo, x, False), le(x, hi, not incl)
    if isinstance(c1, bool) and isinstance(c2, bool):
        return c1 and c2
    return z3.And(c1 if not isinstance(c1, bool) else z3.BoolVal(c1), c2 if not isinstance(c2, bool) else z3.BoolVal(c2))


@model(r"^core::slice::reverse$")
def slice_reverse(I, a, n):
    s = vec_as_slice(I, a, n)
    s.items[s.lo:s.hi] = s.items[s.lo:s.hi][::-1]
    return UNIT


@model(r"^std::slice::sort$|^core::slice::sort_unstable$")
def slice_sort(I, a, n):
    s = vec_as_slice(I, a, n)
    s.items[s.lo:s.hi] = sort_items(I, s.view())
    return UNIT


@model(r"^std::slice::sort_by$|^core::slice::sort_unstable_by$")
def slice_sort_by(I, a, n):
    s = vec_as_slice(I, a, n)
    s.items[s.lo:s.hi] = sort_items(I, s.view(), lambda x, y: deref(I.callf(a[1], [Ref([x], 0), Ref([y], 0)])).variant - 1)
    return UNIT


@model(r"^std::slice::sort_by_key$|^core::slice::sort_unstable_by_key$|^std::slice::sort_by_cached_key$")
def slice_sort_by_key(I, a, n):
    s = vec_as_slice(I, a, n)
    keyed = [(I.callf(a[1], [Ref([x], 0)]), x) for x in s.view()]
    keyed = sort_items(I, keyed, lambda p, q: cmp_vals(I, p[0], q[0]))
    s.items[s.lo:s.hi] = [x for _, x in keyed]
    return UNIT


@model(r"^std::slice::join$|^std::slice::concat$")
def slice_join(I, a, n):
    s = vec_as_slice(I, a, n)
    parts = list(s.view())
    if parts and all(isinstance(unbox(x), (RVec, SliceRef, list)) for x in parts):
        # [&[T]]::concat() / join(&sep) over slices of values: a Vec<T> of clones
        out, sepv = [], (list(items_of(unbox(a[1]))) if len(a) > 1 and isinstance(unbox(a[1]), (RVec, SliceRef, list)) else ([a[1]] if len(a) > 1 else []))
        for k, x in enumerate(parts):
            if k:
                out += [clone_val(I, y) for y in sepv]
            out += [clone_val(I, y) for y in items_of(unbox(x))]
        return RVec(out)
    sep = chars_of(a[1]) if len(a) > 1 else []
    out = []
    for k, x in enumerate(s.view()):
        if k:
            out += sep
        out += chars_of(x)
    return RString(out)


# =============================================================================== String / str
@model(r"^<std::string::String as std::ops::Deref>::deref$|^std::string::String::as_str$|^<std::string::String as std::convert::AsRef>::as_ref$|^<std::string::String as std::borrow::Borrow>::borrow$|^<str as std::convert::AsRef>::as_ref$|^std::string::String::as_mut_str$|^<std::string::String as std::ops::DerefMut>::deref_mut$")
def string_deref(I, a, n):
    return unbox(a[0])


@model(r"^<(&)*(str|std::string::String|char) as std::string::ToString>::to_string$|^<(&)*(str|std::string::String) as std::convert::Into>::into$|^<std::string::String as std::convert::From>::from$|^std::str::to_string$|^<(&)*str as std::string::SpecToString>::spec_to_string$")
def str_to_string(I, a, n):
    v = unbox(a[0])
    if isinstance(v, (int,)) or is_sym(v):
        return RString([v])
    if isinstance(v, EnumV) and v.ty.endswith("Cow"):
        v = unbox(v.fields[0])
    return RString(list(chars_of(v)))


@model(r"^std::string::String::len$|^core::str::len$")
def string_len(I, a, n):
    return I.str_byte_len(unbox(a[0]))


@model(r"^std::string::String::is_empty$|^core::str::is_empty$")
def string_is_empty(I, a, n):
    return len(chars_of(a[0])) == 0


@model(r"^std::string::String::push$")
def string_push(I, a, n):
    deref(a[0]).chars.append(a[1])
    return UNIT


@model(r"^std::string::String::push_str$|^<std::string::String as std::ops::AddAssign>::add_assign$")
def string_push_str(I, a, n):
    deref(a[0]).chars.extend(chars_of(a[1]))
    return UNIT


@model(r"^std::string::String::pop$")
def string_pop(I, a, n):
    s = deref(a[0])
    return SOME(s.chars.pop()) if s.chars else NONE()


@model(r"^std::string::String::clear$")
def string_clear(I, a, n):
    del deref(a[0]).chars[:]
    return UNIT


@model(r"^std::string::String::insert_str$|^std::string::String::insert$")
def string_insert(I, a, n):
    s = deref(a[0])
    k = byte_to_char_idx(I, s, a[1])
    ins = chars_of(a[2]) if meth(n) == "insert_str" else [a[2]]
    s.chars[k:k] = ins
    return UNIT


@model(r"^std::string::String::replace_range$")
def string_replace_range(I, a, n):
    s = deref(a[0])
    r = a[1]
    tn = r.ty.split("::")[-1]
    lo_b, hi_b = 0, None
    if tn == "Range":
        lo_b, hi_b = r.fields
    elif tn == "RangeTo":
        hi_b = r.fields[0]
    elif tn == "RangeFrom":
        lo_b = r.fields[0]
    elif tn == "RangeInclusive":
        lo_b, hi_b = r.fields[0], r.fields[1] + 1
    lo = byte_to_char_idx(I, s, lo_b)
    hi = len(s.chars) if hi_b is None else byte_to_char_idx(I, s, hi_b)
    if lo > hi:
        raise Panic("slice index starts after end")
    s.chars[lo:hi] = list(chars_of(a[2]))
    return UNIT


@model(r"^std::string::String::as_bytes$|^core::str::as_bytes$|^std::string::String::into_bytes$")
def str_as_bytes(I, a, n):
    s = unbox(a[0])
    for c in s.chars:
        if I.char_width(c) != 1:
            raise Unsupported("as_bytes on non-ASCII text")
    if meth(n) == "into_bytes":
        return RVec(list(s.chars), text=True)
    return SliceRef(list(s.chars), 0, len(s.chars))


@model(r"^std::string::String::from_utf8$|^core::str::from_utf8$|^std::str::from_utf8$")
def string_from_utf8(I, a, n):
    v = deref(a[0])
    return OK(RString(list(items_of(v))))


@model(r"^std::string::String::from_utf8_lossy$")
def string_from_utf8_lossy(I, a, n):
    return EnumV("Cow", 1, [RString(list(items_of(a[0])))])


@model(r"^<std::string::String as std::ops::Index>::index$|^<str as std::ops::Index>::index$|^core::str::traits::<impl std::ops::Index for str>::index$")
def string_index(I, a, n):
    s = unbox(a[0])
    r = a[1]
    tn = r.ty.split("::")[-1]
    lo_b, hi_b = 0, None
    if tn == "Range":
        lo_b, hi_b = r.fields
    elif tn == "RangeTo":
        hi_b = r.fields[0]
    elif tn == "RangeFrom":
        lo_b = r.fields[0]
    elif tn == "RangeInclusive":
        lo_b, hi_b = r.fields[0], I.binop("Add", r.fields[1], 1, "usize")
    elif tn == "RangeFull":
        return s
    lo = byte_to_char_idx(I, s, lo_b)
    hi = len(s.chars) if hi_b is None else byte_to_char_idx(I, s, hi_b)
    if lo > hi:
        raise Panic("begin <= end (%d <= %d) when slicing string" % (lo, hi))
    return RString(s.chars[lo:hi])


@model(r"^core::str::get$")
def str_get(I, a, n):
    try:
        return SOME(string_index(I, a, n))
    except Panic:
        return NONE()


@model(r"^<&?(usize|u8|u16|u32|u64|isize|i8|i16|i32|i64) as std::ops::(Add|Sub|Mul|Div|Rem)>::(add|sub|mul|div|rem)$")
def int_ref_ops(I, a, n):
    """operators on integer references (`&a * b`): #[rustc_inherit_overflow_checks] - overflow panics as in a dev build"""
    m = re.match(r"^<&?(\w+) as std::ops::(\w+)", n)
    ty, op = m.group(1), m.group(2)
    x, y = deref(a[0]), deref(a[1])
    if op in ("Add", "Sub", "Mul"):
        r = I.binop(op + "WithOverflow", x, y, ty)
        val, ovf = r[0], r[1]
        if I.branch_bool(ovf):
            raise Panic("attempt to %s with overflow" % {"Add": "add", "Sub": "subtract", "Mul": "multiply"}[op])
        return val
    return I.binop(op, x, y, ty)


@model(r"^<std::string::String as std::ops::Add>::add$")
def string_add(I, a, n):
    s = deref(a[0])
    s.chars.extend(chars_of(a[1]))
    return s


@model(r"^core::str::chars$")
def str_chars(I, a, n):
    from .models_iter import ListIt
    return ListIt(list(chars_of(a[0])), False, kind="chars")


@model(r"^core::str::char_indices$")
def str_char_indices(I, a, n):
    from .models_iter import CharIndicesIt
    return CharIndicesIt(list(chars_of(a[0])))


@model(r"^core::str::bytes$")
def str_bytes(I, a, n):
    from .models_iter import ListIt
    out = []
    for c in chars_of(a[0]):
        if I.char_width(c) == 1:
            out.append(c)
            continue
        if is_sym(c):
            # a symbolic non-ASCII char ranges over the representatives of char_domain: fix which one it is on this path
            for v in NONASCII:
                if I.branch_bool(c == v):
                    c = v
                    break
            else:
                raise Unsupported("bytes() of a symbolic non-ASCII char outside the representative set")
        out.extend(chr(c).encode("utf8"))
    return ListIt(out, False)


@model(r"^std::str::to_ascii_uppercase$|^core::str::to_ascii_uppercase$|^std::string::String::to_ascii_uppercase$")
def str_to_ascii_upper(I, a, n):
    return RString([ascii_upper(c) for c in chars_of(a[0])])


@model(r"^std::str::to_ascii_lowercase$|^core::str::to_ascii_lowercase$")
def str_to_ascii_lower(I, a, n):
    return RString([ascii_lower(c) for c in chars_of(a[0])])


@model(r"^core::str::make_ascii_uppercase$")
def str_make_ascii_upper(I, a, n):
    s = unbox(a[0])
    s.chars[:] = [ascii_upper(c) for c in s.chars]
    return UNIT


@model(r"^core::str::make_ascii_lowercase$")
def str_make_ascii_lower(I, a, n):
    s = unbox(a[0])
    s.chars[:] = [ascii_lower(c) for c in s.chars]
    return UNIT


@model(r"^std::str::to_uppercase$")
def str_to_upper(I, a, n):
    return RString(unicode_map(I, chars_of(a[0]), str.upper))


@model(r"^std::str::to_lowercase$")
def str_to_lower(I, a, n):
    return RString(unicode_map(I, chars_of(a[0]), str.lower))


@model(r"^std::str::repeat$")
def str_repeat(I, a, n):
    k = I.concretize_int(a[1], 0, 64, "repeat count")
    return RString(list(chars_of(a[0])) * k)


def find_sub(I, hay, needle, start=0):
    """first char index >= start where needle occurs (forks on symbolic chars); -1 if none"""
    nl = len(needle)
    for i in range(start, len(hay) - nl + 1):
        if I.branch_bool(seq_eq(I, hay[i:i + nl], needle)):
            return i
    return -1


def pattern_of(I, p):
    """-> ("str", chars) | ("char", c) | ("fn", closure)"""
    p = deref(p)
    if isinstance(p, RString):
        return ("str", p.chars)
    if isinstance(p, (int,)) or is_sym(p):
        return ("char", p)
    if isinstance(p, (Closure, FnItem)):
        return ("fn", p)
    if isinstance(p, (SliceRef, list)):
        return ("chars", items_of(p))
    raise Unsupported("pattern %r" % (p,))


def split_on(I, chars, pat):
    """list of char-lists split at matches of pat"""
    kind, pv = pat
    out, cur = [], []
    i = 0
    if kind == "str":
        nl = len(pv)
        if nl == 0:
            raise Unsupported("split on empty pattern")
        while i < len(chars):
            if i + nl <= len(chars) and I.branch_bool(seq_eq(I, chars[i:i + nl], pv)):
                out.append(cur)
                cur = []
                i += nl
            else:
                cur.append(chars[i])
                i += 1
        out.append(cur)
        return out
    for c in chars:
        if kind == "char":
            hit = I.branch_bool(I.binop("Eq", c, pv, "char"))
        elif kind == "chars":
            hit = any(I.branch_bool(I.binop("Eq", c, x, "char")) for x in pv)
        else:
            hit = I.branch_bool(I.callf(pv, [c]))
        if hit:
            out.append(cur)
            cur = []
        else:
            cur.append(c)
    out.append(cur)
    return out


@model(r"^std::str::replace$")
def str_replace(I, a, n):
    s = chars_of(a[0])
    to = chars_of(a[2])
    parts = split_on(I, s, pattern_of(I, a[1]))
    out = []
    for k, p in enumerate(parts):
        if k:
            out += to
        out += p
    return RString(out)


@model(r"^core::str::split$")
def str_split(I, a, n):
    from .models_iter import ListIt
    parts = split_on(I, chars_of(a[0]), pattern_of(I, a[1]))
    return ListIt([RString(p) for p in parts], False)


@model(r"^core::str::split_terminator$")
def str_split_terminator(I, a, n):
    from .models_iter import ListIt
    parts = split_on(I, chars_of(a[0]), pattern_of(I, a[1]))
    if parts and not parts[-1]:
        parts = parts[:-1]      # a trailing empty piece is skipped
    return ListIt([RString(p) for p in parts], False)


@model(r"^core::str::split_whitespace$")
def str_split_ws(I, a, n):
    from .models_iter import ListIt
    parts = split_on(I, chars_of(a[0]), ("fn", None)) if False else None
    out, cur = [], []
    for c in chars_of(a[0]):
        if I.branch_bool(is_ws(I, c)):
            if cur:
                out.append(RString(cur))
            cur = []
        else:
            cur.append(c)
    if cur:
        out.append(RString(cur))
    return ListIt(out, False)


@model(r"^core::str::lines$")
def str_lines(I, a, n):
    from .models_iter import ListIt
    parts = split_on(I, chars_of(a[0]), ("char", 10))
    if parts and not parts[-1]:
        parts.pop()
    res = []
    for p in parts:
        if p and I.branch_bool(I.binop("Eq", p[-1], 13, "char")):
            p = p[:-1]
        res.append(RString(p))
    return ListIt(res, False)


@model(r"^core::str::split_once$")
def str_split_once(I, a, n):
    s = chars_of(a[0])
    kind, pv = pattern_of(I, a[1])
    if kind == "char":
        pv = [pv]
    elif kind != "str":
        raise Unsupported("split_once pattern")
    i = find_sub(I, s, pv)
    if i < 0:
        return NONE()
    return SOME([RString(s[:i]), RString(s[i + len(pv):])])


@model(r"^core::str::rsplit_once$")
def str_rsplit_once(I, a, n):
    s = chars_of(a[0])
    kind, pv = pattern_of(I, a[1])
    if kind == "char":
        pv = [pv]
    elif kind != "str":
        raise Unsupported("rsplit_once pattern")
    nl = len(pv)
    for i in range(len(s) - nl, -1, -1):
        if I.branch_bool(seq_eq(I, s[i:i + nl], pv)):
            return SOME([RString(s[:i]), RString(s[i + nl:])])
    return NONE()


@model(r"^core::str::contains$")
def str_contains(I, a, n):
    s = chars_of(a[0])
    kind, pv = pattern_of(I, a[1])
    if kind == "char":
        pv = [pv]
    if kind in ("str", "char"):
        return find_sub(I, s, pv) >= 0
    for c in s:
        if kind == "chars":
            if any(I.branch_bool(I.binop("Eq", c, x, "char")) for x in pv):
                return True
        elif I.branch_bool(I.callf(pv, [c])):
            return True
    return False


@model(r"^core::str::starts_with$")
def str_starts_with(I, a, n):
    s = chars_of(a[0])
    kind, pv = pattern_of(I, a[1])
    if kind == "char":
        pv = [pv]
    if kind in ("str", "char"):
        if len(pv) > len(s):
            return False
        return seq_eq(I, s[:len(pv)], pv)
    if not s:
        return False
    return I.callf(pv, [s[0]])


@model(r"^core::str::ends_with$")
def str_ends_with(I, a, n):
    s = chars_of(a[0])
    kind, pv = pattern_of(I, a[1])
    if kind == "char":
        pv = [pv]
    if kind in ("str", "char"):
        if len(pv) > len(s):
            return False
        return seq_eq(I, s[len(s) - len(pv):], pv) if pv else True
    if not s:
        return False
    return I.callf(pv, [s[-1]])


@model(r"^core::str::strip_prefix$")
def str_strip_prefix(I, a, n):
    s = chars_of(a[0])
    r = str_starts_with(I, a, n)
    kind, pv = pattern_of(I, a[1])
    k = len(pv) if kind == "str" else 1
    return SOME(RString(s[k:])) if I.branch_bool(r) else NONE()


@model(r"^core::str::strip_suffix$")
def str_strip_suffix(I, a, n):
    s = chars_of(a[0])
    r = str_ends_with(I, a, n)
    kind, pv = pattern_of(I, a[1])
    k = len(pv) if kind == "str" else 1
    return SOME(RString(s[:len(s) - k])) if I.branch_bool(r) else NONE()


@model(r"^core::str::find$")
def str_find(I, a, n):
    s = chars_of(a[0])
    kind, pv = pattern_of(I, a[1])
    if kind == "char":
        pv = [pv]
    if kind in ("str", "char"):
        i = find_sub(I, s, pv)
    else:
        i = -1
        for k, c in enumerate(s):
            if I.branch_bool(I.callf(pv, [c])):
                i = k
                break
    if i < 0:
        return NONE()
    return SOME(sum(I.char_width(c) for c in s[:i]))


@model(r"^core::str::trim$")
def str_trim(I, a, n):
    s = list(chars_of(a[0]))
    while s and I.branch_bool(is_ws(I, s[0])):
        s.pop(0)
    while s and I.branch_bool(is_ws(I, s[-1])):
        s.pop()
    return RString(s)


@model(r"^core::str::trim_end$")
def str_trim_end(I, a, n):
    s = list(chars_of(a[0]))
    while s and I.branch_bool(is_ws(I, s[-1])):
        s.pop()
    return RString(s)


@model(r"^core::str::trim_start$")
def str_trim_start(I, a, n):
    s = list(chars_of(a[0]))
    while s and I.branch_bool(is_ws(I, s[0])):
        s.pop(0)
    return RString(s)


@model(r"^core::str::trim_matches$|^core::str::trim_start_matches$|^core::str::trim_end_matches$")
def str_trim_matches(I, a, n):
    s = list(chars_of(a[0]))
    kind, pv = pattern_of(I, a[1])

    def hit(c):
        if kind == "char":
            return I.branch_bool(I.binop("Eq", c, pv, "char"))
        if kind == "chars":
            return any(I.branch_bool(I.binop("Eq", c, x, "char")) for x in pv)
        if kind == "fn":
            return I.branch_bool(I.callf(pv, [c]))
        raise Unsupported("trim_matches with str pattern")
    op = meth(n)
    if op != "trim_end_matches":
        while s and hit(s[0]):
            s.pop(0)
    if op != "trim_start_matches":
        while s and hit(s[-1]):
            s.pop()
    return RString(s)


@model(r"^core::str::match_indices$")
def str_match_indices(I, a, n):
    from .models_iter import ListIt
    s = chars_of(a[0])
    kind, pv = pattern_of(I, a[1])
    if kind == "char":
        pv = [pv]
    elif kind != "str":
        raise Unsupported("match_indices pattern")
    out = []
    i = 0
    while True:
        j = find_sub(I, s, pv, i)
        if j < 0:
            break
        out.append([sum(I.char_width(c) for c in s[:j]), RString(s[j:j + len(pv)])])
        i = j + max(len(pv), 1)
    return ListIt(out, False)


@model(r"^core::str::parse$")
def str_parse(I, a, n):
    g = first_generic(n)
    ty = g[0] if g else None
    s = unbox(a[0])
    if ty in ("usize", "u8", "u16", "u32", "u64", "i32", "i64", "i128", "isize"):
        try:
            txt = pystr(s)
        except Unsupported:
            raise Unsupported("parse::<int> of symbolic text")
        if re.match(r"^[+-]?\d+$", txt) and not (txt.startswith("-") and ty.startswith("u")):
            return OK(int(txt))
        return ERR(Opaque("ParseIntError"))
    r = I.resolve("<%s as std::str::FromStr>::from_str" % ty, [s])
    if r is not None and r[0] == "mir":
        return I.call_mir(r[1], [s])
    if r is not None and r[0] == "model":
        return r[1](I, [s], n)
    raise Unsupported("str::parse::<%s>" % ty)


@model(r"^core::str::is_char_boundary$")
def str_is_char_boundary(I, a, n):
    try:
        byte_to_char_idx(I, unbox(a[0]), a[1])
        return True
    except Panic:
        return False


@model(r"^core::str::eq_ignore_ascii_case$")
def str_eq_ignore_case(I, a, n):
    return seq_eq(I, [ascii_lower(c) for c in chars_of(a[0])], [ascii_lower(c) for c in chars_of(a[1])])


# ------------------------------------------------------------------------------- char
@model(r"^std::char::methods::to_ascii_uppercase$")
def char_to_ascii_upper(I, a, n):
    return ascii_upper(deref(a[0]))


@model(r"^std::char::methods::to_ascii_lowercase$")
def char_to_ascii_lower(I, a, n):
    return ascii_lower(deref(a[0]))


@model(r"^std::char::methods::is_uppercase$")
def char_is_upper(I, a, n):
    return is_upper(I, deref(a[0]))


@model(r"^std::char::methods::is_lowercase$")
def char_is_lower(I, a, n):
    return is_lower(I, deref(a[0]))


def rng(c, lo, hi):
    if is_sym(c):
        return z3.And(z3.UGE(c, lo), z3.ULE(c, hi))
    return lo <= c <= hi


def any_of(*cs):
    sym = []
    for c in cs:
        if is_sym(c):
            sym.append(c)
        elif c:
            return True
    if not sym:
        return False
    return z3.Or(sym) if len(sym) > 1 else sym[0]


@model(r"^std::char::methods::is_ascii_uppercase$|^core::num::is_ascii_uppercase$")
def char_is_ascii_upper(I, a, n):
    return rng(deref(a[0]), 65, 90)


@model(r"^std::char::methods::is_ascii_lowercase$|^core::num::is_ascii_lowercase$")
def char_is_ascii_lower(I, a, n):
    return rng(deref(a[0]), 97, 122)


@model(r"^std::char::methods::is_ascii_digit$|^core::num::is_ascii_digit$")
def char_is_ascii_digit(I, a, n):
    return rng(deref(a[0]), 48, 57)


@model(r"^std::char::methods::is_ascii_alphabetic$|^core::num::is_ascii_alphabetic$")
def char_is_ascii_alpha(I, a, n):
    c = deref(a[0])
    return any_of(rng(c, 65, 90), rng(c, 97, 122))


@model(r"^std::char::methods::is_ascii_alphanumeric$|^core::num::is_ascii_alphanumeric$")
def char_is_ascii_alnum(I, a, n):
    c = deref(a[0])
    return any_of(rng(c, 65, 90), rng(c, 97, 122), rng(c, 48, 57))


@model(r"^std::char::methods::is_ascii$|^core::num::is_ascii$")
def char_is_ascii(I, a, n):
    return rng(deref(a[0]), 0, 127)


@model(r"^std::char::methods::is_ascii_punctuation$")
def char_is_ascii_punct(I, a, n):
    c = deref(a[0])
    return any_of(rng(c, 33, 47), rng(c, 58, 64), rng(c, 91, 96), rng(c, 123, 126))


@model(r"^std::char::methods::is_ascii_whitespace$")
def char_is_ascii_ws(I, a, n):
    c = deref(a[0])
    return any_of(*[I.binop("Eq", c, w, "char") for w in (9, 10, 12, 13, 32)])


@model(r"^std::char::methods::is_whitespace$")
def char_is_ws(I, a, n):
    return is_ws(I, deref(a[0]))


@model(r"^std::char::methods::is_alphabetic$|^std::char::methods::is_alphanumeric$|^std::char::methods::is_numeric$")
def char_is_alpha(I, a, n):
    c = deref(a[0])
    op = meth(n)
    if is_sym(c):
        char_domain(I, c)
        alpha = any_of(rng(c, 65, 90), rng(c, 97, 122), *[c == t for t in NONASCII if chr(t).isalpha()])
        num = rng(c, 48, 57)
        return {"is_alphabetic": alpha, "is_numeric": num, "is_alphanumeric": any_of(alpha, num)}[op]
    ch = chr(c)
    return {"is_alphabetic": ch.isalpha(), "is_numeric": ch.isnumeric(), "is_alphanumeric": ch.isalnum()}[op]


@model(r"^std::char::methods::to_uppercase$|^std::char::methods::to_lowercase$")
def char_to_case(I, a, n):
    from .models_iter import ListIt
    fn = str.upper if meth(n) == "to_uppercase" else str.lower
    return ListIt(unicode_map(I, [deref(a[0])], fn), False, kind="chars")


@model(r"^std::char::methods::len_utf8$")
def char_len_utf8(I, a, n):
    return I.char_width(deref(a[0]))


@model(r"^<char as std::convert::From<u8>>::from$|^<char as std::convert::From>::from$")
def char_from_u8(I, a, n):
    v = a[0]
    if is_sym(v) and v.size() < 32:
        return z3.ZeroExt(32 - v.size(), v)
    return v


# =============================================================================== integers
INT = r"(usize|u8|u16|u32|u64|u128|isize|i8|i16|i32|i64|i128)"


def _int_ty(n):
    m = re.search(r"\b" + INT + r"\b", n)
    return m.group(1) if m else "usize"


@model(r"^<" + INT + r" as std::cmp::Ord>::(max|min)$|^core::cmp::(max|min)$|^std::cmp::(max|min)$")
def int_minmax(I, a, n):
    ty = _int_ty(n)
    x, y = deref(a[0]), deref(a[1])
    le = I.binop("Le", x, y, ty)
    op = meth(n)
    if is_sym(le):
        X = x if is_sym(x) else z3.BitVecVal(x, y.size())
        Y = y if is_sym(y) else z3.BitVecVal(y, x.size())
        return z3.If(le, Y, X) if op == "max" else z3.If(le, X, Y)
    return (y if le else x) if op == "max" else (x if le else y)


@model(r"^<" + INT + r" as std::cmp::Ord>::clamp$")
def int_clamp(I, a, n):
    ty = _int_ty(n)
    x = int_minmax(I, [a[0], a[1]], n.replace("clamp", "max"))
    return int_minmax(I, [x, a[2]], n.replace("clamp", "min"))


@model(r"^core::num::(saturating_sub|saturating_add|wrapping_sub|wrapping_add|wrapping_mul|checked_sub|checked_add|checked_mul|abs_diff|pow|is_power_of_two|count_ones|leading_zeros|trailing_zeros|wrapping_neg|unsigned_abs|abs|signum|rem_euclid|div_euclid|min|max|overflowing_add|overflowing_sub|is_multiple_of)$")
def int_ops(I, a, n):
    from .mirparse import INT_TYPES
    op = meth(n)
    m = re.search(r"<impl " + INT + r">", n)
    ty = m.group(1) if m else "usize"
    w, signed = INT_TYPES[ty]
    x = deref(a[0])
    y = deref(a[1]) if len(a) > 1 else None
    if op in ("min", "max"):
        return int_minmax(I, [x, y], "<%s as std::cmp::Ord>::%s" % (ty, op))
    if op in ("checked_sub", "checked_add", "checked_mul"):
        r, ov = I.binop({"checked_sub": "SubWithOverflow", "checked_add": "AddWithOverflow", "checked_mul": "MulWithOverflow"}[op], x, y, ty)
        return NONE() if I.branch_bool(ov) else SOME(r)
    if op in ("overflowing_add", "overflowing_sub"):
        return I.binop({"overflowing_sub": "SubWithOverflow", "overflowing_add": "AddWithOverflow"}[op], x, y, ty)
    if op in ("saturating_sub", "saturating_add"):
        r, ov = I.binop("SubWithOverflow" if op == "saturating_sub" else "AddWithOverflow", x, y, ty)
        if not I.branch_bool(ov):
            return r
        if signed:
            raise Unsupported("signed saturating arithmetic overflow")
        return 0 if op == "saturating_sub" else MASK[w]
    if op in ("wrapping_sub", "wrapping_add", "wrapping_mul"):
        return I.binop({"wrapping_sub": "Sub", "wrapping_add": "Add", "wrapping_mul": "Mul"}[op], x, y, ty)
    if op == "abs_diff":
        if I.branch_bool(I.binop("Ge", x, y, ty)):
            return I.binop("Sub", x, y, ty)
        return I.binop("Sub", y, x, ty)
    if op == "wrapping_neg":
        return I.binop("Sub", 0, x, ty)
    if is_sym(x) or (y is not None and is_sym(y)):
        raise Unsupported("integer op %s on symbolic value" % op)
    if op == "pow":
        return I.binop("Mul", x ** y, 1, ty)
    if op == "is_power_of_two":
        return x > 0 and (x & (x - 1)) == 0
    if op == "count_ones":
        return bin(x & MASK[w]).count("1")
    if op in ("abs", "unsigned_abs"):
        return abs(x)
    if op == "signum":
        return (x > 0) - (x < 0)
    if op == "rem_euclid":
        if y == 0:
            raise Panic("attempt to calculate the remainder with a divisor of zero")
        return x % abs(y)
    if op == "div_euclid":
        if y == 0:
            raise Panic("attempt to divide by zero")
        q = x // y if y > 0 else -(x // -y)
        return q
    if op == "is_multiple_of":
        return (x == 0) if y == 0 else (x % y == 0)
    if op == "leading_zeros":
        return w - (x & MASK[w]).bit_length()
    if op == "trailing_zeros":
        v = x & MASK[w]
        return w if v == 0 else (v & -v).bit_length() - 1
    raise Unsupported("integer op " + op)


@model(r"^<" + INT + r" as std::convert::(From|Into|TryFrom|TryInto)>::(from|into|try_from|try_into)$")
def int_conv(I, a, n):
    from .mirparse import INT_TYPES
    op = meth(n)
    g = re.match(r"^<(\w+) as std::convert::(\w+)<(\w+)>>", n)
    x = deref(a[0])
    if not g:
        return x if op in ("from", "into") else OK(x)
    self_ty, tr, other = g.group(1), g.group(2), g.group(3)
    src, dst = (other, self_ty) if tr in ("From", "TryFrom") else (self_ty, other)
    if dst not in INT_TYPES or src not in INT_TYPES:
        raise Unsupported("conversion " + n)
    w, signed = INT_TYPES[dst]
    if op in ("from", "into"):
        return I.cast(x, dst, "IntToInt", src)
    if is_sym(x):
        raise Unsupported("try_from on symbolic integer")
    lo, hi = (-(1 << (w - 1)), (1 << (w - 1)) - 1) if signed else (0, MASK[w])
    return OK(x) if lo <= x <= hi else ERR(Opaque("TryFromIntError"))


@model(r"^<" + INT + r" as std::default::Default>::default$")
def int_default(I, a, n):
    return 0


@model(r"^<" + INT + r" as std::ops::(Add|Sub|Mul|AddAssign|SubAssign)>::(add|sub|mul|add_assign|sub_assign)$")
def int_arith_trait(I, a, n):
    ty = _int_ty(n)
    op = meth(n)
    if op.endswith("_assign"):
        cur = a[0].get()
        r, ov = I.binop({"add_assign": "AddWithOverflow", "sub_assign": "SubWithOverflow"}[op], cur, deref(a[1]), ty)
        if I.branch_bool(ov):
            raise Panic("attempt to %s with overflow" % op[:3])
        a[0].set(r)
        return UNIT
    r, ov = I.binop({"add": "AddWithOverflow", "sub": "SubWithOverflow", "mul": "MulWithOverflow"}[op], deref(a[0]), deref(a[1]), ty)
    if I.branch_bool(ov):
        raise Panic("attempt to %s with overflow" % op)
    return r


@model(r"^<.* as std::convert::Into>::into$")
def generic_into(I, a, n):
    """blanket Into: dispatch to the target's From impl"""
    g = re.match(r"^<(.*) as std::convert::Into<(.*)>>::into$", n)
    if not g:
        return a[0]
    src, tgt = g.group(1).strip(), g.group(2).strip()
    if tgt.startswith("std::boxed::Box<"):
        return BoxV(a[0])
    if tgt == "std::string::String":
        return RString(list(chars_of(a[0])))
    r = I.resolve("<%s as std::convert::From<%s>>::from" % (tgt, src), [a[0]])
    if r is not None and r[0] == "mir":
        return I.call_mir(r[1], [a[0]])
    if r is not None and r[0] == "model" and r[1] is not generic_into:
        return r[1](I, a, "<%s as std::convert::From<%s>>::from" % (tgt, src))
    if src == tgt:
        return a[0]
    raise Unsupported("Into: no From<%s> for %s" % (src, tgt))


# ---- more Option / Result combinators (so that refactored code still has models) ---------------
@model(r"^std::option::Option::is_some_and$")
def opt_is_some_and(I, a, n):
    return a[0].variant == 1 and I.branch_bool(I.callf(a[1], [a[0].fields[0]]))


@model(r"^std::option::Option::is_none_or$")
def opt_is_none_or(I, a, n):
    return a[0].variant == 0 or I.branch_bool(I.callf(a[1], [a[0].fields[0]]))


@model(r"^std::result::Result::is_ok_and$")
def res_is_ok_and(I, a, n):
    return a[0].variant == 0 and I.branch_bool(I.callf(a[1], [a[0].fields[0]]))


@model(r"^std::result::Result::is_err_and$")
def res_is_err_and(I, a, n):
    return a[0].variant == 1 and I.branch_bool(I.callf(a[1], [a[0].fields[0]]))


@model(r"^std::option::Option::unwrap_or_else$")
def opt_unwrap_or_else(I, a, n):
    return a[0].fields[0] if a[0].variant == 1 else I.callf(a[1], [])


@model(r"^std::option::Option::xor$")
def opt_xor(I, a, n):
    x, y = a[0], a[1]
    if x.variant == 1 and y.variant == 0:
        return x
    if x.variant == 0 and y.variant == 1:
        return y
    return NONE()


@model(r"^std::option::Option::and$")
def opt_and(I, a, n):
    return a[1] if a[0].variant == 1 else NONE()


@model(r"^std::option::Option::zip$")
def opt_zip(I, a, n):
    if a[0].variant == 1 and a[1].variant == 1:
        return SOME([a[0].fields[0], a[1].fields[0]])
    return NONE()


@model(r"^std::option::Option::flatten$")
def opt_flatten(I, a, n):
    return a[0].fields[0] if a[0].variant == 1 else NONE()


@model(r"^std::option::Option::inspect$")
def opt_inspect(I, a, n):
    if a[0].variant == 1:
        I.callf(a[1], [Ref(a[0].fields, 0)])
    return a[0]


@model(r"^std::option::Option::get_or_insert$")
def opt_get_or_insert(I, a, n):
    slot = a[0]
    if slot.get().variant == 0:
        slot.set(SOME(a[1]))
    return Ref(slot.get().fields, 0)


@model(r"^std::option::Option::as_deref_mut$")
def opt_as_deref_mut(I, a, n):
    return opt_as_deref(I, a, n)


@model(r"^std::result::Result::or_else$")
def res_or_else(I, a, n):
    return a[0] if a[0].variant == 0 else I.callf(a[1], [a[0].fields[0]])


@model(r"^std::result::Result::or$")
def res_or(I, a, n):
    return a[0] if a[0].variant == 0 else a[1]


@model(r"^std::result::Result::and$")
def res_and(I, a, n):
    return a[1] if a[0].variant == 0 else a[0]


@model(r"^std::result::Result::unwrap_err$|^std::result::Result::expect_err$")
def res_unwrap_err(I, a, n):
    if a[0].variant == 0:
        raise Panic("called `Result::unwrap_err()` on an `Ok` value")
    return a[0].fields[0]


@model(r"^std::result::Result::inspect$")
def res_inspect(I, a, n):
    if a[0].variant == 0:
        I.callf(a[1], [Ref(a[0].fields, 0)])
    return a[0]


@model(r"^std::result::Result::map_or$")
def res_map_or(I, a, n):
    return I.callf(a[2], [a[0].fields[0]]) if a[0].variant == 0 else a[1]


@model(r"^std::result::Result::map_or_else$")
def res_map_or_else(I, a, n):
    return I.callf(a[2], [a[0].fields[0]]) if a[0].variant == 0 else I.callf(a[1], [a[0].fields[0]])


@model(r"^std::result::Result::as_mut$")
def res_as_mut(I, a, n):
    return res_as_ref(I, a, n)


@model(r"^std::result::Result::transpose$|^std::option::Option::transpose$")
def transpose(I, a, n):
    v = a[0]
    if v.ty.split("::")[-1] == "Option":
        if v.variant == 0:
            return OK(NONE())
        r = v.fields[0]
        return OK(SOME(r.fields[0])) if r.variant == 0 else ERR(r.fields[0])
    if v.variant == 1:
        return SOME(ERR(v.fields[0]))
    o = v.fields[0]
    return SOME(OK(o.fields[0])) if o.variant == 1 else NONE()
