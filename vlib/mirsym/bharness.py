"""Back-end harness helpers: language instances, generate_types / write_* from MIR into a text sink."""
from .values import *  # noqa
from .models_fmt import DynWrite
from . import pharness

LANGS = {"typescript": "language::typescript::TypeScript", "kotlin": "language::kotlin::Kotlin", "swift": "language::swift::Swift",
         "scala": "language::scala::Scala", "go": "language::go::Go", "python": "language::python::Python"}
DEFAULT_CFG = {"go": {"package": "proto"}, "scala": {"package": "com.agilebits.onepassword"}}


def make_lang(I, lang, cfg=None, multi_file=False):
    """<Lang as Default>::default() from MIR, then the given fields set (strings may be symbolic RStrings)"""
    L = I.prog.layout
    ty = LANGS[lang]
    r = I.call_static("<%s as std::default::Default>::default" % ty, [])
    names = L.structs[ty.split("::")[-1]]
    c = dict(DEFAULT_CFG.get(lang, {}))
    c.update(cfg or {})
    if "no_version_header" in names and "no_version_header" not in c:
        c["no_version_header"] = True
    if lang == "swift":
        c.setdefault("multi_file", multi_file)
    for k, v in c.items():
        if k not in names:
            continue
        if isinstance(v, str):
            v = S(v)
        elif isinstance(v, dict):
            v = RMap("HashMap", [[S(a) if isinstance(a, str) else a, S(b) if isinstance(b, str) else b] for a, b in v.items()])
        elif isinstance(v, (list, tuple)) and not isinstance(v, RVec):
            v = RVec([S(x) if isinstance(x, str) else x for x in v])
        r.fields[names.index(k)] = v
    return r


def text_of(w):
    return w.chars


def concrete_text(w):
    return "".join(chr(c) if isinstance(c, int) else "�" for c in w.chars)


def generate(I, lang, pd, cfg=None, all_types=None, lang_value=None):
    """Language::generate_types(&mut lang, &mut w, &all_types, pd) -> (ok?, DynWrite, lang value)"""
    lg = lang_value if lang_value is not None else make_lang(I, lang, cfg)
    w = DynWrite()
    res = I.call_static("<%s as language::Language>::generate_types" % LANGS[lang], [Ref([lg], 0), w, Ref([all_types or RMap("HashMap")], 0), pd])
    return res.variant == 0, w, lg


def reconcile_single(I, pd, crate=""):
    m = RMap("BTreeMap", [[pharness.crate_name(I.prog, crate), pd]])
    I.call_static("reconcile::reconcile_aliases", [Ref([m], 0)])
    return m.entries[0][1]


def call_write(I, lang, method, lang_value, item):
    """<Lang as Language>::write_struct / write_enum / write_type_alias / write_const"""
    w = DynWrite()
    tn = LANGS[lang].split("::")[-1]
    inherent = I.prog.methods.get((tn, None, method))
    if inherent is not None and (tn, "Language", method) not in I.prog.methods:
        # e.g. Go::write_enum is an inherent method called by Go's own generate_types
        res = I.call_mir(inherent, [Ref([lang_value], 0), w, Ref([item], 0)])
    else:
        res = I.call_static("<%s as language::Language>::%s" % (LANGS[lang], method), [Ref([lang_value], 0), w, Ref([item], 0)])
    return res.variant == 0, w


def format_type(I, lang, lang_value, ty, generics=()):
    g = [S(x) if isinstance(x, str) else x for x in generics]
    return I.call_static("<%s as language::Language>::format_type" % LANGS[lang], [Ref([lang_value], 0), Ref([ty], 0), SliceRef(g, 0, len(g))])
