"""Run-time values of the MIR symbolic interpreter.

Symbolic scalars (z3 BitVec / Bool terms) live inside concrete container shapes.
"""
import z3


class Panic(Exception):
    """The executed Rust code panics on this path."""

    def __init__(self, msg, where=""):
        Exception.__init__(self, msg)
        self.msg, self.where = msg, where


class Unsupported(Exception):
    """The interpreter / a model cannot execute this construct: the run is INCONCLUSIVE."""


class PathEnd(Exception):
    """Infeasible path."""


class Agg:
    """struct / closure environment: positional fields (declaration order)."""
    __slots__ = ("ty", "fields")

    def __init__(self, ty, fields):
        self.ty, self.fields = ty, fields

    def __repr__(self):
        return "%s{%s}" % (self.ty.split("::")[-1], ", ".join(repr(f) for f in self.fields))


class EnumV:
    __slots__ = ("ty", "variant", "fields")

    def __init__(self, ty, variant, fields):
        self.ty, self.variant, self.fields = ty, variant, fields

    def __repr__(self):
        return "%s#%d(%s)" % (self.ty.split("::")[-1], self.variant, ", ".join(repr(f) for f in self.fields))


class Ref:
    """pointer to a slot: container[key] (frame dict, field list, vec items, cell)."""
    __slots__ = ("c", "k")

    def __init__(self, c, k):
        self.c, self.k = c, k

    def get(self):
        return self.c[self.k]

    def set(self, v):
        self.c[self.k] = v

    def __repr__(self):
        try:
            return "&%r" % (self.get(),)
        except Exception:
            return "&<dangling>"


class RString:
    """String / str: list of chars (ints or z3 BitVec(32))."""
    __slots__ = ("chars",)

    def __init__(self, chars):
        self.chars = list(chars)

    def __repr__(self):
        return "S" + repr(show_chars(self.chars))


def show_chars(chars):
    out = []
    for c in chars:
        if isinstance(c, int):
            out.append(chr(c))
        else:
            out.append("«%s»" % c)
    return "".join(out)


class RVec:
    __slots__ = ("items", "text")

    def __init__(self, items, text=False):
        self.items = items
        self.text = text  # Vec<u8> used as a text buffer: items are chars

    def __repr__(self):
        return "vec%r" % (self.items,)


class SliceRef:
    """&[T] / &mut [T]: a window into a python list."""
    __slots__ = ("items", "lo", "hi")

    def __init__(self, items, lo, hi):
        self.items, self.lo, self.hi = items, lo, hi

    def view(self):
        return self.items[self.lo:self.hi]

    def __len__(self):
        return self.hi - self.lo

    def __repr__(self):
        return "&%r" % (self.view(),)


class BoxV:
    __slots__ = ("cell",)

    def __init__(self, v):
        self.cell = [v]

    def __repr__(self):
        return "Box(%r)" % (self.cell[0],)


class Uninit:
    """Box::<[T; N]>::new_uninit() payload (vec! lowering)."""
    __slots__ = ("slot",)

    def __init__(self):
        self.slot = [None]


class Closure:
    __slots__ = ("key", "fields", "body")

    def __init__(self, key, captures, body=None):
        self.key, self.fields, self.body = key, captures, body

    def __repr__(self):
        return "closure@%s" % self.key[9:-1].split("/")[-1]


class FnItem:
    __slots__ = ("name",)

    def __init__(self, name):
        self.name = name

    def __repr__(self):
        return "fn:" + self.name[:60]


class RMap:
    """HashMap / BTreeMap / HashSet / BTreeSet: insertion-ordered list of [key, value] entries."""
    __slots__ = ("kind", "entries")

    def __init__(self, kind, entries=None):
        self.kind = kind          # "HashMap" | "BTreeMap" | "HashSet" | "BTreeSet"
        self.entries = entries if entries is not None else []

    def is_set(self):
        return self.kind.endswith("Set")

    def __repr__(self):
        return "%s%r" % (self.kind, self.entries)


class Opaque:
    """A value whose content no encoded code inspects (tokens, spans, errors of foreign crates)."""
    __slots__ = ("what", "data")

    def __init__(self, what, data=None):
        self.what, self.data = what, data

    def __repr__(self):
        return "<%s>" % self.what


UNIT = ()


def NONE():
    return EnumV("Option", 0, [])


def SOME(v):
    return EnumV("Option", 1, [v])


def OK(v):
    return EnumV("Result", 0, [v])


def ERR(v):
    return EnumV("Result", 1, [v])


def is_sym(v):
    return isinstance(v, z3.ExprRef)


def deref(v):
    while isinstance(v, Ref):
        v = v.get()
    return v


def unbox(v):
    v = deref(v)
    while isinstance(v, BoxV):
        v = deref(v.cell[0])
    return v


def S(s):
    return RString([ord(c) for c in s])


def pystr(v):
    """concrete python string of an RString (raises if symbolic)."""
    v = unbox(v)
    if isinstance(v, RString):
        out = []
        for c in v.chars:
            if not isinstance(c, int):
                c = z3.simplify(c)
                if not z3.is_bv_value(c):
                    raise Unsupported("pystr of symbolic string %r" % (v,))
                c = c.as_long()
            out.append(chr(c))
        return "".join(out)
    raise Unsupported("pystr of %r" % (v,))
