"""Translator validation (Serval's recipe): push the repository's own test inputs through the interpreter
and through the real build; any disagreement makes the check INCONCLUSIVE before a verdict is believed."""
import glob
import os

from ..common import REPO, Inconclusive
from . import synast, pharness, irjson
from .engine import new_interp
from .values import Unsupported


def parser_selftest(prog, rep, limit=None):
    n = 0
    files = sorted(glob.glob(os.path.join(REPO, "core/data/tests/*/input.rs")))
    if limit:
        files = files[:limit]
    for d in files:
        src = open(d).read()
        name = d.split("/")[-2]
        I = new_interp(prog)
        try:
            from . import parse_entry
            pr = parse_entry.run_parse(I, src)      # parser::parse itself: text pre-filter, syn::parse_file model, visitor
            if pr.variant != 0:
                raise Unsupported("parser::parse returned Err")
            r = pr.fields[0]
            mine = None if r.variant == 0 else irjson.parsed_data_json(I, r.fields[0])
        except Inconclusive:
            raise
        except Exception as e:  # noqa
            raise Inconclusive("selftest: interpreter failed on core/data/tests/%s/input.rs: %s: %s" % (name, type(e).__name__, str(e)[:300]))
        real = rep.ask({"op": "parse", "source": src})
        real = real.get("ok", real)
        if mine != real:
            raise Inconclusive("selftest: interpreter and real parser disagree on core/data/tests/%s/input.rs" % name)
        n += 1
    return n


CONFIGS = {
    "swift": [{}, {"prefix": "OP"}],
    "kotlin": [{}, {"prefix": "OP", "package": "com.agilebits.onepassword"}],
    "typescript": [{}, {"type_mappings": {"Url": "string", "DateTime": "Date"}}],
    "go": [{}, {"uppercase_acronyms": ["ID", "URL"], "type_mappings": {"Url": "string"}}],
    "scala": [{}],
    "python": [{}],
}


def backend_selftest(prog, rep, langs=None, limit=None, configs=True):
    """generate_types for every repo test input x language (x a few configurations): byte equality with the real library"""
    from . import bharness
    n = 0
    files = sorted(glob.glob(os.path.join(REPO, "core/data/tests/*/input.rs")))
    if limit:
        files = files[:limit]
    for d in files:
        src = open(d).read()
        name = d.split("/")[-2]
        for lang in (langs or bharness.LANGS):
            for cfg in (CONFIGS[lang] if configs else CONFIGS[lang][:1]):
                full = dict(bharness.DEFAULT_CFG.get(lang, {}))
                full.update(cfg)
                real = rep.ask({"op": "generate", "lang": lang, "files": [{"source": src}], "config": full})
                if "out" not in real:
                    continue   # the real library rejects / panics on this input for this language: nothing to compare
                real = real["out"].get("", "")
                I = new_interp(prog)
                try:
                    f = synast.parse_source(prog, src)
                    r = pharness.run_visitor(I, f)
                    if r.variant == 0:
                        mine = ""
                    else:
                        pd = bharness.reconcile_single(I, r.fields[0])
                        ok, w, _ = bharness.generate(I, lang, pd, cfg)
                        mine = bharness.concrete_text(w) if ok else "<io error>"
                except Inconclusive:
                    raise
                except Exception as e:  # noqa
                    raise Inconclusive("selftest: interpreter failed on %s/%s %s: %s: %s" % (name, lang, cfg, type(e).__name__, str(e)[:300]))
                if mine != real:
                    raise Inconclusive("selftest: interpreter and real %s back end disagree on core/data/tests/%s/input.rs (config %s)" % (lang, name, cfg))
                n += 1
    return n
