"""Translator validation (Serval's recipe): push the repository's own test inputs through the interpreter
and through the real build; any disagreement makes the check INCONCLUSIVE before a verdict is believed."""
import glob
import os

from ..common import REPO, Inconclusive
from . import synast, pharness, irjson
from .engine import new_interp


def parser_selftest(prog, rep, limit=None):
    n = 0
    files = sorted(glob.glob(os.path.join(REPO, "core/data/tests/*/input.rs")))
    if limit:
        files = files[:limit]
    for d in files:
        src = open(d).read()
        name = d.split("/")[-2]
        I = new_interp(prog)
        try:
            f = synast.parse_source(prog, src)
            r = pharness.run_visitor(I, f)
            mine = None if r.variant == 0 else irjson.parsed_data_json(I, r.fields[0])
        except Inconclusive:
            raise
        except Exception as e:  # noqa
            raise Inconclusive("selftest: interpreter failed on core/data/tests/%s/input.rs: %s: %s" % (name, type(e).__name__, str(e)[:300]))
        real = rep.ask({"op": "parse", "source": src})
        real = real.get("ok", real)
        if mine != real:
            raise Inconclusive("selftest: interpreter and real parser disagree on core/data/tests/%s/input.rs" % name)
        n += 1
    return n
