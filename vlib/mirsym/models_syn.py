"""syn / proc_macro2 / quote as an abstract AST.

Source text -> syn AST is outside every claim (syn is the trusted front end).  Harnesses obtain
ASTs from the real syn (tools/astdump) as JSON and `from_json` turns them into interpreter values
laid out exactly as syn's structs/enums are (field and variant order from syn's own source), so
that MIR field projections and discriminant switches work unchanged.  Identifier and literal
texts are RStrings whose chars may be replaced by symbolic chars.
"""
import re

import z3

from .values import *  # noqa
from .models_core import model, meth, chars_of, clone_val, seq_eq, first_generic, items_of
from .models_iter import ListIt, into_iter, END


class SynIdent:
    type_name = "Ident"
    __slots__ = ("s",)

    def __init__(self, s):
        self.s = s if isinstance(s, RString) else S(s)

    def clone(self, I):
        return SynIdent(RString(list(self.s.chars)))

    def eq(self, I, o):
        o = unbox(o)
        return seq_eq(I, self.s.chars, o.s.chars if isinstance(o, SynIdent) else chars_of(o))

    def display(self, I):
        return list(self.s.chars)

    def debug(self, I):
        return [ord(c) for c in "Ident("] + list(self.s.chars) + [41]

    def __repr__(self):
        return "Ident(%s)" % show_chars(self.s.chars)


class SynLitStr:
    type_name = "LitStr"
    __slots__ = ("s",)

    def __init__(self, s):
        self.s = s if isinstance(s, RString) else S(s)

    def clone(self, I):
        return SynLitStr(RString(list(self.s.chars)))

    def __repr__(self):
        return "LitStr(%s)" % show_chars(self.s.chars)


class SynLitInt:
    type_name = "LitInt"
    __slots__ = ("digits", "suffix")

    def __init__(self, digits, suffix=""):
        self.digits, self.suffix = digits, suffix

    def clone(self, I):
        return SynLitInt(self.digits, self.suffix)

    def __repr__(self):
        return "LitInt(%s%s)" % (self.digits, self.suffix)


class SynTokens:
    """proc_macro2::TokenStream of a Meta::List: flat tokens + (if it parses) the nested metas"""
    type_name = "TokenStream"
    __slots__ = ("flat", "metas", "text", "mapping")

    def __init__(self, flat, metas, text, mapping=None):
        self.flat, self.metas, self.text, self.mapping = flat, metas, text, mapping

    def clone(self, I):
        return SynTokens(self.flat, None if self.metas is None else [clone_val(I, m) for m in self.metas], self.text, self.mapping)

    def display(self, I):
        return list(self.text.chars) if isinstance(self.text, RString) else [ord(c) for c in self.text]

    def __repr__(self):
        return "Tokens(%s)" % self.text


TOK = Opaque("token")
# fields astdump does not emit and whose syn type is Option<..>: absent -> None
OPTIONAL_MISSING = {"semi_token", "semi", "colon_token", "lt_token", "gt_token", "where_clause", "colon2_token", "qself", "shebang",
                    "default", "unsafety", "leading_colon", "lifetime", "mutability", "discriminant"}


def from_json(j, L):
    """astdump JSON -> interpreter values"""
    if j is None:
        return NONE()
    if isinstance(j, bool):
        return SOME(TOK) if j else NONE()
    if isinstance(j, str):
        return Opaque("text", j)
    if isinstance(j, list):
        return RVec([from_json(x, L) for x in j])
    t = j["t"]
    if t == "Ident":
        return SynIdent(j["s"])
    if t == "LitStr":
        return SynLitStr(j["s"])
    if t == "LitInt":
        return SynLitInt(j["digits"], j.get("suffix", ""))
    if t in ("LitBool", "LitFloat", "LitChar", "Opaque", "Lifetime"):
        return Opaque(t, j)
    if t == "TokenStream":
        metas = None if j.get("metas") is None else [from_json(m, L) for m in j["metas"]]
        return SynTokens(j["flat"], metas, j.get("text", ""))
    if t == "Option":
        return SOME(from_json(j["a"][0], L)) if j["v"] == "Some" else NONE()
    if "v" in j:
        vs = L.syn_enums.get(t)
        if vs is None:
            raise Unsupported("no syn layout for enum " + t)
        if j["v"] not in vs:
            raise Unsupported("syn enum %s has no variant %s" % (t, j["v"]))
        kids = [from_json(x, L) for x in j["a"]]
        # Box-ed payloads (Type::*, Expr::*) are plain in syn 2 except where noted below
        return EnumV("syn::" + t, vs.index(j["v"]), kids)
    order = L.syn_structs.get(t)
    if order is None:
        raise Unsupported("no syn layout for struct " + t)
    f = j["f"]
    vals = []
    for name in order:
        if name in f:
            v = from_json(f[name], L)
            if (t, name) in BOXED:
                if BOXED[(t, name)] == "optbox":
                    v = SOME(BoxV(v.fields[0])) if v.variant == 1 else v
                else:
                    v = BoxV(v)
            vals.append(v)
        elif name in OPTIONAL_MISSING:
            vals.append(NONE())
        else:
            vals.append(TOK)
    return Agg("syn::" + t, vals)


# fields that are Box<T> (or Option<Box<T>>) in syn's structs and are dereferenced by typeshare's MIR
BOXED = {
    ("TypeReference", "elem"): "box", ("TypeArray", "elem"): "box", ("TypeSlice", "elem"): "box", ("TypeParen", "elem"): "box",
    ("TypeGroup", "elem"): "box", ("TypePtr", "elem"): "box",
    ("ItemType", "ty"): "box", ("ItemConst", "ty"): "box", ("ItemConst", "expr"): "box", ("UsePath", "tree"): "box",
    ("ExprUnary", "expr"): "box", ("ExprBinary", "left"): "box", ("ExprBinary", "right"): "box", ("ExprParen", "expr"): "box",
    ("ExprCall", "func"): "box", ("ExprMethodCall", "receiver"): "box", ("ExprCast", "expr"): "box", ("ExprCast", "ty"): "box",
    ("ExprGroup", "expr"): "box", ("ExprReference", "expr"): "box",
    ("ItemFn", "block"): "box", ("ItemImpl", "self_ty"): "box", ("ExprWhile", "cond"): "box", ("ExprForLoop", "expr"): "box", ("ExprIf", "cond"): "box",
    ("ExprClosure", "body"): "box", ("ExprMatch", "expr"): "box", ("Arm", "body"): "box", ("ExprLet", "expr"): "box", ("PatType", "ty"): "box",
    ("LocalInit", "expr"): "box",
}


def path_of_meta(m):
    m = deref(m)
    if m.variant == 0:
        return Ref(m.fields, 0)
    return Ref(m.fields[0].fields, 0)


def seg_list(p):
    p = deref(p)
    return deref(p.fields[1]).items      # Path { leading_colon, segments }


def ident_of_seg(seg):
    return deref(deref(seg).fields[0])


# =============================================================================== paths / attrs
@model(r"^syn::Attribute::path$")
def attr_path(I, a, n):
    at = deref(a[0])
    L = I.prog.layout
    meta = at.fields[L.syn_structs["Attribute"].index("meta")]
    return path_of_meta(meta)


@model(r"^syn::Meta::require_(name_value|list|path_only)$")
def meta_require(I, a, n):
    m = unbox(a[0])
    L = I.prog.layout
    kind = L.syn_enums["Meta"][m.variant]
    want = {"name_value": "NameValue", "list": "List", "path_only": "Path"}[meth(n).replace("require_", "")]
    if kind != want:
        return ERR(Opaque("syn::Error", "expected %s" % {"NameValue": "`=`", "List": "`(`", "Path": "path only"}[want]))
    return OK(Ref(m.fields, 0))


@model(r"^syn::Meta::path$")
def meta_path(I, a, n):
    return path_of_meta(a[0])


@model(r"^syn::Path::is_ident$")
def path_is_ident(I, a, n):
    p = deref(a[0])
    segs = seg_list(p)
    if p.fields[0].variant == 1 or len(segs) != 1:
        return False
    seg = deref(segs[0])
    if deref(seg.fields[1]).variant != 0:   # PathArguments::None
        return False
    return seq_eq(I, ident_of_seg(seg).s.chars, chars_of(a[1]))


@model(r"^syn::Path::get_ident$")
def path_get_ident(I, a, n):
    p = deref(a[0])
    segs = seg_list(p)
    if p.fields[0].variant == 1 or len(segs) != 1:
        return NONE()
    seg = deref(segs[0])
    if deref(seg.fields[1]).variant != 0:
        return NONE()
    return SOME(Ref(seg.fields, 0))


@model(r"^<proc_macro2::Ident as std::string::ToString>::to_string$|^<&proc_macro2::Ident as std::string::ToString>::to_string$")
def ident_to_string(I, a, n):
    return RString(list(unbox(a[0]).s.chars))


@model(r"^<proc_macro2::Ident as std::cmp::PartialEq>::eq$|^<&proc_macro2::Ident as std::cmp::PartialEq>::eq$")
def ident_eq(I, a, n):
    x, y = unbox(a[0]), unbox(a[1])
    ys = y.s.chars if isinstance(y, SynIdent) else chars_of(y)
    return seq_eq(I, x.s.chars, ys)


@model(r"^<proc_macro2::Ident as std::convert::Into>::into$|^<syn::Path as std::convert::From>::from$")
def ident_into_path(I, a, n):
    L = I.prog.layout
    idt = unbox(a[0])
    seg = Agg("syn::PathSegment", [idt, EnumV("syn::PathArguments", 0, [])])
    return Agg("syn::Path", [NONE(), RVec([seg])])


@model(r"^<proc_macro2::Ident as std::clone::Clone>::clone$|^<syn::\w+ as std::clone::Clone>::clone$|^<syn::punctuated::Punctuated as std::clone::Clone>::clone$|^<proc_macro2::TokenStream as std::clone::Clone>::clone$")
def syn_clone(I, a, n):
    return clone_val(I, a[0])


@model(r"^<syn::LitStr as std::convert::Into>::into$|^<syn::Lit as std::convert::From>::from$")
def litstr_into_lit(I, a, n):
    return EnumV("syn::Lit", I.prog.layout.syn_enums["Lit"].index("Str"), [a[0]])


@model(r"^syn::LitStr::value$")
def litstr_value(I, a, n):
    return RString(list(unbox(a[0]).s.chars))


@model(r"^syn::LitInt::base10_parse$")
def litint_parse(I, a, n):
    li = unbox(a[0])
    g = first_generic(n)
    ty = g[0] if g else "i128"
    v = int(li.digits)
    from .mirparse import INT_TYPES
    w, signed = INT_TYPES.get(ty, (128, True))
    hi = (1 << (w - 1)) - 1 if signed else (1 << w) - 1
    if v > hi:
        return ERR(Opaque("syn::Error", "number too large"))
    return OK(v)


@model(r"^syn::LitInt::base10_digits$")
def litint_digits(I, a, n):
    return S(unbox(a[0]).digits)


# =============================================================================== punctuated
@model(r"^syn::punctuated::Punctuated::iter$|^syn::punctuated::Punctuated::iter_mut$")
def punct_iter(I, a, n):
    return ListIt(deref(a[0]).items, True)


@model(r"^syn::Fields::iter$|^syn::Fields::iter_mut$")
def fields_iter(I, a, n):
    f = unbox(a[0])
    L = I.prog.layout
    fk = L.syn_enums["Fields"][f.variant]
    if fk == "Unit":
        return ListIt([], True)
    inner = f.fields[0]
    lst = inner.fields[L.syn_structs["FieldsNamed" if fk == "Named" else "FieldsUnnamed"].index("named" if fk == "Named" else "unnamed")]
    return ListIt(unbox(lst).items, True)


@model(r"^syn::punctuated::Punctuated::len$")
def punct_len(I, a, n):
    return len(deref(a[0]).items)


@model(r"^syn::punctuated::Punctuated::is_empty$")
def punct_is_empty(I, a, n):
    return len(deref(a[0]).items) == 0


@model(r"^syn::punctuated::Punctuated::first$")
def punct_first(I, a, n):
    it = deref(a[0]).items
    return SOME(Ref(it, 0)) if it else NONE()


@model(r"^syn::punctuated::Punctuated::last$")
def punct_last(I, a, n):
    it = deref(a[0]).items
    return SOME(Ref(it, len(it) - 1)) if it else NONE()


@model(r"^<syn::punctuated::Punctuated as std::ops::Index>::index$")
def punct_index(I, a, n):
    it = deref(a[0]).items
    i = I.concretize_index(a[1], len(it))
    if i >= len(it):
        raise Panic("index out of bounds: the len is %d but the index is %d (Punctuated)" % (len(it), i))
    return Ref(it, i)


# =============================================================================== parse_args_with
def nested_metas(I, tokens):
    """Punctuated::<Meta, Token![,]>::parse_terminated over the tokens of a list"""
    t = unbox(tokens)
    if t.metas is None:
        return ERR(Opaque("syn::Error", "cannot parse attribute arguments as Meta list: " + t.text))
    return OK(RVec([clone_val(I, m) for m in t.metas]))


def is_parse_terminated(f):
    f = deref(f)
    return isinstance(f, FnItem) and "parse_terminated" in f.name


@model(r"^syn::Attribute::parse_args_with$")
def attr_parse_args_with(I, a, n):
    at = deref(a[0])
    L = I.prog.layout
    meta = deref(at.fields[L.syn_structs["Attribute"].index("meta")])
    if meta.variant != 1:
        return ERR(Opaque("syn::Error", "expected attribute arguments in parentheses"))
    ml = meta.fields[0]
    return metalist_parse(I, ml, a[1])


@model(r"^syn::MetaList::parse_args_with$")
def metalist_parse_args_with(I, a, n):
    return metalist_parse(I, deref(a[0]), a[1])


def metalist_parse(I, ml, parser):
    L = I.prog.layout
    toks = ml.fields[L.syn_structs["MetaList"].index("tokens")]
    if is_parse_terminated(parser):
        return nested_metas(I, toks)
    buf = ParseBuf(unbox(toks).flat, unbox(toks).mapping)
    r = I.callf(parser, [Ref([buf], 0)])
    if isinstance(r, EnumV) and r.variant == 0 and buf.pos < len(buf.toks):
        return ERR(Opaque("syn::Error", "unexpected token"))
    return r


class ParseBuf:
    type_name = "ParseBuffer"

    def __init__(self, toks, mapping=None):
        self.toks, self.pos, self.mapping = toks, 0, mapping or {}

    def text(self, t):
        """the text of an identifier / string token; a planted placeholder becomes its symbolic characters"""
        return RString(list(self.mapping[t])) if t in self.mapping else S(t)

    def peek_punct(self, c):
        return self.pos < len(self.toks) and self.toks[self.pos]["k"] == "punct" and self.toks[self.pos]["c"] == c


TOKEN_CHARS = {"Comma": ",", "Eq": "=", "Colon": ":", "Semi": ";"}


@model(r"^syn::parse::ParseBuffer::is_empty$")
def pb_is_empty(I, a, n):
    b = deref(a[0])
    return b.pos >= len(b.toks)


@model(r"^syn::parse::ParseBuffer::call$")
def pb_call(I, a, n):
    b = deref(a[0])
    f = deref(a[1])
    if isinstance(f, FnItem) and "parse_any" in f.name:
        if b.pos < len(b.toks) and b.toks[b.pos]["k"] == "ident":
            t = b.toks[b.pos]
            b.pos += 1
            return OK(SynIdent(b.text(t["s"])))
        return ERR(Opaque("syn::Error", "expected ident"))
    raise Unsupported("ParseBuffer::call with %r" % (f,))


@model(r"^syn::parse::ParseBuffer::peek$")
def pb_peek(I, a, n):
    b = deref(a[0])
    for name, c in TOKEN_CHARS.items():
        if "syn::token::" + name in n:
            return b.peek_punct(c)
    raise Unsupported("ParseBuffer::peek " + n)


@model(r"^syn::parse::ParseBuffer::parse$")
def pb_parse(I, a, n):
    b = deref(a[0])
    g = first_generic(n)
    ty = g[0] if g else ""
    for name, c in TOKEN_CHARS.items():
        if ty == "syn::token::" + name:
            if b.peek_punct(c):
                b.pos += 1
                return OK(TOK)
            return ERR(Opaque("syn::Error", "expected `%s`" % c))
    if ty == "syn::LitStr":
        if b.pos < len(b.toks) and b.toks[b.pos]["k"] == "lit":
            lit = b.toks[b.pos].get("lit")
            if lit and lit.get("v") == "Str":
                b.pos += 1
                return OK(SynLitStr(b.text(lit["a"][0]["s"])))
        return ERR(Opaque("syn::Error", "expected string literal"))
    if ty == "syn::Expr":
        return parse_expr_tokens(I, b)
    raise Unsupported("ParseBuffer::parse::<%s>" % ty)


def parse_expr_tokens(I, b):
    """syn::Expr from the token cursor: a literal is rebuilt exactly; anything else is consumed up to the next
    top-level comma and returned as Expr::Verbatim (typeshare only ever looks at Expr::Lit)"""
    L = I.prog.layout
    if b.pos >= len(b.toks):
        return ERR(Opaque("syn::Error", "unexpected end of input, expected an expression"))
    t = b.toks[b.pos]
    nxt = b.toks[b.pos + 1] if b.pos + 1 < len(b.toks) else None
    if t["k"] == "lit" and (nxt is None or (nxt["k"] == "punct" and nxt["c"] == ",")):
        b.pos += 1
        lit = from_json(t["lit"], L)
        inner = unbox(lit.fields[0]) if lit.fields else None
        if isinstance(inner, SynLitStr):
            key = "".join(chr(c) for c in inner.s.chars) if all(isinstance(c, int) for c in inner.s.chars) else None
            if key in b.mapping:
                inner.s = RString(list(b.mapping[key]))
        el = Agg("syn::ExprLit", [(RVec([]) if nm == "attrs" else lit) for nm in L.syn_structs["ExprLit"]])
        return OK(EnumV("syn::Expr", L.syn_enums["Expr"].index("Lit"), [el]))
    while b.pos < len(b.toks) and not b.peek_punct(","):
        b.pos += 1
    return OK(EnumV("syn::Expr", L.syn_enums["Expr"].index("Verbatim"), [Opaque("TokenStream", "<expr>")]))


@model(r"^syn::Attribute::parse_nested_meta$")
def attr_parse_nested_meta(I, a, n):
    """syn 2: `path [= value | (..)]` items separated by commas; the callback gets ParseNestedMeta { path, input } and must
    consume what follows the path - tokens it leaves behind make the next step fail with `expected `,``"""
    at = deref(a[0])
    L = I.prog.layout
    meta = deref(at.fields[L.syn_structs["Attribute"].index("meta")])
    if L.syn_enums["Meta"][meta.variant] != "List":
        return ERR(Opaque("syn::Error", "expected attribute arguments in parentheses"))
    toks = unbox(meta.fields[0].fields[L.syn_structs["MetaList"].index("tokens")])
    b = ParseBuf(toks.flat, toks.mapping)
    logic = a[1]
    while b.pos < len(b.toks):
        segs = []
        lead = False
        if b.peek_punct(":"):
            lead = True
            b.pos += 2
        while True:
            if b.pos < len(b.toks) and b.toks[b.pos]["k"] == "ident":
                segs.append(b.toks[b.pos]["s"])
                b.pos += 1
            else:
                return ERR(Opaque("syn::Error", "unsupported expression; enable syn's features=[\"full\"]" if b.pos < len(b.toks) and b.toks[b.pos]["k"] == "lit" else "expected nested attribute"))
            if b.peek_punct(":") and b.pos + 1 < len(b.toks) and b.toks[b.pos + 1]["k"] == "punct" and b.toks[b.pos + 1]["c"] == ":":
                b.pos += 2
                continue
            break
        pj = {"t": "Path", "f": {"leading_colon": lead, "segments": [{"t": "PathSegment", "f": {"ident": {"t": "Ident", "s": sg}, "arguments": {"t": "PathArguments", "v": "None", "a": []}}} for sg in segs]}}
        path = from_json(pj, L)
        for sg in deref(path.fields[L.syn_structs["Path"].index("segments")]).items:
            idn = sg.fields[0]
            key = "".join(chr(c) for c in idn.s.chars)
            if key in b.mapping:
                idn.s = RString(list(b.mapping[key]))
        pm = Agg("syn::meta::ParseNestedMeta", [path, Ref([b], 0)])
        r = I.callf(logic, [pm])
        if isinstance(r, EnumV) and r.variant != 0:
            return r
        if b.pos >= len(b.toks):
            break
        if not b.peek_punct(","):
            return ERR(Opaque("syn::Error", "expected `,`"))
        b.pos += 1
    return OK(UNIT)


@model(r"^syn::meta::ParseNestedMeta::<'_>::value$|^syn::meta::ParseNestedMeta::value$")
def pnm_value(I, a, n):
    pm = deref(a[0])
    b = deref(pm.fields[1])
    if not b.peek_punct("="):
        return ERR(Opaque("syn::Error", "expected `=`"))
    b.pos += 1
    return OK(pm.fields[1])


@model(r"^<syn::token::\w+ as std::default::Default>::default$")
def token_default(I, a, n):
    return TOK


# =============================================================================== token streams
@model(r"^<.* as quote::ToTokens>::(to_token_stream|into_token_stream)$")
def to_token_stream(I, a, n):
    v = unbox(a[0])
    L = I.prog.layout
    if isinstance(v, Agg) and v.ty.split("::")[-1] == "Path" and "Path" in L.syn_structs:
        # proc_macro2 prints a path as its tokens separated by blanks: `a :: b`, `:: a`
        pn = L.syn_structs["Path"]
        segs = unbox(v.fields[pn.index("segments")]).items
        chars = []
        if v.fields[pn.index("leading_colon")].variant != 0:
            chars += [ord(c) for c in ":: "]
        for k, sg in enumerate(segs):
            if sg.fields[1].variant != 0:
                raise Unsupported("to_token_stream of a path with generic arguments")
            if k:
                chars += [ord(c) for c in " :: "]
            chars += list(sg.fields[0].s.chars)
        return SynTokens([], None, RString(chars))
    if isinstance(v, (Agg, EnumV)) and v.ty.split("::")[-1] in ("Attribute", "Meta"):
        return SynTokens([], None, RString(attr_token_chars(I, v)))
    return Opaque("TokenStream", "<tokens>")


def attr_token_chars(I, v):
    """proc_macro2's rendering of an attribute / meta: `# [path (tokens)]`, `path = lit`"""
    L = I.prog.layout
    tn = v.ty.split("::")[-1]
    if tn == "Attribute":
        meta = v.fields[L.syn_structs["Attribute"].index("meta")]
        return [ord(c) for c in "# ["] + attr_token_chars(I, meta) + [ord("]")]
    kind = L.syn_enums["Meta"][v.variant]
    def path_chars(p):
        t = to_token_stream(I, [p], "<syn::Path as quote::ToTokens>::to_token_stream")
        return list(t.text.chars)
    if kind == "Path":
        return path_chars(v.fields[0])
    inner = v.fields[0]
    if kind == "List":
        ml = L.syn_structs["MetaList"]
        toks = unbox(inner.fields[ml.index("tokens")])
        text = toks.text if isinstance(toks, SynTokens) else ""
        tchars = list(text.chars) if isinstance(text, RString) else [ord(c) for c in text]
        return path_chars(inner.fields[ml.index("path")]) + [ord(c) for c in " ("] + tchars + [ord(")")]
    nv = L.syn_structs["MetaNameValue"]
    val = unbox(inner.fields[nv.index("value")])
    vt = []
    try:
        lit = unbox(unbox(val.fields[0]).fields[L.syn_structs["ExprLit"].index("lit")])
        if isinstance(lit, SynLitStr):
            vt = [34] + list(lit.s.chars) + [34]
        elif isinstance(lit, SynLitInt):
            vt = [ord(c) for c in str(lit.digits) + str(lit.suffix)]
    except Exception:
        vt = [ord(c) for c in "<expr>"]
    return path_chars(inner.fields[nv.index("path")]) + [ord(c) for c in " = "] + vt


@model(r"^<proc_macro2::TokenStream as std::string::ToString>::to_string$")
def tokenstream_to_string(I, a, n):
    v = unbox(a[0])
    if isinstance(v, SynTokens):
        return RString(list(v.text.chars)) if isinstance(v.text, RString) else S(v.text)
    return S("<tokens>")


@model(r"^<&proc_macro2::Ident as std::convert::TryInto>::try_into$|^<proc_macro2::Ident as std::convert::TryInto>::try_into$")
def ident_try_into(I, a, n):
    """blanket TryInto -> the crate's `TryFrom<&Ident> for X`"""
    g = re.match(r"^<(.*) as std::convert::TryInto<(.*)>>::try_into$", n)
    if not g:
        raise Unsupported("try_into: " + n)
    tgt, src = g.group(2), g.group(1)
    r = I.resolve("<%s as std::convert::TryFrom<%s>>::try_from" % (tgt, src), [a[0]])
    if r is not None and r[0] == "mir":
        return I.call_mir(r[1], [a[0]])
    raise Unsupported("no TryFrom<%s> for %s" % (src, tgt))


# =============================================================================== parse_str / parse_file
def parse_type_text(I, chars):
    """syn::parse_str::<Type> on text the harness generated.  Concrete text goes through the
    real syn (astdump); symbolic identifier chars are parsed by a small recursive-descent reader
    under the assumption (added to the path) that they are identifier characters."""
    L = I.prog.layout
    if all(isinstance(c, int) for c in chars):
        text = "".join(chr(c) for c in chars)
        cache = I.prog.const_cache.setdefault("parse_type", {})
        if text not in cache:
            from . import dump
            import json
            from ..common import run
            rc, out, _ = run([dump.ensure_astdump(), "type", text], timeout=60)
            cache[text] = json.loads(out)
        j = cache[text]
        if "error" in j:
            return ERR(Opaque("syn::Error", j["error"]))
        return OK(from_json(j, L))
    return OK(TypeReader(I, chars).read_all())


class TypeReader:
    def __init__(self, I, chars):
        self.I, self.cs, self.i = I, chars, 0
        self.L = I.prog.layout

    def peek(self):
        return self.cs[self.i] if self.i < len(self.cs) else None

    def at(self, ch):
        p = self.peek()
        return isinstance(p, int) and p == ord(ch)

    def skip_ws(self):
        while self.i < len(self.cs) and isinstance(self.cs[self.i], int) and self.cs[self.i] == 32:
            self.i += 1

    def is_ident_char(self, c, first):
        if isinstance(c, int):
            ch = chr(c)
            return ch == "_" or (ch.isalpha() if first else ch.isalnum())
        # symbolic: assume identifier character
        cond = z3.Or(z3.And(z3.UGE(c, 65), z3.ULE(c, 90)), z3.And(z3.UGE(c, 97), z3.ULE(c, 122)), c == 95)
        if not first:
            cond = z3.Or(cond, z3.And(z3.UGE(c, 48), z3.ULE(c, 57)))
        self.I.assume(cond)
        return True

    def read_all(self):
        t = self.ty()
        self.skip_ws()
        if self.i != len(self.cs):
            raise Unsupported("type text with symbolic chars: trailing input")
        return t

    def mk(self, name, fields):
        order = self.L.syn_structs[name]
        return Agg("syn::" + name, [fields.get(f, TOK) for f in order])

    def variant(self, en, v, kids):
        return EnumV("syn::" + en, self.L.syn_enums[en].index(v), kids)

    def ty(self):
        self.skip_ws()
        c = self.peek()
        if c == ord("&"):
            self.i += 1
            self.skip_ws()
            if self.at("'"):
                self.i += 1
                while self.peek() is not None and not self.at(" ") and self.is_ident_char(self.peek(), False):
                    self.i += 1
            inner = self.ty()
            return self.variant("Type", "Reference", [self.mk("TypeReference", {"lifetime": NONE(), "mutability": NONE(), "elem": BoxV(inner)})])
        if c == ord("("):
            self.i += 1
            self.skip_ws()
            elems = []
            while (not self.at(")")):
                elems.append(self.ty())
                self.skip_ws()
                if self.at(","):
                    self.i += 1
                    self.skip_ws()
            self.i += 1
            return self.variant("Type", "Tuple", [self.mk("TypeTuple", {"elems": RVec(elems)})])
        if c == ord("["):
            self.i += 1
            elem = self.ty()
            self.skip_ws()
            if self.at(";"):
                self.i += 1
                self.skip_ws()
                digits = []
                while isinstance(self.peek(), int) and chr(self.peek()).isdigit():
                    digits.append(chr(self.peek()))
                    self.i += 1
                self.skip_ws()
                if (not self.at("]")) or not digits:
                    raise Unsupported("type text: array length")
                self.i += 1
                lit = self.variant("Lit", "Int", [SynLitInt("".join(digits))])
                ln = self.variant("Expr", "Lit", [self.mk("ExprLit", {"attrs": RVec([]), "lit": lit})])
                return self.variant("Type", "Array", [self.mk("TypeArray", {"elem": BoxV(elem), "len": ln})])
            if (not self.at("]")):
                raise Unsupported("type text: slice")
            self.i += 1
            return self.variant("Type", "Slice", [self.mk("TypeSlice", {"elem": BoxV(elem)})])
        segs = []
        leading = NONE()
        if self.at(":") and self.i + 1 < len(self.cs) and isinstance(self.cs[self.i + 1], int) and self.cs[self.i + 1] == ord(":"):
            self.i += 2          # `::std::rc::Rc<..>`
            leading = SOME(TOK)
        while True:
            name = []
            first = True
            while self.peek() is not None and not (isinstance(self.peek(), int) and chr(self.peek()) in "<>,:() &[];") and self.is_ident_char(self.peek(), first):
                name.append(self.peek())
                self.i += 1
                first = False
            if not name:
                raise Unsupported("type text: expected identifier")
            self.skip_ws()
            args = self.variant("PathArguments", "None", [])
            if self.at("<"):
                self.i += 1
                al = []
                self.skip_ws()
                while (not self.at(">")):
                    if self.at("'"):
                        self.i += 1
                        while self.peek() is not None and isinstance(self.peek(), int) and (chr(self.peek()).isalnum() or self.peek() == 95):
                            self.i += 1
                        al.append(self.variant("GenericArgument", "Lifetime", [Opaque("Lifetime")]))
                    else:
                        al.append(self.variant("GenericArgument", "Type", [self.ty()]))
                    self.skip_ws()
                    if self.at(","):
                        self.i += 1
                        self.skip_ws()
                self.i += 1
                args = self.variant("PathArguments", "AngleBracketed", [self.mk("AngleBracketedGenericArguments", {"colon2_token": NONE(), "args": RVec(al)})])
            segs.append(self.mk("PathSegment", {"ident": SynIdent(RString(name)), "arguments": args}))
            self.skip_ws()
            if self.at(":") and self.i + 1 < len(self.cs) and isinstance(self.cs[self.i + 1], int) and self.cs[self.i + 1] == ord(":"):
                self.i += 2
                continue
            break
        p = self.mk("Path", {"leading_colon": leading, "segments": RVec(segs)})
        return self.variant("Type", "Path", [self.mk("TypePath", {"qself": NONE(), "path": p})])


@model(r"^syn::parse_str$")
def syn_parse_str(I, a, n):
    g = first_generic(n)
    if g and g[0] == "syn::Type":
        return parse_type_text(I, chars_of(a[0]))
    raise Unsupported("syn::parse_str::<%s>" % (g[0] if g else "?"))


@model(r"^syn::parse_file$")
def syn_parse_file(I, a, n):
    """parse_file(src): the harness registers the AST for its source text in env['files']"""
    src = unbox(a[0])
    key = id(src)
    files = I.env.get("parse_file")
    if files is None:
        raise Unsupported("syn::parse_file without a registered AST")
    f = files(I, src)
    if f is None:
        return ERR(Opaque("syn::Error", "parse error"))
    return OK(f)


# =============================================================================== syn::visit
def snake(name):
    return re.sub(r"(?<!^)(?=[A-Z])", "_", name).lower()


def visit_dispatch(I, vis, node):
    """v.visit_<node>(node): the visitor's override if it has one (MIR), else the default walk"""
    n = deref(node)
    if isinstance(n, BoxV):
        return visit_dispatch(I, vis, n.cell[0])
    if isinstance(n, (Agg, EnumV)) and n.ty.startswith("syn::"):
        tn = n.ty.split("::")[-1]
        mname = "visit_" + snake(tn)
        vt = I.type_name(vis)
        k = (vt, "Visit", mname)
        if k in I.prog.methods:
            I.call_mir(I.prog.methods[k], [vis, Ref([n], 0) if not isinstance(node, Ref) else node])
            return
        visit_children(I, vis, n)
    elif isinstance(n, RVec):
        for k in range(len(n.items)):
            visit_dispatch(I, vis, Ref(n.items, k))
    elif isinstance(n, EnumV) and n.ty in ("Option",):
        if n.variant == 1:
            visit_dispatch(I, vis, Ref(n.fields, 0))
    elif isinstance(n, list):
        for k in range(len(n)):
            visit_dispatch(I, vis, Ref(n, k))
    # tokens, idents, literals, opaque values: leaf (typeshare overrides none of their visit methods)
    elif isinstance(n, SynIdent):
        k = (I.type_name(vis), "Visit", "visit_ident")
        if k in I.prog.methods:
            I.call_mir(I.prog.methods[k], [vis, Ref([n], 0)])


def visit_children(I, vis, n):
    for k in range(len(n.fields)):
        visit_dispatch(I, vis, Ref(n.fields, k))


@model(r"^syn::visit::visit_\w+$")
def syn_visit_default(I, a, n):
    vis, node = a[0], a[1]
    visit_children(I, vis, deref(node))
    return UNIT


@model(r"^syn::visit::Visit::visit_\w+$|^<.* as syn::visit::Visit>::visit_\w+$")
def syn_visit_method(I, a, n):
    visit_dispatch(I, a[0], a[1])
    return UNIT
