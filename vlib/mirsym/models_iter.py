"""Lazy iterator adaptors as Python objects that call back into closure MIR, plus consumers
(collect, any, all, find, fold, join, ...).  Matches any Self type by method name."""
import re

import z3

from .values import *  # noqa
from .models_core import (model, meth, chars_of, clone_val, val_eq, cmp_vals, sort_items, map_iter_order, map_insert,
                          map_find, items_of, first_generic, ordering)

END = object()


class It:
    type_name = None

    def nxt(self, I):
        raise NotImplementedError

    def drain(self, I):
        out = []
        while True:
            x = self.nxt(I)
            if x is END:
                return out
            out.append(x)


class ListIt(It):
    def __init__(self, items, by_ref, kind=None):
        self.items, self.i, self.by_ref, self.kind = items, 0, by_ref, kind

    def nxt(self, I):
        if self.i >= len(self.items):
            return END
        k = self.i
        self.i += 1
        return Ref(self.items, k) if self.by_ref else self.items[k]

    def rev(self):
        rest = list(range(self.i, len(self.items)))[::-1]
        if self.by_ref:
            return ListIt([Ref(self.items, k) for k in rest], False)
        return ListIt([self.items[k] for k in rest], False)


class CharIndicesIt(It):
    def __init__(self, chars):
        self.chars, self.i, self.byte = chars, 0, 0

    def nxt(self, I):
        if self.i >= len(self.chars):
            return END
        c = self.chars[self.i]
        self.i += 1
        b = self.byte
        self.byte += I.char_width(c)
        return [b, c]


class RangeIt(It):
    def __init__(self, agg):
        self.r = agg

    def nxt(self, I):
        s, e = self.r.fields[0], self.r.fields[1]
        if I.branch_bool(I.binop("Lt", s, e, "usize")):
            self.r.fields[0] = I.binop("Add", s, 1, "usize")
            return s
        return END


class MapIt(It):
    def __init__(self, inner, f):
        self.inner, self.f = inner, f

    def nxt(self, I):
        x = self.inner.nxt(I)
        return END if x is END else I.callf(self.f, [x])


class FilterIt(It):
    def __init__(self, inner, f):
        self.inner, self.f = inner, f

    def nxt(self, I):
        while True:
            x = self.inner.nxt(I)
            if x is END:
                return END
            if I.branch_bool(I.callf(self.f, [Ref([x], 0)])):
                return x


class FilterMapIt(It):
    def __init__(self, inner, f):
        self.inner, self.f = inner, f

    def nxt(self, I):
        while True:
            x = self.inner.nxt(I)
            if x is END:
                return END
            r = I.callf(self.f, [x])
            if r.variant == 1:
                return r.fields[0]


class InspectIt(It):
    def __init__(self, inner, f):
        self.inner, self.f = inner, f

    def nxt(self, I):
        x = self.inner.nxt(I)
        if x is not END:
            I.callf(self.f, [Ref([x], 0)])
        return x


class FlatMapIt(It):
    def __init__(self, inner, f):
        self.inner, self.f, self.cur = inner, f, None

    def nxt(self, I):
        while True:
            if self.cur is not None:
                y = self.cur.nxt(I)
                if y is not END:
                    return y
                self.cur = None
            x = self.inner.nxt(I)
            if x is END:
                return END
            self.cur = into_iter(I, I.callf(self.f, [x]) if self.f is not None else x)


class ChainIt(It):
    def __init__(self, a, b):
        self.a, self.b = a, b

    def nxt(self, I):
        if self.a is not None:
            x = self.a.nxt(I)
            if x is not END:
                return x
            self.a = None
        return self.b.nxt(I)


class EnumerateIt(It):
    def __init__(self, inner):
        self.inner, self.k = inner, 0

    def nxt(self, I):
        x = self.inner.nxt(I)
        if x is END:
            return END
        k = self.k
        self.k += 1
        return [k, x]


class ZipIt(It):
    def __init__(self, a, b):
        self.a, self.b = a, b

    def nxt(self, I):
        x = self.a.nxt(I)
        if x is END:
            return END
        y = self.b.nxt(I)
        if y is END:
            return END
        return [x, y]


class SkipWhileIt(It):
    def __init__(self, inner, f):
        self.inner, self.f, self.done = inner, f, False

    def nxt(self, I):
        while True:
            x = self.inner.nxt(I)
            if x is END:
                return END
            if self.done or not I.branch_bool(I.callf(self.f, [Ref([x], 0)])):
                self.done = True
                return x


class TakeWhileIt(It):
    def __init__(self, inner, f):
        self.inner, self.f, self.done = inner, f, False

    def nxt(self, I):
        if self.done:
            return END
        x = self.inner.nxt(I)
        if x is END:
            return END
        if I.branch_bool(I.callf(self.f, [Ref([x], 0)])):
            return x
        self.done = True
        return END


class TakeIt(It):
    def __init__(self, inner, n):
        self.inner, self.n = inner, n

    def nxt(self, I):
        if self.n <= 0:
            return END
        self.n -= 1
        return self.inner.nxt(I)


class SkipIt(It):
    def __init__(self, inner, n):
        self.inner, self.n = inner, n

    def nxt(self, I):
        while self.n > 0:
            self.n -= 1
            if self.inner.nxt(I) is END:
                return END
        return self.inner.nxt(I)


class RepeatIt(It):
    def __init__(self, v):
        self.v = v

    def nxt(self, I):
        return clone_val(I, self.v)


class ClonedIt(It):
    def __init__(self, inner):
        self.inner = inner

    def nxt(self, I):
        x = self.inner.nxt(I)
        return END if x is END else clone_val(I, deref(x))


class UniqueIt(It):
    def __init__(self, inner):
        self.inner, self.seen = inner, []

    def nxt(self, I):
        while True:
            x = self.inner.nxt(I)
            if x is END:
                return END
            dup = False
            for y in self.seen:
                if I.branch_bool(val_eq(I, x, y)):
                    dup = True
                    break
            if not dup:
                self.seen.append(x)
                return x


class PeekableIt(It):
    def __init__(self, inner):
        self.inner, self.buf = inner, []

    def nxt(self, I):
        if self.buf:
            return self.buf.pop(0)
        return self.inner.nxt(I)

    def peek(self, I):
        if not self.buf:
            x = self.inner.nxt(I)
            if x is END:
                return END
            self.buf.append(x)
        return self.buf[0]


class UserIt(It):
    """an iterator whose `next` is MIR of the analysed crate (TargetOsIterator, ItemUseIter, ...)"""

    def __init__(self, v, fname):
        self.v, self.fname = v, fname

    def nxt(self, I):
        r = I.call_mir(self.fname, [Ref([self.v], 0)])
        return END if r.variant == 0 else r.fields[0]


def into_iter(I, v):
    while isinstance(v, Ref):
        pv = v.get()
        if isinstance(pv, It):
            return pv
        if isinstance(pv, (RVec, SliceRef, list, RMap)):
            # &Vec / &[T] / &map iterate by reference
            if isinstance(pv, RVec):
                return ListIt(pv.items, True)
            if isinstance(pv, SliceRef):
                return ListIt(pv.items, True).__class__([Ref(pv.items, k) for k in range(pv.lo, pv.hi)], False)
            if isinstance(pv, list):
                return ListIt(pv, True)
            es = map_iter_order(I, pv)
            if pv.is_set():
                return ListIt([Ref(e, 0) for e in es], False)
            return ListIt([[Ref(e, 0), Ref(e, 1)] for e in es], False)
        v = pv
    if isinstance(v, BoxV):
        return into_iter(I, v.cell[0])      # Box<dyn Iterator>
    if isinstance(v, It):
        return v
    if isinstance(v, RVec):
        return ListIt(v.items, False)
    if isinstance(v, SliceRef):
        return ListIt([Ref(v.items, k) for k in range(v.lo, v.hi)], False)
    if isinstance(v, list):
        return ListIt(v, False)
    if isinstance(v, RMap):
        es = map_iter_order(I, v)
        if v.is_set():
            return ListIt([e[0] for e in es], False)
        return ListIt([[e[0], e[1]] for e in es], False)
    if isinstance(v, EnumV):
        t = v.ty.split("::")[-1]
        if t == "Either":
            return into_iter(I, v.fields[0])
        if t == "Option":
            return ListIt([v.fields[0]] if v.variant == 1 else [], False)
        if t == "Result":
            return ListIt([v.fields[0]] if v.variant == 0 else [], False)
    if isinstance(v, Agg):
        tn = v.ty.split("::")[-1]
        if tn in ("Range",):
            return RangeIt(v)
        k = (tn, "Iterator", "next")
        if k in I.prog.methods:
            return UserIt(v, I.prog.methods[k])
    ii = getattr(v, "into_iter", None)
    if ii:
        return ii(I)
    raise Unsupported("into_iter of %r" % (v,))


def unit_ok(I):
    return OK(UNIT)


# =============================================================================== constructors
@model(r"^core::slice::iter$|^core::slice::iter_mut$|^std::vec::Vec::iter$")
def slice_iter(I, a, n):
    v = deref(a[0])
    if isinstance(v, RVec):
        return ListIt(v.items, True)
    if isinstance(v, SliceRef):
        return ListIt([Ref(v.items, k) for k in range(v.lo, v.hi)], False)
    if isinstance(v, list):
        return ListIt(v, True)
    raise Unsupported("iter of %r" % (v,))


@model(r"^<.* as std::iter::IntoIterator>::into_iter$")
def any_into_iter(I, a, n):
    return into_iter(I, a[0])


@model(r"^std::vec::Vec::drain$")
def vec_drain(I, a, n):
    """drain(range): the elements of the range leave the vector (panics like slicing does for a bad range)"""
    from .models_core import slice_range
    v = deref(a[0])
    r = unbox(a[1]) if len(a) > 1 else None
    if isinstance(r, (Agg, EnumV)) and r.ty.split("::")[-1] in ("Range", "RangeTo", "RangeFrom", "RangeInclusive"):
        sl = slice_range(I, v, r)
        items = list(v.items[sl.lo:sl.hi])
        del v.items[sl.lo:sl.hi]
        return ListIt(items, False)
    items = list(v.items)
    del v.items[:]
    return ListIt(items, False)


@model(r"^std::vec::Vec::into_boxed_slice$")
def vec_into_boxed(I, a, n):
    return BoxV(deref(a[0]).items)


@model(r"^std::iter::empty$")
def iter_empty(I, a, n):
    return ListIt([], False)


@model(r"^std::iter::once$")
def iter_once(I, a, n):
    return ListIt([a[0]], False)


@model(r"^std::iter::repeat$")
def iter_repeat(I, a, n):
    return RepeatIt(a[0])


@model(r"^<std::array::IntoIter as std::iter::Iterator>::next$")
def array_next(I, a, n):
    x = into_iter(I, a[0]).nxt(I)
    return NONE() if x is END else SOME(x)


# =============================================================================== adaptors
ITER_RX = r"^<.* as (std::iter::Iterator|itertools::Itertools|std::iter::DoubleEndedIterator|joinery::JoinableIterator)>::"


@model(ITER_RX + r"(map|filter|filter_map|inspect|flat_map|flatten|chain|enumerate|zip|rev|skip_while|take_while|take|skip|cloned|copied|unique|peekable|by_ref|into_iter|fuse|map_while)$")
def iter_adaptor(I, a, n):
    op = meth(n)
    it = into_iter(I, a[0])
    if op == "map":
        return MapIt(it, a[1])
    if op == "filter":
        return FilterIt(it, a[1])
    if op == "filter_map":
        return FilterMapIt(it, a[1])
    if op == "map_while":
        class MW(It):
            def __init__(s):
                s.done = False

            def nxt(s, I2):
                if s.done:
                    return END
                x = it.nxt(I2)
                if x is END:
                    return END
                r = I2.callf(a[1], [x])
                if r.variant == 1:
                    return r.fields[0]
                s.done = True
                return END
        return MW()
    if op == "inspect":
        return InspectIt(it, a[1])
    if op == "flat_map":
        return FlatMapIt(it, a[1])
    if op == "flatten":
        return FlatMapIt(it, None)
    if op == "chain":
        return ChainIt(it, into_iter(I, a[1]))
    if op == "enumerate":
        return EnumerateIt(it)
    if op == "zip":
        return ZipIt(it, into_iter(I, a[1]))
    if op == "rev":
        if isinstance(it, ListIt):
            return it.rev()
        return ListIt(it.drain(I)[::-1], False)
    if op == "skip_while":
        return SkipWhileIt(it, a[1])
    if op == "take_while":
        return TakeWhileIt(it, a[1])
    if op == "take":
        return TakeIt(it, I.concretize_int(a[1], 0, 64, "take count"))
    if op == "skip":
        return SkipIt(it, I.concretize_int(a[1], 0, 64, "skip count"))
    if op in ("cloned", "copied"):
        return ClonedIt(it)
    if op == "unique":
        return UniqueIt(it)
    if op == "peekable":
        return PeekableIt(it)
    if op in ("by_ref", "into_iter", "fuse"):
        return it
    raise Unsupported("iterator adaptor " + op)


@model(r"^std::iter::Peekable::peek$")
def peekable_peek(I, a, n):
    it = deref(a[0])
    x = it.peek(I)
    return NONE() if x is END else SOME(Ref(it.buf, 0))


# =============================================================================== consumers
@model(ITER_RX + r"next$|^<std::\w+::.* as std::iter::Iterator>::next$")
def iter_next(I, a, n):
    x = into_iter(I, a[0]).nxt(I)
    return NONE() if x is END else SOME(x)


@model(ITER_RX + r"next_back$")
def iter_next_back(I, a, n):
    it = into_iter(I, a[0])
    if isinstance(it, ListIt):
        if it.i >= len(it.items):
            return NONE()
        k = len(it.items) - 1
        if it.by_ref:
            raise Unsupported("next_back on by-ref list iterator")
        return SOME(it.items.pop())
    raise Unsupported("next_back on %r" % (it,))


def collect_into(I, items, ty):
    ty = ty.strip()
    if ty.startswith("std::vec::Vec<") or ty == "std::vec::Vec" or ty.startswith("std::vec::Vec"):
        return RVec(items)
    if ty.startswith("std::string::String"):
        out = []
        for x in items:
            x = deref(x)
            if isinstance(x, RString):
                out.extend(x.chars)
            else:
                out.append(x)
        return RString(out)
    for kind in ("HashMap", "BTreeMap", "HashSet", "BTreeSet"):
        if ty.startswith("std::collections::" + kind):
            m = RMap(kind)
            for x in items:
                if kind.endswith("Set"):
                    map_insert(I, m, x, UNIT)
                else:
                    map_insert(I, m, x[0], x[1])
            return m
    if ty.startswith("std::result::Result<"):
        from .mirparse import split_top
        inner = split_top(ty[len("std::result::Result<"):-1])[0]
        ok = []
        for x in items:
            if x.variant == 1:
                return ERR(x.fields[0])
            ok.append(x.fields[0])
        return OK(collect_into(I, ok, inner))
    if ty.startswith("std::option::Option<"):
        inner = ty[len("std::option::Option<"):-1]
        ok = []
        for x in items:
            if x.variant == 0:
                return NONE()
            ok.append(x.fields[0])
        return SOME(collect_into(I, ok, inner))
    if ty.startswith("std::boxed::Box<["):
        return BoxV(items)
    raise Unsupported("collect into " + ty)


@model(ITER_RX + r"collect$")
def iter_collect(I, a, n):
    g = first_generic(n)
    if not g:
        raise Unsupported("collect without target type: " + n)
    ty = g[0]
    it = into_iter(I, a[0])
    if ty.strip().startswith("std::result::Result<") or ty.strip().startswith("std::option::Option<"):
        # short-circuit: stop pulling at the first Err / None (observable through closures' effects)
        items = []
        bad = 1 if ty.strip().startswith("std::result::Result<") else 0
        while True:
            x = it.nxt(I)
            if x is END:
                break
            items.append(x)
            if x.variant == bad:
                break
        return collect_into(I, items, ty)
    return collect_into(I, it.drain(I), ty)


@model(ITER_RX + r"collect_vec$|" + ITER_RX + r"sorted$")
def iter_collect_vec(I, a, n):
    items = into_iter(I, a[0]).drain(I)
    if meth(n) == "sorted":
        return ListIt(sort_items(I, items, lambda x, y: cmp_vals(I, deref(x), deref(y))), False)
    return RVec(items)


@model(r"^<std::vec::Vec as std::iter::FromIterator>::from_iter$|^<std::collections::\w+ as std::iter::FromIterator>::from_iter$|^<std::string::String as std::iter::FromIterator>::from_iter$")
def from_iter(I, a, n):
    m = re.match(r"^<(.*?) as std::iter::FromIterator", n)
    return collect_into(I, into_iter(I, a[0]).drain(I), m.group(1))


@model(ITER_RX + r"(any|all|find|find_map|position|rposition|count|last|nth|fold|for_each|try_for_each|partition|max|min|max_by_key|min_by_key|sum|unzip|contains|join|join_with|concat|for_each_while|reduce|try_fold|eq|is_sorted|max_by|min_by)$")
def iter_consumer(I, a, n):
    op = meth(n)
    it = into_iter(I, a[0])
    if op == "any":
        while True:
            x = it.nxt(I)
            if x is END:
                return False
            if I.branch_bool(I.callf(a[1], [x])):
                return True
    if op == "all":
        while True:
            x = it.nxt(I)
            if x is END:
                return True
            if not I.branch_bool(I.callf(a[1], [x])):
                return False
    if op == "find":
        while True:
            x = it.nxt(I)
            if x is END:
                return NONE()
            if I.branch_bool(I.callf(a[1], [Ref([x], 0)])):
                return SOME(x)
    if op == "find_map":
        while True:
            x = it.nxt(I)
            if x is END:
                return NONE()
            r = I.callf(a[1], [x])
            if r.variant == 1:
                return r
    if op == "position":
        k = 0
        while True:
            x = it.nxt(I)
            if x is END:
                return NONE()
            if I.branch_bool(I.callf(a[1], [x])):
                return SOME(k)
            k += 1
    if op in ("min_by", "max_by"):
        # closure: (&a, &b) -> Ordering (Less / Equal / Greater = variants 0 / 1 / 2); min_by keeps the first of equal minima,
        # max_by the last of equal maxima
        xs = it.drain(I)
        if not xs:
            return NONE()
        best = xs[0]
        for x in xs[1:]:
            o = deref(I.callf(a[1], [Ref([best], 0), Ref([x], 0)]))
            ov = o.variant if isinstance(o, EnumV) else (o + 1)
            if op == "min_by":
                if ov == 2:
                    best = x
            elif ov != 2:
                best = x
        return SOME(best)
    if op == "rposition":
        xs = it.drain(I)
        for k in range(len(xs) - 1, -1, -1):
            if I.branch_bool(I.callf(a[1], [xs[k]])):
                return SOME(k)
        return NONE()
    if op == "count":
        return len(it.drain(I))
    if op == "last":
        xs = it.drain(I)
        return SOME(xs[-1]) if xs else NONE()
    if op == "nth":
        k = I.concretize_int(a[1], 0, 256, "nth")
        x = END
        for _ in range(k + 1):
            x = it.nxt(I)
            if x is END:
                return NONE()
        return SOME(x)
    if op == "fold":
        acc = a[1]
        while True:
            x = it.nxt(I)
            if x is END:
                return acc
            acc = I.callf(a[2], [acc, x])
    if op == "try_fold":
        # try_fold(init, f): f returns Result<B, E> / Option<B> / ControlFlow; stops at the first residual
        acc = a[1]
        kind = None
        while True:
            x = it.nxt(I)
            if x is END:
                g = first_generic(n)
                rt = (g[-1] if g else "").strip()
                if kind == "Option" or rt.startswith("std::option::Option"):
                    return SOME(acc)
                if kind == "ControlFlow" or rt.startswith("std::ops::ControlFlow"):
                    return EnumV("std::ops::ControlFlow", 0, [acc])
                return OK(acc)
            r = I.callf(a[2], [acc, x])
            if not isinstance(r, EnumV):
                raise Unsupported("try_fold: closure result %r" % (r,))
            kind = r.ty.split("::")[-1]
            if (kind == "Result" and r.variant == 1) or (kind == "Option" and r.variant == 0) or (kind == "ControlFlow" and r.variant == 1):
                return r
            acc = r.fields[0]
    if op == "reduce":
        acc = it.nxt(I)
        if acc is END:
            return NONE()
        while True:
            x = it.nxt(I)
            if x is END:
                return SOME(acc)
            acc = I.callf(a[1], [acc, x])
    if op == "for_each":
        while True:
            x = it.nxt(I)
            if x is END:
                return UNIT
            I.callf(a[1], [x])
    if op == "try_for_each":
        while True:
            x = it.nxt(I)
            if x is END:
                g = first_generic(n)
                if g and len(g) > 1 and g[1].strip().startswith("std::option::Option"):
                    return SOME(UNIT)
                return OK(UNIT)
            r = I.callf(a[1], [x])
            if isinstance(r, EnumV):
                t = r.ty.split("::")[-1]
                if (t == "Result" and r.variant == 1) or (t == "Option" and r.variant == 0) or (t == "ControlFlow" and r.variant == 1):
                    return r
    if op == "partition":
        l, r = [], []
        while True:
            x = it.nxt(I)
            if x is END:
                break
            (l if I.branch_bool(I.callf(a[1], [Ref([x], 0)])) else r).append(x)
        return [RVec(l), RVec(r)]
    if op in ("max", "min"):
        xs = it.drain(I)
        if not xs:
            return NONE()
        best = xs[0]
        for x in xs[1:]:
            c = cmp_vals(I, deref(x), deref(best))
            if (op == "max" and c >= 0) or (op == "min" and c < 0):
                best = x
        return SOME(best)
    if op in ("max_by_key", "min_by_key"):
        xs = it.drain(I)
        if not xs:
            return NONE()
        best, bk = xs[0], I.callf(a[1], [Ref([xs[0]], 0)])
        for x in xs[1:]:
            k = I.callf(a[1], [Ref([x], 0)])
            c = cmp_vals(I, k, bk)
            if (op == "max_by_key" and c >= 0) or (op == "min_by_key" and c < 0):
                best, bk = x, k
        return SOME(best)
    if op == "sum":
        acc = 0
        for x in it.drain(I):
            acc = I.binop("Add", acc, deref(x), "usize")
        return acc
    if op == "unzip":
        xs = it.drain(I)
        return [RVec([x[0] for x in xs]), RVec([x[1] for x in xs])]
    if op == "contains":
        q = deref(a[1])
        while True:
            x = it.nxt(I)
            if x is END:
                return False
            if I.branch_bool(val_eq(I, x, q)):
                return True
    if op == "join":
        from .models_fmt import display_chars
        sep = chars_of(a[1])
        out = []
        for k, x in enumerate(it.drain(I)):
            if k:
                out += sep
            out += display_chars(I, x)
        return RString(out)
    if op == "join_with":
        from .models_fmt import JoinObj
        return JoinObj(it.drain(I), a[1])
    if op == "eq":
        xs, ys = it.drain(I), into_iter(I, a[1]).drain(I)
        return val_eq(I, xs, ys)
    raise Unsupported("iterator consumer " + op)


@model(r"^itertools::concat$")
def itertools_concat(I, a, n):
    out = []
    for x in into_iter(I, a[0]).drain(I):
        out.extend(into_iter(I, x).drain(I))
    return RVec(out)


@model(r"^<std::vec::Vec as std::iter::Extend>::extend$|^<std::collections::\w+ as std::iter::Extend>::extend$|^<std::string::String as std::iter::Extend>::extend$")
def any_extend(I, a, n):
    tgt = deref(a[0])
    items = into_iter(I, a[1]).drain(I)
    if isinstance(tgt, RVec):
        tgt.items.extend(items)
    elif isinstance(tgt, RString):
        for x in items:
            x = deref(x)
            if isinstance(x, RString):
                tgt.chars.extend(x.chars)
            else:
                tgt.chars.append(x)
    elif isinstance(tgt, RMap):
        for x in items:
            if tgt.is_set():
                map_insert(I, tgt, x, UNIT)
            else:
                map_insert(I, tgt, x[0], x[1])
    else:
        raise Unsupported("extend of %r" % (tgt,))
    return UNIT


# closures called through Fn traits ------------------------------------------------------------
@model(r"^<.* as std::ops::(Fn|FnMut|FnOnce)>::(call|call_mut|call_once)$")
def fn_call(I, a, n):
    args = a[1]
    if args == ():
        args = []
    return I.call_value(a[0], list(args))


@model(r"^std::result::Result::iter$|^std::option::Option::iter$|^std::result::Result::iter_mut$|^std::option::Option::iter_mut$")
def result_iter(I, a, n):
    r = deref(a[0])
    is_res = r.ty.split("::")[-1] == "Result"
    has = (r.variant == 0) if is_res else (r.variant == 1)
    return ListIt([Ref(r.fields, 0)] if has else [], False)


@model(r"^std::str::Chars::as_str$|^std::str::CharIndices::as_str$")
def chars_as_str(I, a, n):
    it = deref(a[0])
    if isinstance(it, ListIt):
        return RString(list(it.items[it.i:]))
    if isinstance(it, CharIndicesIt):
        return RString(list(it.chars[it.i:]))
    raise Unsupported("as_str on %r" % (it,))


@model(r"^<std::str::Chars as std::clone::Clone>::clone$|^<std::slice::Iter as std::clone::Clone>::clone$")
def iter_clone(I, a, n):
    it = deref(a[0])
    if isinstance(it, ListIt):
        c = ListIt(it.items, it.by_ref, it.kind)
        c.i = it.i
        return c
    raise Unsupported("clone of iterator %r" % (it,))
