"""Layout tables: field order of structs, variant order of enums, impl headers.

typeshare's own types come from `astdump layout` (real syn on /repo's current sources) on every
run; syn's AST types come from the syn source in the cargo registry (version pinned by
/repo/Cargo.lock), parsed here with a small scanner of its `ast_struct!` / `ast_enum!` macros.
"""
import glob
import json
import os
import re

from .values import Agg, EnumV, Unsupported

BUILTIN_ENUMS = {
    "Option": ["None", "Some"],
    "Result": ["Ok", "Err"],
    "ControlFlow": ["Continue", "Break"],
    "Either": ["Left", "Right"],
    "Cow": ["Borrowed", "Owned"],
    "Ordering": ["Less", "Equal", "Greater"],
    "Entry": ["Vacant", "Occupied"],
    "Bound": ["Included", "Excluded", "Unbounded"],
    # local enum of lazy_format 2.0.3's `write!` helper macro (expanded inside typeshare's functions)
    "Style": ["Empty", "Plain", "Format"],
}
BUILTIN_STRUCTS = {
    "Range": ["start", "end"],
    "RangeInclusive": ["start", "end", "exhausted"],
    "RangeTo": ["end"],
    "RangeFrom": ["start"],
    "RangeFull": [],
}


class Layout:
    def __init__(self):
        self.structs = {}      # last name -> [field names] (None for tuple structs -> positional)
        self.enums = {}        # last name -> [variant names]
        self.enum_fields = {}  # (enum, variant) -> [field names] or None
        self.impls = {}        # (file, line, col) -> {"trait":..., "self_ty":...}
        self.traits = {}       # trait name -> {method: has_default}
        self.qual = {}         # last name -> module path (diagnostics)
        self.syn_structs = {}  # same tables for the `syn::` / `proc_macro2::` namespace
        self.syn_enums = {}
        self.syn_enum_fields = {}
        for k, v in BUILTIN_ENUMS.items():
            self.enums[k] = v
        for k, v in BUILTIN_STRUCTS.items():
            self.structs[k] = v

    # ---- loading
    def add_astdump(self, data):
        for s in data["structs"]:
            f = s["fields"]
            self.structs[s["name"]] = [x[2:] if x.startswith("r#") else x for x in f["names"]] if f["kind"] == "named" else None
            self.qual[s["name"]] = s["mod"]
        for e in data["enums"]:
            self.enums[e["name"]] = [v["name"] for v in e["variants"]]
            self.qual[e["name"]] = e["mod"]
            for v in e["variants"]:
                f = v["fields"]
                self.enum_fields[(e["name"], v["name"])] = [x[2:] if x.startswith("r#") else x for x in f["names"]] if f["kind"] == "named" else None
        for i in data["impls"]:
            self.impls[(i["file"], i["line"], i["col"])] = {"trait": i["trait"], "self_ty": i["self_ty"].lstrip("&")}
        for t in data["traits"]:
            self.traits[t["name"]] = {m["name"]: m["default"] for m in t["methods"]}

    def add_syn(self, syn_src):
        for path in sorted(glob.glob(os.path.join(syn_src, "src", "*.rs"))):
            text = open(path).read()
            text = re.sub(r"//[^\n]*", "", text)
            text = re.sub(r"Token!\[[^\]]*\]", "Tok", text)
            for m in re.finditer(r"\bast_(struct|enum_of_structs|enum)!\s*\{", text):
                body, _ = balanced(text, m.end() - 1)
                dm = re.search(r"pub (struct|enum) (\w+)[^{;]*?(\{|;|\()", body)
                if not dm:
                    continue
                kind, name = dm.group(1), dm.group(2)
                if dm.group(3) != "{":
                    continue
                inner, _ = balanced(body, dm.end() - 1)
                if kind == "struct":
                    names = []
                    for part in split_commas(inner):
                        part = re.sub(r"#\[[^\]]*\]", "", part).strip()
                        fm = re.match(r"(?:pub(?:\([^)]*\))? )?(\w+)\s*:", part)
                        if fm:
                            names.append(fm.group(1))
                    self.syn_structs.setdefault(name, names)
                else:
                    vs = []
                    for part in split_commas(inner):
                        part = re.sub(r"#\[[^\]]*\]", "", part).strip()
                        vm = re.match(r"(\w+)", part)
                        if vm:
                            vs.append(vm.group(1))
                            if "{" in part:
                                finner, _ = balanced(part, part.index("{"))
                                fn = []
                                for fp in split_commas(finner):
                                    fm = re.match(r"\s*(?:pub )?(\w+)\s*:", re.sub(r"#\[[^\]]*\]", "", fp).strip())
                                    if fm:
                                        fn.append(fm.group(1))
                                self.syn_enum_fields[(name, vm.group(1))] = fn
                    self.syn_enums.setdefault(name, vs)

    # ---- use
    def tables(self, path):
        if path.startswith(("syn::", "proc_macro2::")):
            return self.syn_structs, self.syn_enums, self.syn_enum_fields
        return self.structs, self.enums, self.enum_fields

    def make_adt(self, path, flds, names=None):
        parts = path.split("::")
        last = parts[-1]
        structs, enums, enum_fields = self.tables(path)
        if len(parts) >= 2 and parts[-2] in enums and last in enums[parts[-2]]:
            en = parts[-2]
            if names is not None:
                order = enum_fields.get((en, last))
                if order and set(order) == set(names):
                    d = dict(zip(names, flds))
                    flds = [d[n] for n in order]
            return EnumV("::".join(parts[:-1]), enums[en].index(last), flds)
        if names is not None:
            order = structs.get(last)
            if order and set(order) == set(names):
                d = dict(zip(names, flds))
                return Agg(path, [d[n] for n in order])
            if all(n.isdigit() for n in names):
                d = dict(zip(names, flds))
                return Agg(path, [d[str(i)] for i in range(len(flds))])
            return Agg(path, list(flds))
        if last in ("Some", "None", "Ok", "Err", "Continue", "Break", "Left", "Right", "Borrowed", "Owned"):
            tab = {"Some": ("Option", 1), "None": ("Option", 0), "Ok": ("Result", 0), "Err": ("Result", 1),
                   "Continue": ("ControlFlow", 0), "Break": ("ControlFlow", 1), "Left": ("Either", 0), "Right": ("Either", 1),
                   "Borrowed": ("Cow", 0), "Owned": ("Cow", 1)}
            t, i = tab[last]
            return EnumV(t, i, flds)
        return Agg(path, list(flds))

    def unit_value(self, path):
        parts = path.split("::")
        structs, enums, _ = self.tables(path)
        if len(parts) >= 2 and parts[-2] in enums and parts[-1] in enums[parts[-2]]:
            return EnumV("::".join(parts[:-1]), enums[parts[-2]].index(parts[-1]), [])
        if parts[-1] in structs and structs[parts[-1]] == []:
            return Agg(path, [])
        return None

    def variant_index(self, enum, variant):
        return self.enums[enum].index(variant)

    def field_index(self, struct, field):
        return self.structs[struct].index(field)


def balanced(text, open_idx):
    """text[open_idx] is an opening bracket; returns (inner text, index after the closing bracket)."""
    pairs = {"{": "}", "(": ")", "[": "]"}
    o = text[open_idx]
    c = pairs[o]
    depth = 0
    i = open_idx
    n = len(text)
    while i < n:
        ch = text[i]
        if ch == '"':
            i += 1
            while i < n and text[i] != '"':
                if text[i] == "\\":
                    i += 1
                i += 1
        elif ch == o:
            depth += 1
        elif ch == c:
            depth -= 1
            if depth == 0:
                return text[open_idx + 1:i], i + 1
        i += 1
    raise Unsupported("unbalanced bracket in syn source")


def split_commas(s):
    out, depth, cur = [], 0, []
    prev = ""
    for ch in s:
        if ch in "([{<":
            depth += 1
        elif ch in ")]}":
            depth -= 1
        elif ch == ">" and prev not in "-=":
            depth -= 1
        prev = ch
        if ch == "," and depth == 0:
            out.append("".join(cur))
            cur = []
        else:
            cur.append(ch)
    if "".join(cur).strip():
        out.append("".join(cur))
    return out
