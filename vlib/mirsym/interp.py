"""Symbolic interpreter for rustc MIR (KLEE-style forking by deterministic re-execution).

Symbolic scalars, concrete shapes. A branch on a symbolic condition asks z3 which successors are
feasible under the current path condition, takes the first and queues the other decision
prefixes; a queued path is explored by re-executing the entry with its prefix.
"""
import re
import time

import z3

from .mirparse import compile_func, strip_generics, normalize, INT_TYPES, split_top
from .values import *  # noqa

MASK = {8: 0xFF, 16: 0xFFFF, 32: 0xFFFFFFFF, 64: (1 << 64) - 1, 128: (1 << 128) - 1}


def to_signed(v, w):
    v &= MASK[w]
    return v - (1 << w) if v >> (w - 1) else v


class Program:
    """MIR functions + layout tables + models, shared by every path."""

    def __init__(self, funcs, layout, models, crate_prefix=""):
        self.overloads = funcs.pop("#overloads", {})
        self.allocs = funcs.pop("#allocs", {})
        self.funcs = funcs
        self.layout = layout
        self.models = models          # list of (compiled regex, fn)
        self.resolve_cache = {}
        self.closure_index = {}
        self.const_cache = {}
        for name, f in funcs.items():
            if "{closure#" in name and f.params:
                m = re.search(r"\{closure@[^}]*\}", f.params[0][1])
                if m and name.rsplit("::", 1)[-1].startswith("{closure#"):
                    self.closure_index.setdefault(m.group(0), []).append(name)
        # method table: (self_ty_last, trait_last|None, method) -> fn name
        self.methods = {}
        for name in funcs:
            m = re.match(r"^(.*?)<impl at ([^>]*?):(\d+):(\d+): \d+:\d+>::([A-Za-z_0-9]+)$", name)
            if m:
                key = (m.group(2), int(m.group(3)), int(m.group(4)))
                imp = layout.impls.get(key)
                if imp:
                    tr = imp["trait"]
                    if tr == "Error":   # thiserror derive: Display, From and Error impls share the derive span
                        tr = {"fmt": "Display", "from": "From", "source": "Error"}.get(m.group(5), tr)
                    self.methods.setdefault((imp["self_ty"], tr, m.group(5)), name)
        self.trait_defaults = {}
        for name in funcs:
            parts = name.split("::")
            if len(parts) >= 2 and parts[-2] in layout.traits:
                self.trait_defaults[(parts[-2], parts[-1])] = name

    def find_model(self, name):
        for rx, fn in self.models:
            if rx.search(name):
                return fn
        return None


class Interp:
    def __init__(self, prog, max_steps=5_000_000):
        self.prog = prog
        self.solver = z3.Solver()
        self.prefix = []
        self.trace = []
        self.worklist = []
        self.pc = []
        self.steps = 0
        self.max_steps = max_steps
        self.queries = 0
        self.solver_s = 0.0
        self.statics = {}
        self.called = set()
        self.models_hit = set()
        self.stack = []
        self.notes = []
        self.env = {}           # per-path environment for models (fs, hash order, ...)

    # ------------------------------------------------------------------ solver / forking
    def _check(self, *extra):
        t = time.time()
        self.queries += 1
        r = self.solver.check(*extra)
        self.solver_s += time.time() - t
        return r

    def assume(self, c):
        if isinstance(c, bool):
            if not c:
                raise PathEnd()
            return
        self.solver.add(c)
        self.pc.append(c)

    def branch(self, conds):
        """conds: mutually exclusive + exhaustive z3 Bools. Returns the chosen index."""
        pos = len(self.trace)
        if pos < len(self.prefix):
            k = self.prefix[pos]
            self.trace.append(k)
            self.solver.add(conds[k])
            self.pc.append(conds[k])
            return k
        feas = []
        for k, c in enumerate(conds):
            r = self._check(c)
            if r == z3.sat:
                feas.append(k)
            elif r == z3.unknown:
                raise Unsupported("solver returned unknown at a branch")
        if not feas:
            raise PathEnd()
        k = feas[0]
        for o in feas[1:]:
            self.worklist.append(self.trace + [o])
        self.trace.append(k)
        self.solver.add(conds[k])
        self.pc.append(conds[k])
        return k

    def branch_bool(self, c):
        if isinstance(c, bool):
            return c
        if isinstance(c, int):
            return bool(c)
        c = z3.simplify(c)
        if z3.is_true(c):
            return True
        if z3.is_false(c):
            return False
        return self.branch([c, z3.Not(c)]) == 0

    def choose(self, n, what="choice"):
        """nondeterministic choice among n alternatives (environment nondeterminism): forks."""
        if n <= 1:
            return 0
        pos = len(self.trace)
        if pos < len(self.prefix):
            k = self.prefix[pos]
            self.trace.append(k)
            return k
        for o in range(n - 1, 0, -1):
            self.worklist.append(self.trace + [o])
        self.trace.append(0)
        return 0

    def concretize_index(self, idx, n):
        """fork on the value of a symbolic index in [0,n); returns n if out of range."""
        if not is_sym(idx):
            return idx
        idx = z3.simplify(idx)
        if z3.is_bv_value(idx):
            return idx.as_long()
        conds = [idx == z3.BitVecVal(k, idx.size()) for k in range(n)] + [z3.UGE(idx, z3.BitVecVal(n, idx.size()))]
        return self.branch(conds)

    def concretize_int(self, v, lo, hi, what="int"):
        """fork on a symbolic integer known to be within [lo,hi]."""
        if not is_sym(v):
            return v
        v = z3.simplify(v)
        if z3.is_bv_value(v):
            return v.as_long()
        conds = [v == z3.BitVecVal(k, v.size()) for k in range(lo, hi + 1)]
        conds.append(z3.Not(z3.Or(conds)))
        k = self.branch(conds)
        if k == hi - lo + 1:
            raise Unsupported("symbolic %s outside [%d,%d]" % (what, lo, hi))
        return lo + k

    def explore(self, entry, max_paths=200000):
        """entry(interp) -> result; yields (kind, result, pc, interp-state) per path."""
        self.worklist = [[]]
        npaths = 0
        while self.worklist:
            self.prefix = self.worklist.pop()
            self.trace = []
            self.pc = []
            self.solver = z3.Solver()
            self.statics = {}
            self.stack = []
            self.env = {}
            self.steps = 0
            npaths += 1
            if npaths > max_paths:
                raise Unsupported("path budget exhausted (%d)" % max_paths)
            try:
                res = entry(self)
                yield ("ok", res, list(self.pc))
            except Panic as p:
                yield ("panic", p, list(self.pc))
            except PathEnd:
                continue

    def sat_model(self, *extra):
        """check pc + extra; returns a z3 model or None (unsat). unknown -> Unsupported."""
        r = self._check(*extra)
        if r == z3.sat:
            return self.solver.model()
        if r == z3.unknown:
            raise Unsupported("solver returned unknown on a post-condition")
        return None

    # ------------------------------------------------------------------ static types
    def static_ty(self, f, op):
        k = op[0]
        if k == "const":
            m = re.search(r"_(u8|u16|u32|u64|u128|usize|i8|i16|i32|i64|i128|isize)$", op[1])
            if m:
                return m.group(1)
            if op[1].startswith("'"):
                return "char"
            if op[1] in ("true", "false"):
                return "bool"
            return None
        if k in ("copy", "move"):
            return self.place_ty(f, op[1])
        return None

    def place_ty(self, f, p):
        k = p[0]
        if k == "local":
            return f.locals.get(p[1])
        if k == "field":
            return p[3]
        if k == "deref":
            t = self.place_ty(f, p[1])
            if t:
                t = t.strip()
                for pre in ("&mut ", "&", "*const ", "*mut "):
                    if t.startswith(pre):
                        t = t[len(pre):]
                        t = re.sub(r"^'\w+ (mut )?", "", t)
                        return t
                if t.startswith("std::boxed::Box<"):
                    return t[len("std::boxed::Box<"):-1]
            return None
        if k in ("index", "cindex"):
            t = self.place_ty(f, p[1])
            if t and t.startswith("["):
                inner = t[1:-1]
                return split_top(inner, ";")[0]
            return None
        return None

    # ------------------------------------------------------------------ places
    def place_ref(self, fr, p):
        k = p[0]
        if k == "local":
            return Ref(fr, p[1])
        if k == "deref":
            v = self.place_ref(fr, p[1]).get()
            if isinstance(v, Ref):
                return v
            if isinstance(v, BoxV):
                return Ref(v.cell, 0)
            # reference to an unsized / by-value modelled object: the value itself is the pointee
            return Ref([v], 0)
        if k == "field":
            base = self.place_ref(fr, p[1]).get()
            if isinstance(base, (Agg, EnumV, Closure)):
                try:
                    base.fields[p[2]]
                except IndexError:
                    raise Unsupported("field %d of %r" % (p[2], base))
                return Ref(base.fields, p[2])
            if isinstance(base, list):
                return Ref(base, p[2])
            if isinstance(base, BoxV):
                # (_b.0: Unique<T>).0: NonNull<T> -- identity on the box model
                return Ref([base], 0)
            if isinstance(base, Uninit):
                if p[3].startswith(("std::mem::ManuallyDrop", "std::mem::MaybeDangling", "core::mem::")):
                    return Ref([base], 0)
                return Ref(base.slot, 0)
            if isinstance(base, tuple) and base == ():
                raise Unsupported("field of unit")
            hook = getattr(base, "field_ref", None)
            if hook:
                return hook(self, p[2], p[3])
            raise Unsupported("field .%d of %r" % (p[2], base))
        if k == "downcast":
            return self.place_ref(fr, p[1])
        if k == "index":
            base = self.place_ref(fr, p[1]).get()
            idx = fr[p[2]]
            n = self.len_of(base)
            idx = self.concretize_index(idx, n)
            if idx >= n:
                raise Panic("index out of bounds: the len is %d but the index is %d" % (n, idx))
            if isinstance(base, SliceRef):
                return Ref(base.items, base.lo + idx)
            if isinstance(base, RVec):
                return Ref(base.items, idx)
            if isinstance(base, list):
                return Ref(base, idx)
            raise Unsupported("index of %r" % (base,))
        if k == "cindex":
            base = self.place_ref(fr, p[1]).get()
            i = p[2]
            n = self.len_of(base)
            if p[3]:
                i = n - i
            if isinstance(base, SliceRef):
                return Ref(base.items, base.lo + i)
            if isinstance(base, RVec):
                return Ref(base.items, i)
            return Ref(base, i)
        if k == "subslice":
            base = self.place_ref(fr, p[1]).get()
            n = self.len_of(base)
            a = p[2]
            b = p[3]
            hi = n - int(b[1:]) if b.startswith("-") else (int(b) if b else n)
            if isinstance(base, SliceRef):
                return Ref([SliceRef(base.items, base.lo + a, base.lo + hi)], 0)
            return Ref([SliceRef(base, a, hi)], 0)
        raise Unsupported("place kind " + k)

    def len_of(self, v):
        v = deref(v)
        if isinstance(v, SliceRef):
            return len(v)
        if isinstance(v, RVec):
            return len(v.items)
        if isinstance(v, list):
            return len(v)
        if isinstance(v, RString):
            return self.str_byte_len(v)
        raise Unsupported("len_of %r" % (v,))

    # ------------------------------------------------------------------ operands / consts
    def operand(self, fr, op):
        k = op[0]
        if k == "copy":
            return self.copy_val(self.place_ref(fr, op[1]).get())
        if k == "move":
            return self.place_ref(fr, op[1]).get()
        if k == "const":
            return self.const(op[1])
        if k == "fnitem":
            return FnItem(op[1])
        raise Unsupported("operand " + k)

    def copy_val(self, v):
        if isinstance(v, Agg):
            return Agg(v.ty, [self.copy_val(x) for x in v.fields])
        if isinstance(v, EnumV):
            return EnumV(v.ty, v.variant, [self.copy_val(x) for x in v.fields])
        if isinstance(v, list):
            return [self.copy_val(x) for x in v]
        if isinstance(v, Closure):
            return Closure(v.key, [self.copy_val(x) for x in v.fields], v.body)
        return v

    def const(self, s):
        m = re.match(r"^(-?\d+)_(u8|u16|u32|u64|u128|usize|i8|i16|i32|i64|i128|isize)$", s)
        if m:
            return int(m.group(1))
        if s == "true":
            return True
        if s == "false":
            return False
        if s == "()":
            return UNIT
        if s.startswith("'"):
            return parse_char_lit(s)
        if s.startswith('"'):
            return RString(parse_str_lit(s))
        if s.startswith('b"'):
            return parse_bytes_lit(s)
        if s.startswith("ZeroSized: "):
            t = s[len("ZeroSized: "):]
            if t.startswith("{closure@"):
                m = re.match(r"\{closure@[^}]*\}", t)
                return Closure(m.group(0), [], self.closure_body(m.group(0)))
            return self.zero_sized(t)
        ng = strip_generics(s)
        if ng.endswith("::None") and "Option" in ng:
            return NONE()
        if s.startswith("std::iter::Empty::<"):
            from .models_iter import ListIt
            return ListIt([], False)
        if s.startswith("std::marker::PhantomData"):
            return UNIT
        if "::promoted[" in s:
            return self.call_static(s, [])
        f = self.prog.funcs.get(s) or self.prog.funcs.get(ng)
        if f is not None and f.is_const:
            return self.call_static(f.name, [])
        am = re.match(r"^\{(alloc\d+): &", s)
        if am and am.group(1) in self.prog.allocs:
            # reference to a static: its initialiser is evaluated once per path
            name = self.prog.allocs[am.group(1)]
            cell = self.env.setdefault("static-cells", {})
            if name not in cell:
                cell[name] = [self.call_static(name, [])]
            return Ref(cell[name], 0)
        if re.match(r"^\{(alloc|transmute)", s):
            return Opaque("const-alloc", s)
        # unit-like enum variant or unit struct constant, associated const, fn item
        v = self.prog.layout.unit_value(ng)
        if v is not None:
            return v
        r = self.resolve(s)
        if r is not None and r[0] == "mir" and self.prog.funcs[r[1]].is_const:
            return self.call_static(r[1], [])
        mdl = self.prog.find_model("const " + ng)
        if mdl is not None:
            return mdl(self, [], s)
        return FnItem(s)

    def zero_sized(self, t):
        ng = strip_generics(t)
        v = self.prog.layout.unit_value(ng)
        if v is not None:
            return v
        return FnItem(t)

    # ------------------------------------------------------------------ rvalues
    def rvalue(self, f, fr, rv):
        k = rv[0]
        if k == "use":
            return self.operand(fr, rv[1])
        if k == "ref":
            return self.place_ref(fr, rv[1])
        if k == "adt":
            flds = [self.operand(fr, o) for o in rv[2]]
            return self.prog.layout.make_adt(rv[1], flds, rv[3])
        if k == "discr":
            v = self.place_ref(fr, rv[1]).get()
            if isinstance(v, EnumV):
                if v.ty == "Ordering" or v.ty.endswith("::Ordering"):
                    return v.variant - 1      # Less = -1, Equal = 0, Greater = 1
                return v.variant
            d = getattr(v, "discriminant", None)
            if d is not None:
                return d(self)
            if isinstance(v, bool):
                return int(v)
            if isinstance(v, int):
                return v
            raise Unsupported("discriminant of %r" % (v,))
        if k == "tuple":
            if not rv[1]:
                return UNIT
            return [self.operand(fr, o) for o in rv[1]]
        if k == "array":
            return [self.operand(fr, o) for o in rv[1]]
        if k == "closure":
            body = self.closure_body(rv[1])
            caps = [self.operand(fr, o) for o in rv[2]]
            need = self.captures_needed(body)
            if need > len(caps) and len(rv) > 3:
                for nm in rv[3]:
                    if len(caps) >= need:
                        break
                    if nm in fr:
                        caps.append(fr[nm])
            if need > len(caps):
                raise Unsupported("closure %s needs %d captures, the MIR text shows %d" % (rv[1], need, len(caps)))
            return Closure(rv[1], caps, body)
        if k == "cast":
            v = self.operand(fr, rv[1])
            return self.cast(v, rv[2], rv[3], self.static_ty(f, rv[1]))
        if k == "binop":
            a = self.operand(fr, rv[2])
            b = self.operand(fr, rv[3])
            ty = self.static_ty(f, rv[2]) or self.static_ty(f, rv[3])
            return self.binop(rv[1], a, b, ty)
        if k == "unop":
            v = self.operand(fr, rv[2])
            if rv[1] == "Not":
                if is_sym(v):
                    return z3.Not(v) if z3.is_bool(v) else ~v
                if isinstance(v, bool):
                    return not v
                ty = self.static_ty(f, rv[2]) or "usize"
                return (~v) & MASK[INT_TYPES[ty][0]]
            if rv[1] == "Neg":
                if is_sym(v):
                    return -v
                return -v
            if rv[1] == "PtrMetadata":
                return self.len_of(v)
        if k == "len":
            return self.len_of(self.place_ref(fr, rv[1]).get())
        if k == "repeat":
            v = self.operand(fr, rv[1])
            n = self.const(rv[2].replace("const ", "")) if rv[2].startswith("const ") else int(re.match(r"(\d+)", rv[2]).group(1))
            return [self.copy_val(v) for _ in range(n)]
        raise Unsupported("rvalue " + k)

    def cast(self, v, ty, kind, src_ty=None):
        if kind == "IntToInt":
            if ty not in INT_TYPES:
                raise Unsupported("cast to " + ty)
            w, signed = INT_TYPES[ty]
            sw, ssigned = INT_TYPES.get(src_ty or "", (None, False))
            if isinstance(v, bool):
                v = int(v)
            if is_sym(v):
                if z3.is_bool(v):
                    v = z3.If(v, z3.BitVecVal(1, w), z3.BitVecVal(0, w))
                    return v
                if v.size() > w:
                    return z3.Extract(w - 1, 0, v)
                if v.size() < w:
                    return z3.SignExt(w - v.size(), v) if ssigned else z3.ZeroExt(w - v.size(), v)
                return v
            v = v & MASK[w]
            return to_signed(v, w) if signed else v
        if kind == "PointerCoercion":
            if isinstance(v, Ref):
                t = v.get()
                if isinstance(t, list):
                    return SliceRef(t, 0, len(t))
            return v
        if kind == "Transmute":
            if isinstance(v, BoxV):
                return Ref(v.cell, 0)
            return v
        if kind in ("PtrToPtr", "Subtype", "MutToConstPointer", "PointerExposeProvenance", "FnPtrToPtr"):
            return v
        raise Unsupported("cast %s to %s" % (kind, ty))

    def binop(self, op, a, b, ty=None):
        if isinstance(a, Ref) or isinstance(b, Ref):
            if op == "Eq":
                return a.c is b.c and a.k == b.k
            if op == "Ne":
                return not (a.c is b.c and a.k == b.k)
        if not (is_sym(a) or is_sym(b)):
            if isinstance(a, bool) or isinstance(b, bool):
                if op == "Eq": return a == b
                if op == "Ne": return a != b
                if op == "BitAnd": return bool(a) and bool(b)
                if op == "BitOr": return bool(a) or bool(b)
                if op == "BitXor": return bool(a) != bool(b)
                if op in ("Lt", "Le", "Gt", "Ge"):
                    a, b = int(a), int(b)
                else:
                    raise Unsupported("bool binop " + op)
            w, signed = INT_TYPES.get(ty or "usize", (64, False))
            if op == "Eq": return a == b
            if op == "Ne": return a != b
            if op == "Lt": return a < b
            if op == "Le": return a <= b
            if op == "Gt": return a > b
            if op == "Ge": return a >= b
            if op == "Cmp":
                return EnumV("Ordering", 0 if a < b else (1 if a == b else 2), [])
            lo, hi = (-(1 << (w - 1)), (1 << (w - 1)) - 1) if signed else (0, MASK[w])

            def wrap(x):
                x &= MASK[w]
                return to_signed(x, w) if signed else x
            if op in ("Add", "AddUnchecked"): return wrap(a + b)
            if op in ("Sub", "SubUnchecked"): return wrap(a - b)
            if op in ("Mul", "MulUnchecked"): return wrap(a * b)
            if op == "AddWithOverflow": return [wrap(a + b), not (lo <= a + b <= hi)]
            if op == "SubWithOverflow": return [wrap(a - b), not (lo <= a - b <= hi)]
            if op == "MulWithOverflow": return [wrap(a * b), not (lo <= a * b <= hi)]
            if op == "Div":
                if b == 0: raise Panic("attempt to divide by zero")
                q = abs(a) // abs(b)
                return wrap(q if (a < 0) == (b < 0) else -q)
            if op == "Rem":
                if b == 0: raise Panic("attempt to calculate the remainder with a divisor of zero")
                r = abs(a) % abs(b)
                return wrap(r if a >= 0 else -r)
            if op == "BitAnd": return a & b
            if op == "BitOr": return a | b
            if op == "BitXor": return a ^ b
            if op in ("Shl", "ShlUnchecked"): return wrap(a << (b & (w - 1)))
            if op in ("Shr", "ShrUnchecked"): return wrap(a >> (b & (w - 1)))
            raise Unsupported("binop " + op)
        bw = None
        for x in (a, b):
            if is_sym(x) and z3.is_bv(x):
                bw = x.size()
        if bw is None:
            A = a if is_sym(a) else z3.BoolVal(bool(a))
            B = b if is_sym(b) else z3.BoolVal(bool(b))
            if op == "Eq": return A == B
            if op == "Ne": return A != B
            if op == "BitAnd": return z3.And(A, B)
            if op == "BitOr": return z3.Or(A, B)
            if op == "BitXor": return z3.Xor(A, B)
            raise Unsupported("symbolic bool binop " + op)
        signed = INT_TYPES.get(ty or "", (bw, False))[1]
        A = a if is_sym(a) else z3.BitVecVal(a, bw)
        B = b if is_sym(b) else z3.BitVecVal(b, bw)
        if A.size() != B.size():
            raise Unsupported("binop width mismatch %s: %d vs %d" % (op, A.size(), B.size()))
        if op == "Eq": return A == B
        if op == "Ne": return A != B
        if op == "Lt": return (A < B) if signed else z3.ULT(A, B)
        if op == "Le": return (A <= B) if signed else z3.ULE(A, B)
        if op == "Gt": return (A > B) if signed else z3.UGT(A, B)
        if op == "Ge": return (A >= B) if signed else z3.UGE(A, B)
        if op in ("Add", "AddUnchecked"): return A + B
        if op in ("Sub", "SubUnchecked"): return A - B
        if op in ("Mul", "MulUnchecked"): return A * B
        if op == "AddWithOverflow":
            ov = z3.Not(z3.And(z3.BVAddNoOverflow(A, B, signed), z3.BVAddNoUnderflow(A, B))) if signed else z3.Not(z3.BVAddNoOverflow(A, B, False))
            return [A + B, ov]
        if op == "SubWithOverflow":
            ov = z3.Not(z3.And(z3.BVSubNoOverflow(A, B), z3.BVSubNoUnderflow(A, B, signed))) if signed else z3.Not(z3.BVSubNoUnderflow(A, B, False))
            return [A - B, ov]
        if op == "MulWithOverflow":
            ov = z3.Not(z3.And(z3.BVMulNoOverflow(A, B, signed), z3.BVMulNoUnderflow(A, B))) if signed else z3.Not(z3.BVMulNoOverflow(A, B, False))
            return [A * B, ov]
        if op == "BitAnd": return A & B
        if op == "BitOr": return A | B
        if op == "BitXor": return A ^ B
        if op == "Cmp":
            lt = (A < B) if signed else z3.ULT(A, B)
            k = self.branch([lt, A == B, z3.Not(z3.Or(lt, A == B))])
            return EnumV("Ordering", k, [])
        if op in ("Shl", "ShlUnchecked"): return A << B
        if op in ("Shr", "ShrUnchecked"): return (A >> B) if signed else z3.LShR(A, B)
        if op == "Div": return (A / B) if signed else z3.UDiv(A, B)
        if op == "Rem": return z3.SRem(A, B) if signed else z3.URem(A, B)
        raise Unsupported("symbolic binop " + op)

    # ------------------------------------------------------------------ strings
    def char_width(self, c):
        if not is_sym(c):
            return 1 if c < 0x80 else 2 if c < 0x800 else 3 if c < 0x10000 else 4
        c2 = z3.simplify(c)
        if z3.is_bv_value(c2):
            return self.char_width(c2.as_long())
        k = self.branch([z3.ULT(c, 0x80), z3.And(z3.UGE(c, 0x80), z3.ULT(c, 0x800)),
                         z3.And(z3.UGE(c, 0x800), z3.ULT(c, 0x10000)), z3.UGE(c, 0x10000)])
        return k + 1

    def str_byte_len(self, s):
        return sum(self.char_width(c) for c in s.chars)

    # ------------------------------------------------------------------ calls
    def type_name(self, v):
        v = deref(v)
        if isinstance(v, BoxV):
            return self.type_name(v.cell[0])
        if isinstance(v, (Agg, EnumV)):
            return v.ty.split("::")[-1]
        if isinstance(v, RString):
            return "String"
        tn = getattr(v, "type_name", None)
        if tn:
            return tn
        return None

    def resolve(self, callee, args=None):
        """-> ("mir", fname) | ("model", fn) | ("dyn", trait, method) | None"""
        prog = self.prog
        r = prog.resolve_cache.get(callee)
        if r is not None:
            if r[0] == "dyn":
                return self.resolve_dyn(r, callee, args)
            return r
        r = self._resolve(callee)
        prog.resolve_cache[callee] = r if r is not None else ("none",)
        if r is not None and r[0] == "dyn":
            return self.resolve_dyn(r, callee, args)
        return r

    def _resolve(self, callee):
        prog = self.prog
        funcs = prog.funcs
        if callee in funcs:
            return ("mir", callee)
        base = normalize(callee)
        if base in funcs:
            return ("mir", base)
        if "::promoted[" in callee:
            # `path::Type::method[::{closure#k}]::promoted[n]`: resolve the enclosing function, then append
            cut = callee.rindex("::promoted[")
            owner = self._resolve(callee[:cut])
            if owner is not None and owner[0] in ("mir", "mirderef"):
                cand = owner[1] + callee[cut:]
                if cand in funcs:
                    return ("mir", cand)
            return None
        m2 = re.match(r"^(<.* as .*?>::[A-Za-z_0-9]+)::(.+)$", base)
        if m2 and not m2.group(2).startswith("<"):
            # items nested in a trait-impl method: `<T as Trait>::method::nested_fn`, `...::{closure#0}`
            owner = self._resolve(m2.group(1))
            if owner is not None and owner[0] in ("mir", "mirderef"):
                cand = owner[1] + "::" + m2.group(2)
                if cand in funcs:
                    return ("mir", cand)
        m = re.match(r"^<(.*) as (.*?)>::([A-Za-z_0-9]+)$", base)
        if m:
            ty, tr, meth = m.group(1).strip(), m.group(2), m.group(3)
            trl = tr.split("::")[-1]
            tyl = re.sub(r"^(&(mut )?|dyn |\*const |\*mut )+", "", ty).split("::")[-1]
            k = (tyl, trl, meth)
            if k in prog.methods and prog.methods[k] in prog.overloads:
                src = re.match(r"^<.* as [\w:]+<(.*)>>::\w+$", callee)
                want = src.group(1).strip() if src else None
                for pty, fname in prog.overloads[prog.methods[k]]:
                    if want is not None and pty.strip() == want:
                        return ("mir", fname)
                return None
            if k in prog.methods:
                nref = len(re.match(r"^((?:&(?:mut )?)*)", ty).group(1).replace("mut ", ""))
                if nref and trl in ("PartialEq", "PartialOrd", "Ord", "Eq"):
                    return ("mirderef", prog.methods[k], nref, 2)
                if nref and trl in ("Display", "Debug", "Hash"):
                    return ("mirderef", prog.methods[k], nref, 1)
                return ("mir", prog.methods[k])
            # provided methods of std comparison traits, derived from the crate's own eq / cmp / partial_cmp
            if trl == "PartialEq" and meth == "ne" and (tyl, "PartialEq", "eq") in prog.methods:
                eqf = prog.methods[(tyl, "PartialEq", "eq")]
                nref = len(re.match(r"^((?:&(?:mut )?)*)", ty).group(1).replace("mut ", ""))

                def ne_model(I, a, n, eqf=eqf, nref=nref):
                    args = list(a)
                    for k in range(2):
                        for _ in range(nref):
                            if isinstance(args[k], Ref) and isinstance(args[k].get(), Ref):
                                args[k] = args[k].get()
                    r = I.call_mir(eqf, args)
                    return z3.Not(r) if is_sym(r) else (not r)
                return ("model", ne_model)
            if trl in ("PartialOrd", "Ord") and meth in ("lt", "le", "gt", "ge", "max", "min") and ((tyl, "Ord", "cmp") in prog.methods or (tyl, "PartialOrd", "partial_cmp") in prog.methods):
                cmpf = prog.methods.get((tyl, "Ord", "cmp"))
                pcmpf = prog.methods.get((tyl, "PartialOrd", "partial_cmp"))

                def ord_model(I, a, n, cmpf=cmpf, pcmpf=pcmpf, meth=meth):
                    x = [Ref([v], 0) if not isinstance(v, Ref) else v for v in a[:2]]
                    if cmpf is not None:
                        o = deref(I.call_mir(cmpf, x)).variant - 1
                    else:
                        r = I.call_mir(pcmpf, x)
                        if r.variant == 0:
                            return False
                        o = deref(r.fields[0]).variant - 1
                    if meth in ("max", "min"):
                        return (a[1] if o <= 0 else a[0]) if meth == "max" else (a[0] if o <= 0 else a[1])
                    return {"lt": o < 0, "le": o <= 0, "gt": o > 0, "ge": o >= 0}[meth]
                return ("model", ord_model)
            if (tyl in prog.layout.structs or tyl in prog.layout.enums) and (trl, meth) in prog.trait_defaults:
                return ("mir", prog.trait_defaults[(trl, meth)])
            mdl = prog.find_model(base)
            if mdl is not None:
                return ("model", mdl)
            if trl in prog.layout.traits or re.match(r"^[A-Z][A-Za-z0-9]*$", ty) and tyl not in prog.layout.structs:
                return ("dyn", trl, meth)
            return None
        parts = base.split("::")
        if len(parts) >= 2:
            k = (parts[-2], None, parts[-1])
            if k in prog.methods:
                return ("mir", prog.methods[k])
            # closures / nested fns inside impl methods: path::Type::method::{closure#0}
            for cut in range(len(parts) - 2, 0, -1):
                k = (parts[cut - 1], None, parts[cut]) if cut >= 1 else None
                if k and k in prog.methods:
                    cand = prog.methods[k] + "::" + "::".join(parts[cut + 1:])
                    if cand in funcs:
                        return ("mir", cand)
                for tr in prog.layout.traits:
                    k2 = (parts[cut - 1], tr, parts[cut])
                    if k2 in prog.methods:
                        cand = prog.methods[k2] + "::" + "::".join(parts[cut + 1:])
                        if cand in funcs:
                            return ("mir", cand)
        mdl = prog.find_model(base)
        if mdl is not None:
            return ("model", mdl)
        return None

    def resolve_dyn(self, r, callee, args):
        _, trl, meth = r
        if not args:
            raise Unsupported("dynamic dispatch without receiver: " + callee)
        tn = self.type_name(args[0])
        k = (tn, trl, meth)
        if k in self.prog.methods:
            return ("mir", self.prog.methods[k])
        if (trl, meth) in self.prog.trait_defaults:
            return ("mir", self.prog.trait_defaults[(trl, meth)])
        mdl = self.prog.find_model("<%s as %s>::%s" % (tn, trl, meth))
        if mdl is not None:
            return ("model", mdl)
        raise Unsupported("no impl of %s::%s for run-time type %s (%s)" % (trl, meth, tn, callee))

    def call_static(self, callee, args):
        r = self.resolve(callee, args)
        if r is None or r[0] == "none":
            raise Unsupported("no MIR body and no model for call: " + callee)
        if r[0] == "mir":
            return self.call_mir(r[1], args)
        if r[0] == "mirderef":
            # std's forwarding impls for references (`impl PartialEq<&B> for &A`, `impl Display for &T`, ...)
            args = list(args)
            for k in range(min(r[3], len(args))):
                for _ in range(r[2]):
                    if isinstance(args[k], Ref) and isinstance(args[k].get(), Ref):
                        args[k] = args[k].get()
            return self.call_mir(r[1], args)
        self.models_hit.add(getattr(r[1], "__name__", "?"))
        return r[1](self, args, callee)

    def call_value(self, fv, args):
        fv = deref(fv)
        if isinstance(fv, Closure):
            return self.call_closure(fv, args)
        if isinstance(fv, FnItem):
            return self.call_static(fv.name, args)
        if isinstance(fv, BoxV):
            return self.call_value(fv.cell[0], args)
        cv = getattr(fv, "call", None)
        if cv:
            return cv(self, args)
        raise Unsupported("call of non-function value %r" % (fv,))

    def captures_needed(self, body):
        """number of captured places the closure body projects out of its environment"""
        if body is None:
            return 0
        f = self.prog.funcs[body]
        if f._ncaps is None:
            mx = -1
            for raw in f.raw_blocks.values():
                for line in raw:
                    for m in re.finditer(r"\(\(\*_1\)\.(\d+): |\(_1\.(\d+): ", line):
                        mx = max(mx, int(m.group(1) or m.group(2)))
            f._ncaps = mx + 1
        return f._ncaps

    def closure_body(self, key):
        """body of a closure created in the function on top of the call stack (spans inside macros are not unique)"""
        cands = self.prog.closure_index.get(key)
        if not cands:
            return None
        if len(cands) == 1:
            return cands[0]
        cur = self.stack[-1] if self.stack else ""
        best = [c for c in cands if c.startswith(cur + "::{closure#")]
        if len(best) == 1:
            return best[0]
        return best[0] if best else cands[0]

    def call_closure(self, clo, args):
        name = clo.body or self.closure_body(clo.key)
        if name is None:
            raise Unsupported("closure body not found: " + clo.key)
        f = self.prog.funcs[name]
        self_ty = f.params[0][1]
        first = Ref([clo], 0) if self_ty.startswith("&") else clo
        return self.call_mir(name, [first] + list(args))

    def callf(self, f, args):
        """call a closure / fn item with positional args (models use this)."""
        return self.call_value(f, args)

    def call_mir(self, name, args):
        f = self.prog.funcs[name]
        if f.is_const and not args:
            # consts/promoteds are pure: evaluate once per path (statics may hold mutable state)
            if name in self.statics:
                return self.statics[name]
        if f.blocks is None:
            compile_func(f)
        self.called.add(name)
        if len(self.stack) > 400:
            raise Unsupported("call depth exceeded in " + name)
        self.stack.append(name)
        fr = {}
        for (pn, _), a in zip(f.params, args):
            fr[pn] = a
        blocks = f.blocks
        bb = "bb0"
        try:
            while True:
                stmts, term = blocks[bb]
                for st in stmts:
                    if st[0] == "assign":
                        v = self.rvalue(f, fr, st[2])
                        p = st[1]
                        if p[0] == "local":
                            fr[p[1]] = v
                        else:
                            self.place_ref(fr, p).set(v)
                    else:  # setdiscr
                        tgt = self.place_ref(fr, st[1])
                        cur = tgt.get()
                        if isinstance(cur, EnumV):
                            cur.variant = st[2]
                        else:
                            raise Unsupported("set discriminant of %r" % (cur,))
                self.steps += len(stmts) + 1
                if self.steps > self.max_steps:
                    raise Unsupported("step budget exhausted in " + name)
                k = term[0]
                if k == "goto":
                    bb = term[1]
                elif k == "call":
                    _, dest, cal, aops, ret = term
                    cargs = [self.operand(fr, o) for o in aops]
                    if cal[0] == "static":
                        res = self.call_static(cal[1], cargs)
                    else:
                        res = self.call_value(self.operand(fr, cal[1]), cargs)
                    if ret is None:
                        raise Unsupported("diverging call returned: %s" % (cal[1],))
                    if dest is not None:
                        if dest[0] == "local":
                            fr[dest[1]] = res
                        else:
                            self.place_ref(fr, dest).set(res)
                    bb = ret
                elif k == "switch":
                    v = self.operand(fr, term[1])
                    bb = self.do_switch(v, term[2], term[3])
                elif k == "return":
                    r = fr.get("_0", UNIT)
                    if f.is_const and not args:
                        self.statics[name] = r
                    return r
                elif k == "assert":
                    _, neg, cop, msg, nxt = term
                    c = self.operand(fr, cop)
                    if neg:
                        c = z3.Not(c) if is_sym(c) else (not c)
                    if not self.branch_bool(c):
                        raise Panic("assertion failed: " + msg, name)
                    bb = nxt
                elif k == "unreachable":
                    raise Unsupported("reached `unreachable` in %s %s" % (name, bb))
                elif k == "resume":
                    raise Unsupported("reached unwind resume in " + name)
                elif k == "unsupported":
                    raise Unsupported(term[1])
                else:
                    raise Unsupported("terminator " + k)
        finally:
            self.stack.pop()

    def do_switch(self, v, tgts, other):
        if isinstance(v, bool):
            v = int(v)
        if not is_sym(v):
            for val, tb in tgts:
                if val == v or (v < 0 and val in (v + 256, v + (1 << 64), v + (1 << 128))):
                    return tb
            if other is None:
                raise Unsupported("switch without matching arm for %r" % (v,))
            return other
        if z3.is_bool(v):
            v2 = z3.simplify(v)
            if z3.is_true(v2):
                return self.do_switch(1, tgts, other)
            if z3.is_false(v2):
                return self.do_switch(0, tgts, other)
            conds, tbs = [], []
            seen0 = seen1 = False
            for val, tb in tgts:
                if val == 0:
                    conds.append(z3.Not(v)); tbs.append(tb); seen0 = True
                elif val == 1:
                    conds.append(v); tbs.append(tb); seen1 = True
            if other is not None and not (seen0 and seen1):
                conds.append(v if seen0 else z3.Not(v)); tbs.append(other)
            return tbs[self.branch(conds)]
        v2 = z3.simplify(v)
        if z3.is_bv_value(v2):
            return self.do_switch(v2.as_long(), tgts, other)
        conds, tbs, seen = [], [], []
        for val, tb in tgts:
            x = z3.BitVecVal(val, v.size())
            seen.append(x)
            conds.append(v == x)
            tbs.append(tb)
        if other is not None:
            conds.append(z3.And([v != x for x in seen]) if seen else z3.BoolVal(True))
            tbs.append(other)
        return tbs[self.branch(conds)]


# ---------------------------------------------------------------------------------- literals
_ESC = {"n": 10, "t": 9, "r": 13, "0": 0, "\\": 92, '"': 34, "'": 39}


def parse_char_lit(s):
    body = s[1:-1]
    if body.startswith("\\"):
        if body[1] == "u":
            return int(re.match(r"\\u\{([0-9a-fA-F]+)\}", body).group(1), 16)
        if body[1] == "x":
            return int(body[2:4], 16)
        return _ESC[body[1]]
    return ord(body)


def parse_str_lit(s):
    body = s[1:-1]
    if "\\" not in body:
        return [ord(c) for c in body]
    out = []
    i = 0
    while i < len(body):
        c = body[i]
        if c == "\\":
            d = body[i + 1]
            if d == "u":
                j = body.index("}", i)
                out.append(int(body[i + 3:j], 16))
                i = j + 1
            elif d == "x":
                out.append(int(body[i + 2:i + 4], 16))
                i += 4
            elif d == "\n":
                i += 2
                while i < len(body) and body[i] in " \t\n":
                    i += 1
            else:
                out.append(_ESC[d])
                i += 2
        else:
            out.append(ord(c))
            i += 1
    return out


def parse_bytes_lit(s):
    body = s[2:-1]
    out = []
    i = 0
    while i < len(body):
        c = body[i]
        if c == "\\":
            d = body[i + 1]
            if d == "x":
                out.append(int(body[i + 2:i + 4], 16))
                i += 4
            else:
                out.append(_ESC[d])
                i += 2
        else:
            out.extend(c.encode("utf-8"))
            i += 1
    return out
