"""Helpers to obtain abstract syn ASTs from Rust source (through the real syn, tools/astdump) and to
plant symbolic strings in them."""
from . import dump
from .models_syn import from_json, SynIdent, SynLitStr, SynTokens
from .values import *  # noqa


def parse_source(prog, src):
    """source text -> syn::File value (or raises Inconclusive if syn rejects the text)"""
    from ..common import Inconclusive
    cache = prog.const_cache.setdefault("parse_source", {})
    if src not in cache:
        j = dump.ast_of_source(src)
        if "error" in j:
            raise Inconclusive("harness source does not parse: %s\n%s" % (j["error"], src[:400]))
        cache[src] = j
    return from_json(cache[src], prog.layout)


def walk(v, fn, seen=None):
    """apply fn to every SynIdent / SynLitStr reachable from v (in place)"""
    if seen is None:
        seen = set()
    if id(v) in seen:
        return
    seen.add(id(v))
    if isinstance(v, (SynIdent, SynLitStr)):
        fn(v)
    elif isinstance(v, (Agg, EnumV, Closure)):
        for x in v.fields:
            walk(x, fn, seen)
    elif isinstance(v, RVec):
        for x in v.items:
            walk(x, fn, seen)
    elif isinstance(v, list):
        for x in v:
            walk(x, fn, seen)
    elif isinstance(v, BoxV):
        walk(v.cell[0], fn, seen)
    elif isinstance(v, SynTokens):
        fn(v)
        if v.metas is not None:
            for m in v.metas:
                walk(m, fn, seen)
    elif isinstance(v, Ref):
        walk(v.get(), fn, seen)


def plant(v, mapping):
    """replace the text of identifiers / string literals that equal a placeholder by the given char list.
    mapping: placeholder text -> list of chars (ints or z3 terms)"""
    def fn(node):
        if isinstance(node, SynTokens):
            node.mapping = dict(node.mapping or {}, **mapping)
            return
        s = node.s
        if all(isinstance(c, int) for c in s.chars):
            key = "".join(chr(c) for c in s.chars)
            if key in mapping:
                node.s = RString(list(mapping[key]))
    walk(v, fn)
    return v


def file_items(prog, f):
    L = prog.layout
    return f.fields[L.syn_structs["File"].index("items")].items


def item_payload(item):
    return item.fields[0]


def attrs_of(prog, node):
    tn = node.ty.split("::")[-1]
    return node.fields[prog.layout.syn_structs[tn].index("attrs")]
