"""Entry through `parser::parse` itself (text pre-filter + syn::parse_file + visitor) instead of the visitor alone.

The source text handed to `parse` is the harness text with every placeholder replaced by its symbolic characters, so textual
tests in `parse` (`source_code.contains("#[typeshare")` and whatever a change may add next to it) are decided by the solver over
the same symbols the AST carries.  `syn::parse_file` is a model: the real syn (tools/astdump) parses the template text and the
placeholders are planted into the resulting AST (models_syn's `syn::parse_file` asks I.env["parse_file"] for it)."""
import re

from .values import *  # noqa
from .models_misc import RPath
from . import synast, pharness


def symbolic_text(src, mapping):
    """template text -> char list with placeholders replaced (longest placeholder first)"""
    if not mapping:
        return [ord(c) for c in src]
    keys = sorted(mapping, key=len, reverse=True)
    rx = re.compile("|".join(re.escape(k) for k in keys))
    out, pos = [], 0
    for m in rx.finditer(src):
        out += [ord(c) for c in src[pos:m.start()]]
        out += list(mapping[m.group(0)])
        pos = m.end()
    out += [ord(c) for c in src[pos:]]
    return out


def ast_for(I, src, mapping):
    """the real syn's AST of the template text with the placeholders planted (None if syn rejects the text)"""
    from . import dump
    from .models_syn import from_json
    cache = I.prog.const_cache.setdefault("parse_source", {})
    if src not in cache:
        cache[src] = dump.ast_of_source(src)
    j = cache[src]
    if "error" in j:
        return None
    f = from_json(j, I.prog.layout)
    if mapping:
        synast.plant(f, mapping)
    return f


def run_parse(I, src, mapping=None, target_os=(), multi_file=False, crate="", file_name="", file_path="", ignored=()):
    """parser::parse(&ParseContext, ParseFileContext) -> Result<Option<ParsedData>, ParseError> value"""
    prog = I.prog
    L = prog.layout
    ctx = pharness.parse_context(prog, target_os, multi_file, ignored)
    vals = {"source_code": RString(symbolic_text(src, mapping or {})), "crate_name": pharness.crate_name(prog, crate), "file_name": S(file_name), "file_path": RPath(S(file_path))}
    names = L.structs["ParseFileContext"]
    pfc = L.make_adt("context::ParseFileContext", [vals[k] for k in names], list(names))
    old = I.env.get("parse_file")
    I.env["parse_file"] = lambda I_, text: ast_for(I_, src, dict(mapping or {}))
    try:
        return I.call_static("parser::parse", [Ref([ctx], 0), pfc])
    finally:
        if old is None:
            I.env.pop("parse_file", None)
        else:
            I.env["parse_file"] = old
