"""HashMap / HashSet / BTreeMap / BTreeSet: exact lookups, environment-chosen hash iteration order."""
import re

from .values import *  # noqa
from .models_core import model, meth, map_find, map_insert, map_iter_order, clone_val, val_eq, default_of, first_generic
from .models_iter import ListIt, into_iter

MAPS = r"(HashMap|BTreeMap|HashSet|BTreeSet)"


def kind_of(n):
    m = re.search(MAPS, n)
    return m.group(1)


@model(r"^std::collections::" + MAPS + r"::new$|^<std::collections::" + MAPS + r" as std::default::Default>::default$|^std::collections::" + MAPS + r"::with_capacity$")
def map_new(I, a, n):
    return RMap(kind_of(n))


@model(r"^<std::collections::" + MAPS + r" as std::convert::From>::from$")
def map_from(I, a, n):
    kind = kind_of(n)
    m = RMap(kind)
    for x in into_iter(I, a[0]).drain(I):
        if kind.endswith("Set"):
            map_insert(I, m, x, UNIT)
        else:
            map_insert(I, m, x[0], x[1])
    return m


@model(r"^std::collections::(HashMap|BTreeMap)::get$|^std::collections::(HashMap|BTreeMap)::get_mut$")
def map_get(I, a, n):
    e = map_find(I, deref(a[0]), deref(a[1]))
    return SOME(Ref(e, 1)) if e is not None else NONE()


@model(r"^std::collections::(HashMap|BTreeMap)::contains_key$|^std::collections::(HashSet|BTreeSet)::contains$")
def map_contains(I, a, n):
    return map_find(I, deref(a[0]), deref(a[1])) is not None


@model(r"^std::collections::(HashSet|BTreeSet)::get$")
def set_get(I, a, n):
    e = map_find(I, deref(a[0]), deref(a[1]))
    return SOME(Ref(e, 0)) if e is not None else NONE()


@model(r"^std::collections::(HashMap|BTreeMap)::insert$")
def mapinsert(I, a, n):
    old, _ = map_insert(I, deref(a[0]), a[1], a[2])
    return SOME(old) if old is not None else NONE()


@model(r"^std::collections::(HashSet|BTreeSet)::insert$")
def setinsert(I, a, n):
    m = deref(a[0])
    e = map_find(I, m, a[1])
    if e is not None:
        return False
    m.entries.append([a[1], UNIT])
    return True


@model(r"^std::collections::(HashMap|BTreeMap)::remove$")
def map_remove(I, a, n):
    m = deref(a[0])
    e = map_find(I, m, deref(a[1]))
    if e is None:
        return NONE()
    m.entries.remove(e)
    return SOME(e[1])


@model(r"^std::collections::(HashSet|BTreeSet)::remove$")
def set_remove(I, a, n):
    m = deref(a[0])
    e = map_find(I, m, deref(a[1]))
    if e is None:
        return False
    m.entries.remove(e)
    return True


@model(r"^std::collections::" + MAPS + r"::(len)$")
def map_len(I, a, n):
    return len(deref(a[0]).entries)


@model(r"^std::collections::" + MAPS + r"::is_empty$")
def map_is_empty(I, a, n):
    return len(deref(a[0]).entries) == 0


@model(r"^std::collections::" + MAPS + r"::clear$")
def map_clear(I, a, n):
    del deref(a[0]).entries[:]
    return UNIT


@model(r"^std::collections::(HashMap|BTreeMap)::(iter|iter_mut)$")
def map_iter(I, a, n):
    m = deref(a[0])
    return ListIt([[Ref(e, 0), Ref(e, 1)] for e in map_iter_order(I, m)], False)


@model(r"^std::collections::(HashMap|BTreeMap)::keys$")
def map_keys(I, a, n):
    return ListIt([Ref(e, 0) for e in map_iter_order(I, deref(a[0]))], False)


@model(r"^std::collections::(HashMap|BTreeMap)::(values|values_mut)$")
def map_values(I, a, n):
    return ListIt([Ref(e, 1) for e in map_iter_order(I, deref(a[0]))], False)


@model(r"^std::collections::(HashMap|BTreeMap)::(into_keys)$")
def map_into_keys(I, a, n):
    return ListIt([e[0] for e in map_iter_order(I, deref(a[0]))], False)


@model(r"^std::collections::(HashMap|BTreeMap)::(into_values)$")
def map_into_values(I, a, n):
    return ListIt([e[1] for e in map_iter_order(I, deref(a[0]))], False)


@model(r"^std::collections::(HashSet|BTreeSet)::iter$")
def set_iter(I, a, n):
    return ListIt([Ref(e, 0) for e in map_iter_order(I, deref(a[0]))], False)


@model(r"^std::collections::HashSet::drain$|^std::collections::HashMap::drain$")
def set_drain(I, a, n):
    m = deref(a[0])
    es = map_iter_order(I, m)
    m.entries = []
    if m.is_set():
        return ListIt([e[0] for e in es], False)
    return ListIt([[e[0], e[1]] for e in es], False)


@model(r"^std::collections::(HashSet|BTreeSet)::difference$")
def set_difference(I, a, n):
    x, y = deref(a[0]), deref(a[1])
    out = []
    for e in map_iter_order(I, x):
        if map_find(I, y, e[0]) is None:
            out.append(Ref(e, 0))
    return ListIt(out, False)


@model(r"^std::collections::(HashSet|BTreeSet)::(union|intersection)$")
def set_union(I, a, n):
    x, y = deref(a[0]), deref(a[1])
    out = []
    if meth(n) == "intersection":
        for e in map_iter_order(I, x):
            if map_find(I, y, e[0]) is not None:
                out.append(Ref(e, 0))
    else:
        for e in map_iter_order(I, x):
            out.append(Ref(e, 0))
        for e in map_iter_order(I, y):
            if map_find(I, x, e[0]) is None:
                out.append(Ref(e, 0))
    return ListIt(out, False)


@model(r"^std::collections::(HashSet|BTreeSet)::is_subset$")
def set_is_subset(I, a, n):
    x, y = deref(a[0]), deref(a[1])
    return all(map_find(I, y, e[0]) is not None for e in x.entries)


@model(r"^std::collections::(HashMap|BTreeMap)::retain$|^std::collections::(HashSet|BTreeSet)::retain$")
def map_retain(I, a, n):
    m = deref(a[0])
    keep = []
    for e in map_iter_order(I, m):
        args = [Ref(e, 0)] if m.is_set() else [Ref(e, 0), Ref(e, 1)]
        if I.branch_bool(I.callf(a[1], args)):
            keep.append(e)
    m.entries = keep
    return UNIT


# ---- entry API
class Entry:
    type_name = "Entry"

    def __init__(self, m, key, e):
        self.m, self.key, self.e = m, key, e


@model(r"^std::collections::(HashMap|BTreeMap)::entry$")
def map_entry(I, a, n):
    m = deref(a[0])
    return Entry(m, a[1], map_find(I, m, a[1]))


def value_type_of_entry(n):
    m = re.search(r"Entry::<(.*)>::\w+$", n)
    if m:
        from .mirparse import split_top
        parts = split_top(m.group(1))
        parts = [p for p in parts if not p.strip().startswith("'")]
        if len(parts) >= 2:
            return parts[1]
    return None


@model(r"^std::collections::(hash_map|btree_map)::Entry::or_default$")
def entry_or_default(I, a, n):
    en = a[0]
    if en.e is None:
        en.e = [en.key, default_of(I, value_type_of_entry(n))]
        en.m.entries.append(en.e)
    return Ref(en.e, 1)


@model(r"^std::collections::(hash_map|btree_map)::Entry::or_insert$")
def entry_or_insert(I, a, n):
    en = a[0]
    if en.e is None:
        en.e = [en.key, a[1]]
        en.m.entries.append(en.e)
    return Ref(en.e, 1)


@model(r"^std::collections::(hash_map|btree_map)::Entry::or_insert_with$")
def entry_or_insert_with(I, a, n):
    en = a[0]
    if en.e is None:
        en.e = [en.key, I.callf(a[1], [])]
        en.m.entries.append(en.e)
    return Ref(en.e, 1)


@model(r"^std::collections::(hash_map|btree_map)::Entry::and_modify$")
def entry_and_modify(I, a, n):
    en = a[0]
    if en.e is not None:
        I.callf(a[1], [Ref(en.e, 1)])
    return en
