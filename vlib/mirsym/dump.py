"""Regenerate the MIR text and layout tables from /repo's current working tree (content-addressed
cache: same sources -> same dump; a changed tree is always re-dumped)."""
import json
import os
import re
import shutil
import subprocess

from ..common import CACHE, REPO, VERIF, Inconclusive, env, repo_tree_hash, run

CRATES = {
    "core": {"pkg": "typeshare-core", "target": ["--lib"], "src": "core/src"},
    "cli": {"pkg": "typeshare-cli", "target": ["--bin", "typeshare", "--features", "go,python"], "src": "cli/src"},
    "annotation": {"pkg": "typeshare-annotation", "target": ["--lib"], "src": "annotation/src"},
    "lib": {"pkg": "typeshare", "target": ["--lib"], "src": "lib/src"},
}
ASTDUMP = os.path.join(CACHE, "astdump", "release", "astdump")


def ensure_astdump():
    src = os.path.join(VERIF, "tools", "astdump")
    if os.path.exists(ASTDUMP) and os.path.getmtime(ASTDUMP) >= os.path.getmtime(os.path.join(src, "src", "main.rs")):
        return ASTDUMP
    shutil.copyfile(os.path.join(REPO, "Cargo.lock"), os.path.join(src, "Cargo.lock"))
    rc, out, _ = run(["cargo", "build", "--release", "--offline", "--target-dir", os.path.join(CACHE, "astdump")], cwd=src, timeout=1200)
    if rc != 0:
        raise Inconclusive("astdump build failed:\n" + out[-3000:])
    return ASTDUMP


def mir_text(crate):
    """MIR text of one crate of /repo's current working tree."""
    c = CRATES[crate]
    h = repo_tree_hash()
    d = os.path.join(CACHE, "mir")
    os.makedirs(d, exist_ok=True)
    path = os.path.join(d, "%s-%s.mir" % (crate, h))
    if os.path.exists(path) and os.path.getsize(path) > 1000:
        return open(path).read(), path
    tdir = os.path.join(d, "target")
    # force rustc to run again for this crate (cargo prints nothing when it is fresh)
    fp = os.path.join(tdir, "debug", ".fingerprint")
    if os.path.isdir(fp):
        for e in os.listdir(fp):
            if e.startswith(c["pkg"].replace("_", "-") + "-"):
                shutil.rmtree(os.path.join(fp, e), ignore_errors=True)
    cmd = ["cargo", "+nightly", "rustc", "--offline", "-p", c["pkg"]] + c["target"] + ["--target-dir", tdir, "--",
           "-Zunpretty=mir", "-Ztrim-diagnostic-paths=no", "-C", "debug-assertions=off", "-C", "overflow-checks=on"]
    p = subprocess.run(cmd, cwd=REPO, env=env(), stdout=subprocess.PIPE, stderr=subprocess.PIPE, text=True, timeout=1800)
    if p.returncode != 0 or len(p.stdout) < 1000:
        raise Inconclusive("MIR dump of %s failed (the tree does not compile?):\n%s" % (crate, p.stderr[-3000:]))
    tmp = path + ".tmp%d" % os.getpid()
    with open(tmp, "w") as fh:
        fh.write(p.stdout)
    os.replace(tmp, path)
    # keep the cache small
    olds = sorted((f for f in os.listdir(d) if f.startswith(crate + "-") and f.endswith(".mir")), key=lambda f: os.path.getmtime(os.path.join(d, f)))
    for f in olds[:-6]:
        os.remove(os.path.join(d, f))
    return p.stdout, path


def layout_json(crates):
    exe = ensure_astdump()
    srcs = [CRATES[c]["src"] for c in crates]
    rc, out, _ = run([exe, "layout", REPO] + srcs, timeout=120)
    if rc != 0:
        raise Inconclusive("astdump layout failed: " + out[-2000:])
    return json.loads(out)


def syn_src_dir():
    lock = open(os.path.join(REPO, "Cargo.lock")).read()
    m = re.search(r'name = "syn"\nversion = "(2\.[^"]+)"', lock)
    if not m:
        raise Inconclusive("syn 2.x not found in Cargo.lock")
    ver = m.group(1)
    import glob
    c = glob.glob(os.path.expanduser("~/.cargo/registry/src/*/syn-%s" % ver))
    if not c:
        raise Inconclusive("syn-%s source not in the cargo registry" % ver)
    return c[0]


def ast_of_source(text_or_path, is_path=False):
    """JSON AST (real syn) of a Rust source file / string."""
    exe = ensure_astdump()
    if not is_path:
        tmpd = os.path.join(CACHE, "tmp")
        os.makedirs(tmpd, exist_ok=True)
        p = os.path.join(tmpd, "src-%d-%s.rs" % (os.getpid(), abs(hash(text_or_path))))
        with open(p, "w") as fh:
            fh.write(text_or_path)
    else:
        p = text_or_path
    try:
        rc, out, _ = run([exe, "ast", p], timeout=60)
    finally:
        if not is_path:
            os.remove(p)
    if rc != 0:
        raise Inconclusive("astdump ast failed: " + out[-2000:])
    return json.loads(out)
