"""log, itertools::Either, joinery, lazy_format, convert_case, thiserror, sync primitives, paths."""
import re

import z3

from .values import *  # noqa
from .models_core import model, meth, chars_of, clone_val, val_eq, is_upper, is_lower, ascii_lower, rng, any_of
from .models_iter import into_iter, ListIt, END


# ---- logging is off: every debug!/warn!/error! guard is false ---------------------------------
@model(r"^<log::Level as std::cmp::PartialOrd>::le$|^<log::Level as std::cmp::PartialOrd<log::LevelFilter>>::le$")
def log_le(I, a, n):
    return False


@model(r"^log::max_level$")
def log_max_level(I, a, n):
    return 0


@model(r"^log::__private_api::enabled$")
def log_enabled(I, a, n):
    return False


@model(r"^log::__private_api::log$|^log::__private_api::loc$")
def log_log(I, a, n):
    return UNIT


@model(r"^const log::STATIC_MAX_LEVEL$")
def log_static_max(I, a, n):
    return 0


# ---- thiserror --------------------------------------------------------------------------------
@model(r"^<.* as thiserror::__private::AsDisplay>::as_display$|^<.* as thiserror::__private::AsDynError>::as_dyn_error$|^<.* as thiserror::display::AsDisplay>::as_display$")
def thiserror_as_display(I, a, n):
    return a[0]


@model(r"^<syn::Error as std::fmt::Display>::fmt$|^<std::io::Error as std::fmt::Display>::fmt$|^<std::num::ParseIntError as std::fmt::Display>::fmt$")
def foreign_error_display(I, a, n):
    from .models_fmt import write_chars
    v = unbox(a[0])
    msg = v.data if isinstance(v, Opaque) and isinstance(v.data, str) else "<foreign error>"
    write_chars(I, a[1], [ord(c) for c in msg])
    return OK(UNIT)


@model(r"^<std::io::Error as std::string::ToString>::to_string$")
def io_error_to_string(I, a, n):
    v = unbox(a[0])
    return S(v.data if isinstance(v, Opaque) and isinstance(v.data, str) else "<io error>")


@model(r"^std::io::Error::new$|^std::io::Error::other$")
def io_error_new(I, a, n):
    return Opaque("io::Error", "io error")


# ---- itertools::Either as a value -------------------------------------------------------------
@model(r"^itertools::Either::(left|right)$")
def either_side(I, a, n):
    e = a[0]
    want = 0 if meth(n) == "left" else 1
    return SOME(e.fields[0]) if e.variant == want else NONE()


# ---- sync -------------------------------------------------------------------------------------
class Cell1:
    """AtomicBool / OnceLock / Mutex payload holder"""
    type_name = "Cell1"

    def __init__(self, v=None):
        self.v = v

    def clone(self, I):
        return Cell1(clone_val(I, self.v) if self.v is not None else None)


@model(r"^<std::sync::atomic::Atomic as std::default::Default>::default$|^std::sync::atomic::Atomic::new$|^std::sync::atomic::AtomicBool::new$")
def atomic_new(I, a, n):
    return Cell1(a[0] if a else False)


@model(r"^std::sync::atomic::Atomic::load$|^std::sync::atomic::AtomicBool::load$")
def atomic_load(I, a, n):
    return deref(a[0]).v


@model(r"^std::sync::atomic::Atomic::store$|^std::sync::atomic::AtomicBool::store$")
def atomic_store(I, a, n):
    deref(a[0]).v = a[1]
    return UNIT


@model(r"^std::sync::OnceLock::new$|^const std::sync::OnceLock::new$")
def oncelock_new(I, a, n):
    return Cell1(None)


@model(r"^std::sync::OnceLock::get_or_init$")
def oncelock_get_or_init(I, a, n):
    c = deref(a[0])
    if c.v is None:
        c.v = [I.callf(a[1], [])]
    return Ref(c.v, 0)


# ---- paths (component lists) ------------------------------------------------------------------
class RPath:
    """Path / PathBuf: text (RString)"""
    type_name = "Path"

    def __init__(self, s):
        self.s = s

    def clone(self, I):
        return RPath(RString(list(self.s.chars)))

    def eq(self, I, o):
        o = unbox(o)
        return val_eq(I, self.s, o.s if isinstance(o, RPath) else o)

    def display(self, I):
        return list(self.s.chars)

    def debug(self, I):
        from .models_fmt import debug_str_chars
        return debug_str_chars(I, self.s.chars)

    def __repr__(self):
        return "Path(%s)" % show_chars(self.s.chars)


def path_text(v):
    v = unbox(v)
    while isinstance(v, EnumV) and v.ty.endswith("Cow"):
        v = unbox(v.fields[0])
    if isinstance(v, RPath):
        return v.s
    if isinstance(v, RString):
        return v
    raise Unsupported("path of %r" % (v,))


def components(I, s):
    from .models_core import split_on
    parts = split_on(I, s.chars, ("char", 47))
    comps = []
    if s.chars and not parts[0]:
        comps.append(RString([47]))
    for p in parts:
        if p and not (len(p) == 1 and not is_sym(p[0]) and p[0] == 46):
            comps.append(RString(p))
    return comps


@model(r"^std::path::Path::new$|^<std::path::PathBuf as std::convert::From>::from$|^<std::path::PathBuf as std::ops::Deref>::deref$|^std::path::PathBuf::as_path$|^std::path::Path::to_path_buf$|^<std::path::Path(Buf)? as std::convert::AsRef>::as_ref$|^<(&)*(str|std::string::String) as std::convert::AsRef<std::path::Path>>::as_ref$|^std::path::PathBuf::new$|^<std::path::Path as std::borrow::ToOwned>::to_owned$|^std::path::Path::as_os_str$|^<std::ffi::OsStr as std::convert::AsRef>::as_ref$")
def path_new(I, a, n):
    if not a:
        return RPath(RString([]))
    v = unbox(a[0])
    if isinstance(v, RPath):
        return v if meth(n) not in ("to_path_buf", "to_owned", "from") else RPath(RString(list(v.s.chars)))
    return RPath(RString(list(chars_of(v))))


@model(r"^std::path::Path::iter$|^std::path::Path::components$")
def path_iter(I, a, n):
    return ListIt([RPath(c) for c in components(I, path_text(a[0]))], False)


@model(r"^<std::path::Iter as std::iter::Iterator>::rev$")
def path_iter_rev(I, a, n):
    return deref(a[0]).rev()


@model(r"^std::path::Path::join$")
def path_join(I, a, n):
    base = path_text(a[0]).chars
    ext = path_text(a[1]).chars
    if ext and not is_sym(ext[0]) and ext[0] == 47:
        return RPath(RString(list(ext)))
    sep = [] if (not base or (not is_sym(base[-1]) and base[-1] == 47)) else [47]
    return RPath(RString(list(base) + sep + list(ext)))


@model(r"^std::path::PathBuf::push$")
def pathbuf_push(I, a, n):
    p = unbox(a[0])
    p.s = path_join(I, [p, a[1]], n).s
    return UNIT


@model(r"^std::path::Path::ancestors$")
def path_ancestors(I, a, n):
    cur = RPath(RString(list(path_text(a[0]).chars)))
    out = [cur]
    for _ in range(64):
        par = path_parts(I, [cur], "std::path::Path::parent")
        if par.variant == 0:
            break
        cur = par.fields[0]
        out.append(cur)
    return ListIt(out, False)


@model(r"^std::path::PathBuf::pop$")
def pathbuf_pop(I, a, n):
    p = unbox(a[0])
    par = path_parts(I, [p], "std::path::Path::parent")
    if par.variant == 0:
        return False
    p.s = par.fields[0].s
    return True


@model(r"^anyhow::__private::not$")
def anyhow_not(I, a, n):
    import z3
    return z3.Not(a[0]) if is_sym(a[0]) else (not a[0])


@model(r"^std::path::Path::to_string_lossy$|^std::ffi::OsStr::to_string_lossy$")
def path_to_string_lossy(I, a, n):
    return EnumV("Cow", 0, [path_text(a[0])])


@model(r"^std::path::Path::to_str$|^std::ffi::OsStr::to_str$")
def path_to_str(I, a, n):
    return SOME(path_text(a[0]))


@model(r"^std::path::Path::display$")
def path_display(I, a, n):
    return path_text(a[0])


@model(r"^std::path::Path::file_name$|^std::path::Path::file_stem$|^std::path::Path::extension$|^std::path::Path::parent$")
def path_parts(I, a, n):
    comps = components(I, path_text(a[0]))
    op = meth(n)
    if op == "parent":
        if not comps or (len(comps) == 1 and comps[0].chars == [47]):
            return NONE()
        rest = comps[:-1]
        out = []
        for k, c in enumerate(rest):
            if k and not (k == 1 and rest[0].chars == [47]):
                out.append(47)
            out.extend(c.chars)
        return SOME(RPath(RString(out)))
    if not comps or comps[-1].chars == [47]:
        return NONE()
    name = comps[-1].chars
    if op == "file_name":
        return SOME(RPath(RString(name)))
    dot = None
    for k in range(len(name) - 1, 0, -1):
        if I.branch_bool(I.binop("Eq", name[k], 46, "char")):
            dot = k
            break
    if op == "file_stem":
        return SOME(RPath(RString(name[:dot] if dot else name)))
    return SOME(RPath(RString(name[dot + 1:]))) if dot else NONE()


# ---- convert_case (Case::Snake on identifiers) ------------------------------------------------
def cc_words(I, chars):
    """convert_case 0.6 default boundaries: _ - space, lower|upper, acronym (UU|l), letter|digit both ways"""
    def cls(c):
        if not is_sym(c):
            ch = chr(c)
            return "d" if ch in "_- " else "u" if ch.isupper() else "l" if ch.islower() else "n" if ch.isdigit() else "o"
        k = I.branch([any_of(c == 95, c == 45, c == 32), is_upper(I, c), is_lower(I, c), rng(c, 48, 57),
                      z3.Not(z3.Or(c == 95, c == 45, c == 32, is_upper(I, c), is_lower(I, c), rng(c, 48, 57)))])
        return "duln" "o"[k]
    cl = [cls(c) for c in chars]
    words, cur = [], []
    n = len(chars)
    for i, c in enumerate(chars):
        if cl[i] == "d":
            if cur:
                words.append(cur)
            cur = []
            continue
        cur.append(c)
        if i + 1 < n and cl[i + 1] != "d":
            a, b = cl[i], cl[i + 1]
            split = (a == "l" and b == "u") or (a == "u" and b == "n") or (a == "n" and b == "u") or (a == "n" and b == "l") or (a == "l" and b == "n")
            if not split and a == "u" and b == "u" and i + 2 < n and cl[i + 2] == "l":
                split = True
            if split:
                words.append(cur)
                cur = []
    if cur:
        words.append(cur)
    return words


@model(r"^<(&)*(str|std::string::String) as convert_case::Casing>::to_case$")
def cc_to_case(I, a, n):
    case = deref(a[1])
    cases = None
    # convert_case::Case is a foreign enum: its variant index is looked up by name in the layout
    name = getattr(case, "cc_name", None)
    if name is None and isinstance(case, (Agg, EnumV)):
        name = case.ty.split("::")[-1]
    joiners = {"Snake": (95, str.lower), "Kebab": (45, str.lower), "Cobol": (45, str.upper), "UpperKebab": (45, str.upper), "UpperSnake": (95, str.upper),
               "ScreamingSnake": (95, str.upper), "Lower": (32, str.lower), "Upper": (32, str.upper), "Flat": (None, str.lower), "UpperFlat": (None, str.upper)}
    if name in ("Pascal", "UpperCamel", "Camel", "Title", "Train"):
        # capitalised words: first character upper, the rest lower; Camel lower-cases the whole first word
        from .models_core import unicode_map
        words = cc_words(I, list(chars_of(a[0])))
        sep = {"Title": 32, "Train": 45}.get(name)
        out = []
        for k, w in enumerate(words):
            if k and sep is not None:
                out.append(sep)
            if name == "Camel" and k == 0:
                out += unicode_map(I, w, str.lower)
            else:
                out += unicode_map(I, w[:1], str.upper) + unicode_map(I, w[1:], str.lower)
        return RString(out)
    if name not in joiners:
        raise Unsupported("convert_case to_case(%s)" % name)
    sep, fn = joiners[name]
    from .models_core import unicode_map
    words = cc_words(I, list(chars_of(a[0])))
    out = []
    for k, w in enumerate(words):
        if k and sep is not None:
            out.append(sep)
        out += unicode_map(I, w, fn)
    return RString(out)


class CCCase:
    type_name = "Case"

    def __init__(self, name):
        self.cc_name = name


@model(r"^const convert_case::Case::\w+$")
def cc_case_const(I, a, n):
    return CCCase(n.rsplit("::", 1)[1])
