"""std::fs / std::env as a symbolic file-system map (per path): path -> node(bytes, mtime token).
Every mutating operation is logged so that harnesses can assert "no write was issued" and what the
post-state of a file is.  Also anyhow's error plumbing (errors are opaque values)."""
import re

import z3

from .values import *  # noqa
from .models_core import model, meth, chars_of, items_of, clone_val, val_eq
from .models_misc import RPath, path_text


class FsNode:
    def __init__(self, data=None, is_dir=False, mtime=0):
        self.data = list(data) if data is not None else []
        self.is_dir = is_dir
        self.mtime = mtime


class Fs:
    def __init__(self):
        self.nodes = {}      # path string -> FsNode
        self.log = []        # (op, path)
        self.clock = 1
        self.fail = set()    # paths whose operations fail
        self.symbolic_files = {}   # path -> z3 Bool: "a regular file exists here" (read-only probes)
        self.symbolic_content = {}  # path -> bytes of such a file

    def tick(self):
        self.clock += 1
        return self.clock

    def add_file(self, path, data, mtime=0):
        self.nodes[path] = FsNode(data, False, mtime)
        self._mkparents(path)

    def add_dir(self, path):
        self.nodes[path] = FsNode(None, True)
        self._mkparents(path)

    def _mkparents(self, path):
        parts = path.rstrip("/").split("/")
        for k in range(1, len(parts)):
            p = "/".join(parts[:k]) or "/"
            if p not in self.nodes:
                self.nodes[p] = FsNode(None, True)


def fs_of(I):
    fs = I.env.get("fs")
    if fs is None:
        raise Unsupported("file-system access without a file-system model (harness must set I.env['fs'])")
    return fs


def pkey(I, p):
    return pystr(path_text(p))


def io_err(kind="io error"):
    return Opaque("io::Error", kind)


class RFile:
    """std::fs::File: a cursor into a node"""
    type_name = "File"

    def __init__(self, fs, path, pos=0, append=False, writable=True, readable=False):
        self.fs, self.path, self.pos, self.append, self.writable, self.readable = fs, path, pos, append, writable, readable

    def write_chars(self, I, chars):
        node = self.fs.nodes[self.path]
        if self.append:
            self.pos = len(node.data)
        chars = list(chars)
        node.data[self.pos:self.pos + len(chars)] = chars
        self.pos += len(chars)
        node.mtime = self.fs.tick()
        self.fs.log.append(("write", self.path))


@model(r"^std::fs::read$|^std::fs::read_to_string$")
def fs_read(I, a, n):
    fs = fs_of(I)
    p = pkey(I, a[0])
    node = fs.nodes.get(p)
    fs.log.append(("read", p))
    if node is None and p in fs.symbolic_files and I.branch_bool(fs.symbolic_files[p]):
        data = list(fs.symbolic_content.get(p, []))
        return OK(RString(data)) if meth(n) == "read_to_string" else OK(RVec(data, text=True))
    if node is None or node.is_dir or p in fs.fail:
        return ERR(io_err("No such file or directory"))
    if meth(n) == "read_to_string":
        return OK(RString(list(node.data)))
    return OK(RVec(list(node.data), text=True))


@model(r"^std::fs::write$")
def fs_write(I, a, n):
    fs = fs_of(I)
    p = pkey(I, a[0])
    parent = p.rsplit("/", 1)[0] if "/" in p else ""
    if p in fs.fail or (parent and parent not in fs.nodes):
        fs.log.append(("write-failed", p))
        return ERR(io_err("cannot write"))
    data = a[1]
    d = deref(data)
    chars = list(d.chars) if isinstance(d, RString) else list(items_of(d))
    fs.nodes[p] = FsNode(chars, False, fs.tick())
    fs.log.append(("write", p))
    return OK(UNIT)


@model(r"^std::fs::File::create$|^std::fs::File::create_new$")
def file_create(I, a, n):
    fs = fs_of(I)
    p = pkey(I, a[0])
    parent = p.rsplit("/", 1)[0] if "/" in p else ""
    if p in fs.fail or (parent and parent not in fs.nodes):
        fs.log.append(("create-failed", p))
        return ERR(io_err("cannot create"))
    if meth(n) == "create_new" and p in fs.nodes:
        return ERR(io_err("File exists"))
    fs.nodes[p] = FsNode([], False, fs.tick())
    fs.log.append(("create", p))
    return OK(RFile(fs, p))


@model(r"^std::fs::File::open$")
def file_open(I, a, n):
    fs = fs_of(I)
    p = pkey(I, a[0])
    node = fs.nodes.get(p)
    if node is None or node.is_dir:
        return ERR(io_err("No such file or directory"))
    return OK(RFile(fs, p, writable=False, readable=True))


class OpenOpts:
    type_name = "OpenOptions"

    def __init__(self):
        self.read = self.write = self.append = self.truncate = self.create = self.create_new = False

    def clone(self, I):
        o = OpenOpts()
        o.__dict__.update(self.__dict__)
        return o


@model(r"^std::fs::OpenOptions::new$|^std::fs::File::options$")
def oo_new(I, a, n):
    return OpenOpts()


@model(r"^std::fs::OpenOptions::(read|write|append|truncate|create|create_new)$")
def oo_set(I, a, n):
    o = deref(a[0])
    setattr(o, meth(n), bool(a[1]))
    return a[0]


@model(r"^std::fs::OpenOptions::open$")
def oo_open(I, a, n):
    fs = fs_of(I)
    o = deref(a[0])
    p = pkey(I, a[1])
    node = fs.nodes.get(p)
    parent = p.rsplit("/", 1)[0] if "/" in p else ""
    if p in fs.fail:
        return ERR(io_err("cannot open"))
    if node is not None and node.is_dir:
        return ERR(io_err("Is a directory"))
    if o.create_new:
        if node is not None:
            return ERR(io_err("File exists"))
        if parent and parent not in fs.nodes:
            return ERR(io_err("No such file or directory"))
        fs.nodes[p] = FsNode([], False, fs.tick())
        fs.log.append(("create", p))
        return OK(RFile(fs, p, append=o.append))
    if node is None:
        if not o.create or not (o.write or o.append):
            return ERR(io_err("No such file or directory"))
        if parent and parent not in fs.nodes:
            return ERR(io_err("No such file or directory"))
        fs.nodes[p] = FsNode([], False, fs.tick())
        fs.log.append(("create", p))
        return OK(RFile(fs, p, append=o.append))
    if o.truncate and o.write:
        node.data = []
        node.mtime = fs.tick()
        fs.log.append(("truncate", p))
    return OK(RFile(fs, p, append=o.append, writable=o.write or o.append, readable=o.read))


@model(r"^std::fs::create_dir_all$|^std::fs::create_dir$")
def fs_create_dir_all(I, a, n):
    fs = fs_of(I)
    p = pkey(I, a[0])
    if p in fs.fail:
        return ERR(io_err("cannot create dir"))
    if p not in fs.nodes:
        fs.add_dir(p)
        fs.log.append(("mkdir", p))
    return OK(UNIT)


@model(r"^std::fs::remove_file$")
def fs_remove_file(I, a, n):
    fs = fs_of(I)
    p = pkey(I, a[0])
    if p in fs.nodes and not fs.nodes[p].is_dir:
        del fs.nodes[p]
        fs.log.append(("remove", p))
        return OK(UNIT)
    return ERR(io_err("No such file or directory"))


@model(r"^std::fs::rename$")
def fs_rename(I, a, n):
    fs = fs_of(I)
    p, q = pkey(I, a[0]), pkey(I, a[1])
    if p not in fs.nodes:
        return ERR(io_err("No such file or directory"))
    fs.nodes[q] = fs.nodes.pop(p)
    fs.nodes[q].mtime = fs.tick()
    fs.log.append(("rename", p))
    fs.log.append(("write", q))
    return OK(UNIT)


@model(r"^std::path::Path::exists$|^std::path::Path::is_file$|^std::path::Path::is_dir$|^std::path::Path::try_exists$")
def path_exists(I, a, n):
    fs = fs_of(I)
    p = pkey(I, a[0])
    node = fs.nodes.get(p)
    op = meth(n)
    if p in fs.symbolic_files and node is None:
        r = False if op == "is_dir" else I.branch_bool(fs.symbolic_files[p])
        return OK(r) if op == "try_exists" else r
    r = node is not None if op in ("exists", "try_exists") else (node is not None and (node.is_dir == (op == "is_dir")))
    return OK(r) if op == "try_exists" else r


@model(r"^std::env::current_dir$")
def env_current_dir(I, a, n):
    return OK(RPath(S(I.env.get("cwd", "/work"))))


@model(r"^<std::fs::File as std::io::Write>::(write_all|write_fmt|write|flush)$|^<&std::fs::File as std::io::Write>::(write_all|write_fmt|write|flush)$")
def file_write(I, a, n):
    from .models_fmt import render
    f = deref(a[0])
    op = meth(n)
    if op == "flush":
        return OK(UNIT)
    if op == "write_fmt":
        chars = render(I, a[1])
    else:
        chars = list(items_of(a[1]))
    f.write_chars(I, chars)
    return OK(len(chars)) if op == "write" else OK(UNIT)


@model(r"^std::fs::File::sync_all$|^std::fs::File::set_len$")
def file_sync(I, a, n):
    f = deref(a[0])
    if meth(n) == "set_len":
        node = f.fs.nodes[f.path]
        k = I.concretize_int(a[1], 0, 1 << 20, "set_len")
        node.data = node.data[:k] + [0] * max(0, k - len(node.data))
        node.mtime = f.fs.tick()
        f.fs.log.append(("truncate", f.path))
    return OK(UNIT)


# ---- anyhow -----------------------------------------------------------------------------------
class AnyErr:
    type_name = "anyhow::Error"

    def __init__(self, msg, source=None):
        self.msg, self.source = msg, source

    def display(self, I):
        return list(self.msg) if isinstance(self.msg, list) else [ord(c) for c in str(self.msg)]

    def debug(self, I):
        return self.display(I)

    def __repr__(self):
        return "anyhow(%s)" % (show_chars(self.msg) if isinstance(self.msg, list) else self.msg)


@model(r"^<std::result::Result as anyhow::Context>::(context|with_context)$|^<std::option::Option as anyhow::Context>::(context|with_context)$")
def anyhow_context(I, a, n):
    from .models_fmt import display_chars
    r = a[0]
    is_opt = r.ty.split("::")[-1] == "Option"
    ok = (r.variant == 1) if is_opt else (r.variant == 0)
    if ok:
        return OK(r.fields[0])
    ctx = I.callf(a[1], []) if meth(n) == "with_context" else a[1]
    try:
        msg = display_chars(I, ctx)
    except Unsupported:
        msg = [ord(c) for c in "<context>"]
    return ERR(AnyErr(msg, None if is_opt else r.fields[0]))


@model(r"^anyhow::Error::msg$|^anyhow::__private::format_err$|^anyhow::__private::must_use$|^anyhow::Error::new$|^<anyhow::Error as std::convert::From>::from$|^anyhow::error::<impl std::convert::From for anyhow::Error>::from$")
def anyhow_new(I, a, n):
    from .models_fmt import display_chars, render, FmtArgs
    v = a[0]
    if isinstance(deref(v), AnyErr):
        return deref(v)
    try:
        msg = render(I, v) if isinstance(v, FmtArgs) else display_chars(I, v)
    except Unsupported:
        msg = [ord(c) for c in "<error>"]
    return AnyErr(msg, v)


@model(r"^<anyhow::Error as std::fmt::(Display|Debug)>::fmt$")
def anyhow_fmt(I, a, n):
    from .models_fmt import write_chars
    write_chars(I, a[1], deref(a[0]).display(I))
    return OK(UNIT)


@model(r"^toml::from_str$|^toml::de::from_str$")
def toml_from_str(I, a, n):
    """stub: deserialisation is not encoded.  The harness registers env['toml_from_str'](I, text) -> value (typically a default
    Config tagged with the file's content, so that WHICH file was loaded stays observable)"""
    fn = I.env.get("toml_from_str")
    if fn is None:
        raise Unsupported("toml::from_str without a registered stub")
    return fn(I, a[0])


@model(r"^toml::to_string_pretty$|^toml::to_string$")
def toml_to_string(I, a, n):
    # stub: the serialised text is opaque (TOML serialisation is outside every claim)
    return OK(S("# toml\n"))


@model(r"^ignore::DirEntry::path$|^ignore::walk::DirEntry::path$")
def direntry_path(I, a, n):
    """ignore::DirEntry is modelled as an opaque value carrying its path"""
    v = unbox(a[0])
    return v.data


@model(r"^<(&)?std::fs::File as std::io::Read>::(read_exact|read_to_end|read_to_string|read)$")
def file_read(I, a, n):
    f = deref(a[0])
    node = f.fs.nodes.get(f.path)
    op = meth(n)
    data = node.data if node is not None else []
    buf = deref(a[1])
    if op == "read_exact":
        want = len(buf.items) if isinstance(buf, RVec) else len(buf)
        if len(data) - f.pos < want:
            return ERR(io_err("failed to fill whole buffer"))
        chunk = list(data[f.pos:f.pos + want])
        f.pos += want
        if isinstance(buf, RVec):
            buf.items[:] = chunk
        else:
            buf.items[buf.lo:buf.hi] = chunk
        f.fs.log.append(("read", f.path))
        return OK(UNIT)
    chunk = list(data[f.pos:])
    if op == "read":
        room = len(buf.items) if isinstance(buf, RVec) else len(buf)
        chunk = chunk[:room]
        if isinstance(buf, RVec):
            buf.items[:len(chunk)] = chunk
        else:
            buf.items[buf.lo:buf.lo + len(chunk)] = chunk
        f.pos += len(chunk)
        return OK(len(chunk))
    f.pos = len(data)
    if op == "read_to_string":
        buf.chars.extend(chunk)
    else:
        buf.items.extend(chunk)
    f.fs.log.append(("read", f.path))
    return OK(len(chunk))


class RMeta:
    """std::fs::Metadata of a node at the time of the call"""
    type_name = "Metadata"

    def __init__(self, length, is_dir, mtime):
        self.length, self.is_dir, self.mtime = length, is_dir, mtime

    def clone(self, I):
        return RMeta(self.length, self.is_dir, self.mtime)


@model(r"^std::fs::metadata$|^std::fs::symlink_metadata$|^std::path::Path::metadata$|^std::path::Path::symlink_metadata$|^std::fs::File::metadata$")
def fs_metadata(I, a, n):
    fs = fs_of(I)
    f = deref(a[0])
    p = f.path if isinstance(f, RFile) else pkey(I, a[0])
    node = fs.nodes.get(p)
    fs.log.append(("stat", p))
    if node is None and p in fs.symbolic_files and I.branch_bool(fs.symbolic_files[p]):
        return OK(RMeta(len(fs.symbolic_content.get(p, [])), False, ("old", p)))
    if node is None or p in fs.fail:
        return ERR(io_err("No such file or directory"))
    return OK(RMeta(len(node.data), node.is_dir, node.mtime))


@model(r"^std::fs::Metadata::(len|is_file|is_dir|is_symlink|modified)$")
def fs_metadata_get(I, a, n):
    m = deref(a[0])
    op = meth(n)
    if op == "len":
        return m.length
    if op == "is_dir":
        return m.is_dir
    if op == "is_file":
        return not m.is_dir
    if op == "is_symlink":
        return False
    return OK(Opaque("SystemTime", m.mtime))
