"""Engine K: run the out-of-tree Kani harness crates against /repo's working tree."""
import os
import re
import shutil

from .common import CACHE, VERIF, REPO, run, Inconclusive


def sync_lock(crate_dir):
    """The harness crate resolves the same dependency versions as /repo (offline cache)."""
    src = os.path.join(REPO, "Cargo.lock")
    dst = os.path.join(crate_dir, "Cargo.lock")
    if os.path.exists(src):
        shutil.copyfile(src, dst)


def run_kani(crate, harnesses=None, timeout=1500, extra_args=()):
    """Returns dict harness -> {status: SUCCESS|FAILED|ERROR, checks, failed, covers, vals, time}"""
    crate_dir = os.path.join(VERIF, "kani", crate)
    sync_lock(crate_dir)
    tdir = os.path.join(CACHE, crate + "-kani")
    cmd = ["cargo", "kani", "--target-dir", tdir, "--output-format", "terse",
           "-Z", "concrete-playback", "--concrete-playback=print"]
    for h in harnesses or []:
        cmd += ["--harness", h]
    cmd += list(extra_args)
    # memory cap: CBMC blow-ups must not take the machine down
    sh = "ulimit -v 24000000; exec " + " ".join("'%s'" % c for c in cmd)
    rc, out, dt = run(["bash", "-c", sh], cwd=crate_dir, timeout=timeout)
    if "Checking harness" not in out:
        raise Inconclusive("cargo kani produced no harness results (rc=%s):\n%s" % (rc, out[-3000:]))
    res = {}
    cur = None
    in_pb = False
    for line in out.splitlines():
        m = re.match(r"Checking harness (\S+?)\.\.\.", line)
        if m:
            cur = m.group(1)
            res[cur] = {"status": None, "checks": 0, "failed": 0, "covers": None, "vals": [], "failed_checks": [], "time": 0.0}
            in_pb = False
            continue
        if cur is None:
            continue
        r = res[cur]
        m = re.match(r"\s*\*\* (\d+) of (\d+) failed", line)
        if m:
            r["failed"], r["checks"] = int(m.group(1)), int(m.group(2))
        m = re.match(r"\s*\*\* (\d+) of (\d+) cover properties satisfied", line)
        if m:
            r["covers"] = (int(m.group(1)), int(m.group(2)))
        if line.startswith("Failed Checks:"):
            r["failed_checks"].append(line[len("Failed Checks:"):].strip())
        m = re.match(r"VERIFICATION:- (\w+)", line)
        if m:
            r["status"] = {"SUCCESSFUL": "SUCCESS", "FAILED": "FAILED"}.get(m.group(1), "ERROR")
        m = re.match(r"Verification Time: ([\d.]+)s", line)
        if m:
            r["time"] = float(m.group(1))
        if "Status: ERROR" in line or "CBMC failed" in line or "out of memory" in line.lower():
            r["status"] = "ERROR"
        if line.startswith("Concrete playback unit test"):
            in_pb = True
        if in_pb:
            m = re.match(r"\s*vec!\[([\d, ]*)\],?\s*$", line)
            if m:
                bs = [int(x) for x in m.group(1).replace(" ", "").split(",") if x]
                r["vals"].append(bs)
    return res, out, dt


def le_int(bs, signed=False):
    v = int.from_bytes(bytes(bs), "little", signed=False)
    if signed and bs and bs[-1] & 0x80:
        v -= 1 << (8 * len(bs))
    return v
