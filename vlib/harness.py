"""Harness plumbing shared by the mirsym checks: native replayer, parallel case exploration,
known-finding matching with regex-valued signature entries."""
import json
import multiprocessing as mp
import os
import re
import shutil
import subprocess
import sys
import time
import traceback

from .common import CACHE, REPO, VERIF, NCPU, Inconclusive, env, run


# ------------------------------------------------------------------------------- native replay
class Replayer:
    """persistent `vreplay` process linking the real typeshare-core of /repo's working tree"""
    _built = False

    def __init__(self):
        self.build()
        self.p = subprocess.Popen([self.exe()], stdin=subprocess.PIPE, stdout=subprocess.PIPE, stderr=subprocess.DEVNULL,
                                  text=True, env=env(), bufsize=1)
        self.n = 0

    @staticmethod
    def exe():
        return os.path.join(CACHE, "vreplay", "debug", "vreplay")

    @classmethod
    def build(cls):
        if cls._built:
            return
        src = os.path.join(VERIF, "tools", "vreplay")
        shutil.copyfile(os.path.join(REPO, "Cargo.lock"), os.path.join(src, "Cargo.lock"))
        rc, out, _ = run(["cargo", "build", "--offline", "--target-dir", os.path.join(CACHE, "vreplay")], cwd=src, timeout=1800)
        if rc != 0:
            raise Inconclusive("vreplay build failed (does /repo compile?):\n" + out[-3000:])
        cls._built = True

    def ask(self, req):
        self.n += 1
        self.p.stdin.write(json.dumps(req) + "\n")
        self.p.stdin.flush()
        line = self.p.stdout.readline()
        if not line:
            # the process died (abort / stack overflow): that is an outcome too
            rc = self.p.wait()
            self.p = subprocess.Popen([self.exe()], stdin=subprocess.PIPE, stdout=subprocess.PIPE, stderr=subprocess.DEVNULL,
                                      text=True, env=env(), bufsize=1)
            return {"crash": rc}
        return json.loads(line)

    def close(self):
        try:
            self.p.stdin.close()
            self.p.wait(timeout=5)
        except Exception:
            self.p.kill()


# ------------------------------------------------------------------------------- parallel cases
_WORKER = {}


def _init_worker(fn_path, setup_args):
    mod_name, fn_name = fn_path
    mod = __import__(mod_name, fromlist=[fn_name])
    _WORKER["fn"] = getattr(mod, fn_name)
    _WORKER["setup"] = setup_args


def _run_case(case):
    try:
        return ("ok", case, _WORKER["fn"](case, *_WORKER["setup"]))
    except Exception as e:  # noqa
        return ("exc", case, "%s: %s\n%s" % (type(e).__name__, e, traceback.format_exc()[-1500:]))


def pmap(fn_path, cases, setup_args=(), jobs=None, chunksize=None):
    """run fn(case, *setup_args) for every case in a fork pool; the parent must have loaded the
    Program before (copy-on-write).  Yields ("ok"|"exc", case, result)."""
    jobs = jobs or NCPU
    cases = list(cases)
    if jobs <= 1 or len(cases) <= 2:
        _init_worker(fn_path, setup_args)
        for c in cases:
            yield _run_case(c)
        return
    ctx = mp.get_context("fork")
    cs = chunksize or max(1, min(64, len(cases) // (jobs * 8) or 1))
    with ctx.Pool(jobs, initializer=_init_worker, initargs=(fn_path, setup_args)) as pool:
        for r in pool.imap_unordered(_run_case, cases, chunksize=cs):
            yield r


# ------------------------------------------------------------------------------- signatures
def entry_matches(entry_sig, sig):
    for k, v in entry_sig.items():
        if k not in sig:
            return False
        sv = sig[k]
        if isinstance(v, dict) and "regex" in v:
            if not re.search(v["regex"], str(sv)):
                return False
        elif isinstance(v, list):
            if sv not in v:
                return False
        elif sv != v:
            return False
    return True
