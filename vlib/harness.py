"""Harness plumbing shared by the mirsym checks: native replayer, parallel case exploration,
known-finding matching with regex-valued signature entries."""
import json
import multiprocessing as mp
import os
import re
import shutil
import subprocess
import sys
import time
import traceback

from .common import CACHE, REPO, VERIF, NCPU, Inconclusive, env, run


# ------------------------------------------------------------------------------- native replay
class Replayer:
    """persistent `vreplay` process linking the real typeshare-core of /repo's working tree"""
    _built = False

    def __init__(self):
        self.build()
        self.p = subprocess.Popen([self.exe()], stdin=subprocess.PIPE, stdout=subprocess.PIPE, stderr=subprocess.DEVNULL,
                                  text=True, env=env(), bufsize=1)
        self.n = 0

    @staticmethod
    def exe():
        return os.path.join(CACHE, "vreplay", "debug", "vreplay")

    @classmethod
    def build(cls):
        if cls._built:
            return
        src = os.path.join(VERIF, "tools", "vreplay")
        shutil.copyfile(os.path.join(REPO, "Cargo.lock"), os.path.join(src, "Cargo.lock"))
        rc, out, _ = run(["cargo", "build", "--offline", "--target-dir", os.path.join(CACHE, "vreplay")], cwd=src, timeout=1800)
        if rc != 0:
            raise Inconclusive("vreplay build failed (does /repo compile?):\n" + out[-3000:])
        cls._built = True

    def ask(self, req, timeout=120):
        """one request, one answer line.  No answer within `timeout` seconds means the real code does not terminate on this
        input (or is far too slow): the process is killed and the outcome is reported as {"crash": "timeout", "hang": True}."""
        import select
        self.n += 1
        self.p.stdin.write(json.dumps(req) + "\n")
        self.p.stdin.flush()
        ready, _, _ = select.select([self.p.stdout], [], [], timeout)
        if not ready:
            self.p.kill()
            self.p.wait()
            self.p = subprocess.Popen([self.exe()], stdin=subprocess.PIPE, stdout=subprocess.PIPE, stderr=subprocess.DEVNULL,
                                      text=True, env=env(), bufsize=1)
            return {"crash": "timeout", "hang": True, "panic": "no answer within %d s (does not terminate)" % timeout}
        line = self.p.stdout.readline()
        if not line:
            # the process died (abort / stack overflow): that is an outcome too
            rc = self.p.wait()
            self.p = subprocess.Popen([self.exe()], stdin=subprocess.PIPE, stdout=subprocess.PIPE, stderr=subprocess.DEVNULL,
                                      text=True, env=env(), bufsize=1)
            return {"crash": rc}
        return json.loads(line)

    def close(self):
        try:
            self.p.stdin.close()
            self.p.wait(timeout=5)
        except Exception:
            self.p.kill()


# ------------------------------------------------------------------------------- parallel cases
_WORKER = {}


def _init_worker(fn_path, setup_args):
    mod_name, fn_name = fn_path
    mod = __import__(mod_name, fromlist=[fn_name])
    _WORKER["fn"] = getattr(mod, fn_name)
    _WORKER["setup"] = setup_args


def _run_case(case):
    try:
        return ("ok", case, _WORKER["fn"](case, *_WORKER["setup"]))
    except Exception as e:  # noqa
        return ("exc", case, "%s: %s\n%s" % (type(e).__name__, e, traceback.format_exc()[-1500:]))


def pmap(fn_path, cases, setup_args=(), jobs=None, chunksize=None):
    """run fn(case, *setup_args) for every case in a fork pool; the parent must have loaded the
    Program before (copy-on-write).  Yields ("ok"|"exc", case, result)."""
    jobs = jobs or NCPU
    cases = list(cases)
    if jobs <= 1 or len(cases) <= 2:
        _init_worker(fn_path, setup_args)
        for c in cases:
            yield _run_case(c)
        return
    ctx = mp.get_context("fork")
    cs = chunksize or max(1, min(64, len(cases) // (jobs * 8) or 1))
    with ctx.Pool(jobs, initializer=_init_worker, initargs=(fn_path, setup_args)) as pool:
        for r in pool.imap_unordered(_run_case, cases, chunksize=cs):
            yield r


# ------------------------------------------------------------------------------- signatures
def entry_matches(entry_sig, sig):
    for k, v in entry_sig.items():
        if k not in sig:
            return False
        sv = sig[k]
        if isinstance(v, dict) and "regex" in v:
            if not re.search(v["regex"], str(sv)):
                return False
        elif isinstance(v, list):
            if sv not in v:
                return False
        elif sv != v:
            return False
    return True


# ------------------------------------------------------------------------------------------------
# the real CLI: /repo/cli/src copied next to a driver (tools/clidrv); without VERIF_DRIVER it *is* `typeshare`
def build_clidrv():
    """(re)build the CLI driver from /repo's current cli sources; returns the binary path"""
    import shutil
    src = os.path.join(CACHE, "clidrv-src")
    os.makedirs(os.path.join(src, "src"), exist_ok=True)
    tool = os.path.join(VERIF, "tools", "clidrv")
    changed = False

    def put(path, text):
        nonlocal changed
        old = open(path).read() if os.path.exists(path) else None
        if old != text:
            with open(path, "w") as fh:
                fh.write(text)
            changed = True

    put(os.path.join(src, "Cargo.toml"), open(os.path.join(tool, "Cargo.toml")).read())
    put(os.path.join(src, "Cargo.lock"), open(os.path.join(REPO, "Cargo.lock")).read())
    cli = os.path.join(REPO, "cli", "src")
    for fn in sorted(os.listdir(cli)):
        if not fn.endswith(".rs"):
            continue
        text = open(os.path.join(cli, fn)).read()
        if fn == "main.rs":
            if "\nfn main() -> anyhow::Result<()> {" not in text:
                raise Inconclusive("cli/src/main.rs: `fn main() -> anyhow::Result<()>` not found; the CLI driver cannot be composed")
            text = text.replace("\nfn main() -> anyhow::Result<()> {", "\nfn real_main() -> anyhow::Result<()> {", 1)
            text += open(os.path.join(tool, "driver.rs")).read()
        put(os.path.join(src, "src", fn), text)
    tdir = os.path.join(CACHE, "clidrv")
    exe = os.path.join(tdir, "debug", "clidrv")
    rc, out, _ = run(["cargo", "build", "--offline", "--target-dir", tdir], cwd=src, timeout=1800)
    if rc != 0:
        raise Inconclusive("CLI driver build failed (does /repo compile?):\n" + out[-3000:])
    return exe


class CliDriver:
    """persistent driver process (JSON lines); a crash is detected by process death"""

    def __init__(self):
        self.exe = build_clidrv()
        self.p = None

    def start(self):
        env = dict(os.environ, VERIF_DRIVER="1", RUST_LOG="off")
        self.p = subprocess.Popen([self.exe], stdin=subprocess.PIPE, stdout=subprocess.PIPE, stderr=subprocess.DEVNULL, text=True, env=env)

    def ask(self, req):
        if self.p is None or self.p.poll() is not None:
            self.start()
        try:
            self.p.stdin.write(json.dumps(req) + "\n")
            self.p.stdin.flush()
            line = self.p.stdout.readline()
        except BrokenPipeError:
            line = ""
        if not line:
            rc = self.p.wait()
            self.p = None
            return {"crash": rc}
        return json.loads(line)

    def cli(self, argv, cwd, pin=False):
        """run the real `typeshare` main with argv in cwd; pin=True: on one CPU, so that the parallel walk
        delivers files in one reproducible order"""
        env = dict(os.environ)
        env.pop("VERIF_DRIVER", None)
        pre = ["taskset", "-c", "0"] if pin and shutil.which("taskset") else []
        pr = subprocess.run(pre + [self.exe] + list(argv), cwd=cwd, capture_output=True, text=True, timeout=120, env=env)
        return pr.returncode, pr.stdout, pr.stderr

    def close(self):
        if self.p is not None:
            try:
                self.p.stdin.close()
                self.p.wait(timeout=5)
            except Exception:
                self.p.kill()
            self.p = None
