#!/bin/bash
# Build everything the checks need, offline, from files on disk only.
set -e
cd "$(dirname "$0")"
export CARGO_NET_OFFLINE=true GOPROXY=off PIP_NO_INDEX=1
mkdir -p .cache evidence
python3-vt -c "import z3; print('z3', z3.get_version_string())"
# native replayers / tools (path deps on /repo; Cargo.lock copied from /repo)
for c in kani/c18; do
  cp /repo/Cargo.lock $c/Cargo.lock
  (cd $c && cargo build -q --offline --target-dir /verif/.cache/$(basename $c)-native && cargo build -q --release --offline --target-dir /verif/.cache/$(basename $c)-native)
done
echo setup done
