#!/bin/bash
# Build everything the checks need, offline, from files on disk only.
set -e
cd "$(dirname "$0")"
export CARGO_NET_OFFLINE=true GOPROXY=off PIP_NO_INDEX=1
mkdir -p .cache evidence
python3-vt -c "import z3; print('z3', z3.get_version_string())"
# tools with path dependencies on /repo (Cargo.lock copied from /repo so that the offline registry resolves)
for c in tools/astdump tools/vreplay kani/c18; do cp /repo/Cargo.lock $c/Cargo.lock; done
(cd tools/astdump && cargo build -q --release --offline --target-dir /verif/.cache/astdump)
(cd tools/vreplay && cargo build -q --offline --target-dir /verif/.cache/vreplay)
(cd kani/c18 && cargo build -q --offline --target-dir /verif/.cache/c18-native && cargo build -q --release --offline --target-dir /verif/.cache/c18-native)
# warm the MIR cache (checks re-dump whenever /repo's sources change)
python3-vt -c "
import sys; sys.path.insert(0, '/verif')
from vlib.mirsym.engine import load_program
p = load_program(('core',)); print('core MIR:', len(p.funcs), 'bodies')
p = load_program(('core', 'cli')); print('core+cli MIR:', len(p.funcs), 'bodies')
p = load_program(('annotation',)); print('annotation MIR:', len(p.funcs), 'bodies')
# native drivers composed from /repo/cli/src and /repo/annotation/src (rebuilt by the checks whenever those change)
from vlib.harness import build_clidrv
print('cli driver:', build_clidrv())
from checks.c19 import build_anndrv
print('annotation driver:', build_anndrv())
"
echo setup done
