"""C11 - definitions are emitted exactly once each and after the definitions they use.

(a) topsort::sort_by_indices  - every permutation of N <= 6 (indices symbolic, Distinct)
(b) topsort::toposort_impl    - every graph with N nodes and <= D dependency slots per node, slot
                                targets symbolic: output is a permutation; topological if acyclic
(c) topsort::topsort on IR    - K items (struct / algebraic enum / alias / const) whose reference
                                slots sit at forked positions (field, Vec, Option, HashMap value, array,
                                slice, generic argument, nested generic argument, foreign generic,
                                newtype variant, struct-variant field, alias target, const type) and
                                whose targets are symbolic over the item names + a foreign name
"""
import itertools
import time

import z3

from vlib.common import Inconclusive, seed
from vlib.harness import Replayer, pmap
from vlib.mirsym.engine import load_program, new_interp
from vlib.mirsym.ir import IR
from vlib.mirsym.values import *  # noqa

_PROG = None


def prog():
    global _PROG
    if _PROG is None:
        _PROG = load_program(("core",))
    return _PROG


def conc(m, v):
    if isinstance(v, int):
        return v
    return m.eval(v, model_completion=True).as_long()


# ------------------------------------------------------------------------------- (a)
def case_sort_by_indices(n):
    P = prog()
    I = new_interp(P)
    res = {"paths": 0, "violations": [], "notes": []}

    def entry(I):
        idx = [z3.BitVec("i%d" % k, 64) for k in range(n)]
        for x in idx:
            I.assume(z3.ULT(x, n))
        if n > 1:
            I.assume(z3.Distinct(*idx))
        data = list(range(100, 100 + n))
        I.call_static("topsort::sort_by_indices::<u32>", [SliceRef(data, 0, n), RVec(list(idx))])
        return idx, data

    for kind, out, pc in I.explore(entry, max_paths=10000):
        res["paths"] += 1
        if kind == "panic":
            m = I.sat_model()
            idx = [z3.BitVec("i%d" % k, 64) for k in range(n)]
            res["violations"].append({"kind": "panic", "msg": out.msg, "indices": [conc(m, x) for x in idx]})
            continue
        idx, data = out
        # post: data'[i] == old[indices[i]]   (old[j] = 100 + j)
        bad = z3.Or([idx[i] != (data[i] - 100) for i in range(n)])
        m = I.sat_model(bad)
        if m is not None:
            res["violations"].append({"kind": "wrong-permutation", "indices": [conc(m, x) for x in idx], "result": data})
    res.update(queries=I.queries, solver_s=I.solver_s, funcs=sorted(I.called), models=sorted(I.models_hit))
    return res


# ------------------------------------------------------------------------------- (b)
def acyclic_formula(n, edge):
    """z3: the graph on n nodes with edge(i,j) Bool terms has no cycle (n <= 5: enumerate simple cycles)"""
    cyc = []
    for k in range(1, n + 1):
        for nodes in itertools.permutations(range(n), k):
            if nodes[0] != min(nodes):
                continue
            cyc.append(z3.And([edge(nodes[i], nodes[(i + 1) % k]) for i in range(k)]))
    return z3.Not(z3.Or(cyc)) if cyc else z3.BoolVal(True)


def case_toposort_impl(case):
    n, shape = case          # shape: tuple of slot counts per node
    P = prog()
    I = new_interp(P)
    res = {"paths": 0, "violations": [], "notes": []}

    def mk():
        return [[z3.BitVec("e%d_%d" % (i, s), 64) for s in range(shape[i])] for i in range(n)]

    def entry(I):
        g = mk()
        for row in g:
            for x in row:
                I.assume(z3.ULT(x, n))
        graph = RVec([RVec(list(row)) for row in g])
        r = I.call_static("topsort::toposort_impl", [Ref([graph], 0)])
        return g, r.items

    for kind, out, pc in I.explore(entry, max_paths=200000):
        res["paths"] += 1
        if kind == "panic":
            m = I.sat_model()
            res["violations"].append({"kind": "panic", "msg": out.msg, "graph": [[conc(m, x) for x in row] for row in mk()]})
            continue
        g, order = out
        order = [conc(None, x) if isinstance(x, int) else x for x in order]
        if any(not isinstance(x, int) for x in order):
            # result entries are symbolic copies of loop indices only if something odd happened
            m = I.sat_model()
            order = [conc(m, x) for x in order]
        if sorted(order) != list(range(n)):
            m = I.sat_model()
            res["violations"].append({"kind": "not-a-permutation", "graph": [[conc(m, x) for x in row] for row in g], "result": order})
            continue
        pos = {v: k for k, v in enumerate(order)}

        def edge(i, j):
            return z3.Or([x == j for x in g[i]]) if g[i] else z3.BoolVal(False)
        acyc = acyclic_formula(n, edge)
        wrong = z3.Or([z3.And(edge(i, j), z3.BoolVal(pos[j] > pos[i])) for i in range(n) for j in range(n) if i != j])
        m = I.sat_model(z3.And(acyc, wrong))
        if m is not None:
            res["violations"].append({"kind": "not-topological", "graph": [[conc(m, x) for x in row] for row in g], "result": order})
    res.update(queries=I.queries, solver_s=I.solver_s, funcs=sorted(I.called), models=sorted(I.models_hit))
    return res


# ------------------------------------------------------------------------------- (c)
POSITIONS = ["field", "vec", "option", "map_value", "map_key", "array", "slice", "generic_arg_local", "generic_arg_foreign",
             "nested_generic_arg", "newtype_variant", "struct_variant_field", "alias_target", "const_type", "vec_option"]
NAMES = "ABCD"
FOREIGN = ord("Z")


def wrap(ir, pos, t):
    """the type expression that places reference t at position kind `pos` (inside a field/alias/...)"""
    if pos in ("field", "newtype_variant", "struct_variant_field", "alias_target", "const_type"):
        return t
    if pos == "vec":
        return ir.vec(t)
    if pos == "option":
        return ir.option(t)
    if pos == "vec_option":
        return ir.vec(ir.option(t))
    if pos == "map_value":
        return ir.hashmap(ir.special("String"), t)
    if pos == "map_key":
        return ir.hashmap(t, ir.special("U32"))
    if pos == "array":
        return ir.array(t, 2)
    if pos == "slice":
        return ir.slice(t)
    if pos == "generic_arg_local":
        return ir.generic("G", [t])           # G is one of the items (a generic struct)
    if pos == "generic_arg_foreign":
        return ir.generic("Wrapper", [t])     # Wrapper is not typeshared
    if pos == "nested_generic_arg":
        return ir.generic("G", [ir.vec(t)])
    # positions of a generic referrer (G<T>) that mention its own parameter next to the reference
    if pos == "map_param_key":
        return ir.hashmap(ir.simple("T"), t)
    if pos == "foreign_generic_with_param":
        return ir.generic("Wrapper", [ir.simple("T"), t])
    if pos == "applied_to_param":
        return ir.generic(t.fields[0], [ir.simple("T")])              # Target<T>
    if pos == "vec_applied_to_param":
        return ir.vec(ir.generic(t.fields[0], [ir.option(ir.simple("T"))]))   # Vec<Target<Option<T>>>
    raise KeyError(pos)


def swift_override(ir):
    """(round n) decorators of a field that carries `#[typeshare(swift(type = "Ovr"))]`: an override for ONE language says nothing
    about the others, so the field's Rust type still orders the definitions (the native replay generates TypeScript)"""
    L = ir.L if hasattr(ir, "L") else ir.layout
    key = EnumV("language::SupportedLanguage", L.enums["SupportedLanguage"].index("Swift"), [])
    return RMap("HashMap", [[key, RMap("BTreeSet", [[L.make_adt("rust_types::FieldDecorator::NameValue", [S("type"), S("Ovr")], None), UNIT]])]])


def build_items(ir, kinds, slots, targets):
    """kinds[i] in struct/enum/alias/const; slots[i] = list of position kinds; targets[i][s] = char term"""
    items = []
    for i, kind in enumerate(kinds):
        name = NAMES[i]
        refs = []
        for s, pos in enumerate(slots[i]):
            t = ir.simple(RString([targets[i][s]]))
            refs.append((pos, wrap(ir, pos, t)))
        if kind in ("struct", "rstruct"):
            fields = [ir.field("f%d" % k, ty, decorators=swift_override(ir) if k == 0 else None) for k, (pos, ty) in enumerate(refs)]
            # rstruct: serde-renamed (emitted as R<name>); references inside types always carry the Rust name
            items.append(ir.item("Struct", ir.struct(name, fields, renamed=("R" + name) if kind == "rstruct" else None, serde_rename=(kind == "rstruct") or None)))
        elif kind == "enum":
            vs = [ir.v_unit("U")]
            for k, (pos, ty) in enumerate(refs):
                if pos == "struct_variant_field":
                    vs.append(ir.v_anon("S%d" % k, [ir.field("x", ty, decorators=swift_override(ir))]))
                else:
                    vs.append(ir.v_tuple("T%d" % k, ty))
            items.append(ir.item("Enum", ir.enum_alg(name, vs)))
        elif kind == "alias":
            ty = refs[0][1] if refs else ir.special("String")
            items.append(ir.item("Alias", ir.alias(name, ty)))
        elif kind == "const":
            ty = refs[0][1] if refs else ir.special("U32")
            items.append(ir.item("Const", ir.const(name, ty, 1)))
        elif kind == "gstruct":
            fields = [ir.field("v", ir.simple("T"))] + [ir.field("f%d" % k, ty) for k, (pos, ty) in enumerate(refs)]
            items.append(ir.item("Struct", ir.struct("G", fields, generics=["T"])))
    return items


def case_topsort(case):
    kinds, slots = case
    P = prog()
    ir = IR(P.layout)
    I = new_interp(P, max_steps=400000)
    n = len(kinds)
    names = [("G" if k == "gstruct" else NAMES[i]) for i, k in enumerate(kinds)]
    res = {"paths": 0, "violations": [], "notes": []}

    def tvars():
        return [[z3.BitVec("t%d_%d" % (i, s), 32) for s in range(len(slots[i]))] for i in range(n)]

    def entry(I):
        tv = tvars()
        allowed = [ord(x) for x in names] + [FOREIGN]
        for row in tv:
            for t in row:
                I.assume(z3.Or([t == a for a in allowed]))
        items = build_items(ir, kinds, slots, tv)
        # generate_types feeds topsort with aliases, structs, enums, consts - each sorted by name (reconcile_aliases)
        rank = {"alias": 0, "struct": 1, "rstruct": 1, "gstruct": 1, "enum": 2, "const": 3}
        order0 = sorted(range(n), key=lambda i: (rank[kinds[i]], names[i]))
        items = [items[i] for i in order0]
        if "rstruct" in kinds:
            # the real pipeline: reconcile_aliases first rewrites references to serde-renamed items (and sorts), then
            # generate_types chains aliases, structs, enums, consts into topsort
            from vlib.mirsym import bharness
            L = I.prog.layout
            vals = {"Alias": [], "Struct": [], "Enum": [], "Const": []}
            for it in items:
                vals[L.enums["RustItem"][it.variant]].append(it.fields[0])
            pd = ir.parsed_data(structs=vals["Struct"], enums=vals["Enum"], aliases=vals["Alias"], consts=vals["Const"])
            pd = bharness.reconcile_single(I, pd)
            pdn = L.structs["ParsedData"]
            items = [ir.item(k, x) for k, f in (("Alias", "aliases"), ("Struct", "structs"), ("Enum", "enums"), ("Const", "consts")) for x in pd.fields[pdn.index(f)].items]
        I.call_static("topsort::topsort", [SliceRef(items, 0, len(items))])
        return tv, items

    def conc_case(m):
        tv = tvars()
        return {"kinds": list(kinds), "slots": [list(s) for s in slots], "targets": [[chr(conc(m, t)) for t in row] for row in tv]}

    try:
        for kind, out, pc in I.explore(entry, max_paths=100000):
            res["paths"] += 1
            if kind == "panic":
                res["violations"].append({"kind": "panic", "msg": out.msg, "case": conc_case(I.sat_model())})
                continue
            tv, items = out
            order = [pystr(ir.item_name(it)) for it in items]
            if sorted(order) != sorted(names):
                res["violations"].append({"kind": "not-a-permutation", "result": order, "case": conc_case(I.sat_model())})
                continue
            pos = {v: k for k, v in enumerate(order)}
            idx = {nm: i for i, nm in enumerate(names)}

            def edge(i, j):
                ts = [t == ord(names[j]) for t in tv[i]]
                # implicit references: generic_arg_local / nested_generic_arg slots also name G
                for s, p in enumerate(slots[i]):
                    if p in ("generic_arg_local", "nested_generic_arg") and names[j] == "G":
                        ts.append(z3.BoolVal(True))
                return z3.Or(ts) if ts else z3.BoolVal(False)
            acyc = acyclic_formula(n, edge)
            wrongs = []
            for i in range(n):
                for j in range(n):
                    if i != j and pos[names[j]] > pos[names[i]]:
                        wrongs.append(edge(i, j))
            if not wrongs:
                continue
            m = I.sat_model(z3.And(acyc, z3.Or(wrongs)))
            if m is not None:
                c = conc_case(m)
                # which slot is the offending reference?
                off = None
                for i in range(n):
                    for s, t in enumerate(tv[i]):
                        tgt = chr(conc(m, t))
                        if tgt in pos and tgt != names[i] and pos[tgt] > pos[names[i]]:
                            off = (i, s, slots[i][s], kinds[i], kinds[names.index(tgt)] == "rstruct")
                res["violations"].append({"kind": "not-topological", "result": order, "case": c, "target_renamed": bool(off and off[4]),
                                          "offending_position": off[2] if off else "implicit-generic", "referrer_kind": off[3] if off else kinds[0]})
    except Unsupported as e:
        if "budget exhausted" in str(e) or "call depth exceeded" in str(e):
            m = I.sat_model()
            res["violations"].append({"kind": "divergence", "msg": str(e), "case": conc_case(m)})
        else:
            raise
    res.update(queries=I.queries, solver_s=I.solver_s, funcs=sorted(I.called), models=sorted(I.models_hit))
    return res


VALID = {"rstruct": ["field", "vec", "option", "map_value", "array", "generic_arg_foreign"],
         "struct": ["field", "vec", "option", "map_value", "map_key", "array", "slice", "generic_arg_local", "generic_arg_foreign", "nested_generic_arg", "vec_option"],
         "gstruct": ["field", "vec", "option", "array", "generic_arg_foreign", "map_param_key", "foreign_generic_with_param", "applied_to_param", "vec_applied_to_param"],
         "enum": ["newtype_variant", "struct_variant_field", "vec", "option", "map_value", "array", "slice", "generic_arg_local", "generic_arg_foreign", "nested_generic_arg"],
         "alias": ["alias_target", "vec", "option", "map_value", "array", "slice", "generic_arg_local", "generic_arg_foreign", "nested_generic_arg"],
         "const": ["const_type"]}
DEFAULT = {"struct": "field", "rstruct": "field", "gstruct": "field", "enum": "newtype_variant", "alias": "alias_target", "const": "const_type"}


def topsort_cases(tier):
    """(kinds, slots): item 0 is the primary referrer with two reference slots at varied positions; the other
    items have one slot each.  quick: 3 items; thorough: also 4 items and varied secondary positions."""
    kind_sets = [("struct", "struct", "struct"), ("struct", "enum", "alias"), ("enum", "alias", "struct"), ("alias", "struct", "const"),
                 ("const", "struct", "alias"), ("struct", "gstruct", "struct"), ("enum", "gstruct", "alias"), ("alias", "gstruct", "struct"),
                 ("gstruct", "struct", "struct"), ("gstruct", "enum", "enum"), ("gstruct", "enum", "struct"),
                 ("struct", "rstruct", "struct"), ("alias", "rstruct", "enum"), ("rstruct", "rstruct", "struct"), ("enum", "struct", "rstruct"),
                 ("alias", "struct", "alias"), ("alias", "enum", "alias"), ("alias", "alias", "struct"), ("alias", "alias", "alias")]
    if tier == "thorough":
        kind_sets += [("struct", "struct", "struct", "struct"), ("enum", "enum", "struct"), ("alias", "alias", "alias"),
                      ("struct", "gstruct", "enum", "alias"), ("enum", "struct", "alias", "const"), ("alias", "enum", "gstruct", "struct")]
    cases = []
    sd = seed()
    for ks in kind_sets:
        has_g = "gstruct" in ks
        v0 = [p for p in VALID[ks[0]] if has_g or p not in ("generic_arg_local", "nested_generic_arg")]
        if ks[0] in ("alias", "const"):
            firsts = [(p,) for p in v0]
        elif tier == "thorough" and len(ks) == 3:
            firsts = [(p1, p2) for p1 in v0 for p2 in v0 if p1 <= p2]
        else:
            firsts = [(p1, DEFAULT[ks[0]]) for p1 in v0] + [(v0[(sd + k) % len(v0)], v0[(sd * 7 + 3 * k + 1) % len(v0)]) for k in range(2)]
        for f in firsts:
            rest_opts = [[DEFAULT[k]] for k in ks[1:]]
            if tier == "thorough" and len(ks) == 3:
                rest_opts = [[DEFAULT[k]] + [p for p in ("vec", "option") if p in VALID[k]] for k in ks[1:]]
            import itertools as it
            combos = list(it.product(*rest_opts))
            if tier == "thorough" and len(combos) > 4:
                combos = combos[:1] + [combos[(sd + 1) % len(combos)], combos[(sd * 5 + 2) % len(combos)], combos[-1]]
            for rest in combos:
                cases.append((ks, (tuple(f),) + tuple((p,) for p in rest)))
    return sorted(set(cases))


def render_source(case):
    """Rust source for a concrete (c) case: used by the native replayer"""
    kinds, slots, targets = case["kinds"], case["slots"], case["targets"]

    def ty(pos, t):
        return {"field": t, "newtype_variant": t, "struct_variant_field": t, "alias_target": t, "const_type": t, "vec": "Vec<%s>" % t,
                "option": "Option<%s>" % t, "vec_option": "Vec<Option<%s>>" % t, "map_value": "HashMap<String, %s>" % t,
                "map_key": "HashMap<%s, u32>" % t, "array": "[%s; 2]" % t, "slice": "&'static [%s]" % t,
                "generic_arg_local": "G<%s>" % t, "generic_arg_foreign": "Wrapper<%s>" % t, "nested_generic_arg": "G<Vec<%s>>" % t,
                "map_param_key": "HashMap<T, %s>" % t, "foreign_generic_with_param": "Wrapper<T, %s>" % t, "applied_to_param": "%s<T>" % t, "vec_applied_to_param": "Vec<%s<Option<T>>>" % t}[pos]
    out = []
    for i, k in enumerate(kinds):
        nm = "G" if k == "gstruct" else NAMES[i]
        refs = [ty(p, targets[i][s]) for s, p in enumerate(slots[i])]
        if k in ("struct", "rstruct"):
            out.append("#[typeshare]\n%spub struct %s { %s }" % ('#[serde(rename = "R%s")]\n' % nm if k == "rstruct" else "", nm, ", ".join("%spub f%d: %s" % ('#[typeshare(swift(type = "Ovr"))] ' if j == 0 else "", j, r) for j, r in enumerate(refs))))
        elif k == "gstruct":
            out.append("#[typeshare]\npub struct G<T> { pub v: T, %s }" % ", ".join("pub f%d: %s" % (j, r) for j, r in enumerate(refs)))
        elif k == "enum":
            vs = ["U"]
            for j, r in enumerate(refs):
                vs.append(('S%d { #[typeshare(swift(type = "Ovr"))] x: %s }' % (j, r)) if slots[i][j] == "struct_variant_field" else "T%d(%s)" % (j, r))
            out.append('#[typeshare]\n#[serde(tag = "type", content = "content")]\npub enum %s { %s }' % (nm, ", ".join(vs)))
        elif k == "alias":
            out.append("#[typeshare]\npub type %s = %s;" % (nm, refs[0] if refs else "String"))
        elif k == "const":
            out.append("#[typeshare]\npub const %s: %s = 1;" % (nm, refs[0] if refs else "u32"))
    return "\n".join(out) + "\n"


def native_order(rep, case):
    """definition order in the real TypeScript output for the concrete case"""
    import re
    src = render_source(case)
    r = rep.ask({"op": "generate", "lang": "typescript", "files": [{"source": src}]})
    if "panic" in r or "crash" in r:
        return "panic", src, r
    if "out" not in r:
        return None, src, r
    text = r["out"].get("", "")
    order = re.findall(r"^export (?:interface|type|const|enum) (\w+)", text, re.M)
    # a serde-renamed struct `X` is emitted as `RX`: map it back to its Rust name
    order = [(o[1] if len(o) == 2 and o[0] == "R" else o) for o in order]
    order = [o for o in order if len(o) == 1]
    return order, src, r


def confirm_topsort_violation(rep, v):
    """replay: the real library must also emit a definition before something it refers to"""
    case = v["case"]
    order, src, raw = native_order(rep, case)
    if order == "panic":
        return True, "real library panics/crashes: %s" % str(raw)[:200], src
    if order is None:
        return None, "no output: %s" % str(raw)[:300], src
    names = ["G" if k == "gstruct" else NAMES[i] for i, k in enumerate(case["kinds"])]
    if v["kind"] == "not-a-permutation":
        return sorted(order) != sorted(names), "definitions %s for items %s" % (order, names), src
    if v["kind"] in ("panic", "divergence"):
        return False, "real library terminated normally with %s" % order, src
    pos = {nm: k for k, nm in enumerate(order)}
    for i, row in enumerate(case["targets"]):
        for s, t in enumerate(row):
            if t in pos and names[i] in pos and t != names[i] and pos[t] > pos[names[i]]:
                return True, "`%s` is emitted before `%s`, which it refers to through %s (order %s)" % (names[i], t, case["slots"][i][s], order), src
    for i, sl in enumerate(case["slots"]):
        if any(p in ("generic_arg_local", "nested_generic_arg") for p in sl) and "G" in pos and pos["G"] > pos[names[i]]:
            return True, "`%s` is emitted before `G`, which it instantiates (order %s)" % (names[i], order), src
    return False, "real order %s respects the references" % order, src


def run(rep, tier, only=None):
    prog()
    nat = Replayer()
    t0 = time.time()
    rep.bounds = {"sort_by_indices": "all permutations, N <= %d" % (5 if tier == "quick" else 6),
                  "toposort_impl": "all graphs: N<=3 nodes with <=2 slots (quick) / N<=3 with <=3 slots and N=4 with <=2 slots (thorough), targets symbolic",
                  "topsort": "3-4 items of kinds struct/generic struct/algebraic enum/alias/const, <=2 reference slots per item at the listed positions, symbolic targets"}
    rep.outside = ["more than 4 items", "reference positions not listed (e.g. three levels of nesting)", "Scala (own ordering) and the per-language printers"]
    # validation of the interpreter on the repo's own unit tests
    I = new_interp(_PROG)
    g = RVec([RVec([]), RVec([0]), RVec([0, 1])])
    if I.call_static("topsort::toposort_impl", [Ref([g], 0)]).items != [0, 1, 2]:
        raise Inconclusive("selftest: test_toposort_impl vector not reproduced")
    g = RVec([RVec([1]), RVec([0]), RVec([1])])
    if I.call_static("topsort::toposort_impl", [Ref([g], 0)]).items not in ([0, 1, 2], [1, 0, 2]):
        raise Inconclusive("selftest: test_toposort_impl_cycles vector not reproduced")
    rep.validated += 2

    def account(r):
        rep.states += r["paths"]
        rep.queries += r["queries"]
        rep.solver_s += r["solver_s"]
        rep.functions.update(r["funcs"])
        rep.models.update(r["models"])

    # (a)
    if not only or "a" in only:
        ns = range(1, 6) if tier == "quick" else range(1, 7)
        for st, n, r in pmap(("checks.c11", "case_sort_by_indices"), list(ns)):
            rep.obligations += 1
            if st != "ok":
                rep.inconc("sort_by_indices N=%s: %s" % (n, r)); continue
            account(r)
            rep.harnesses["sort_by_indices N=%d" % n] = r["paths"]
            if not r["violations"]:
                rep.discharged += 1
                if n >= 4:
                    rep.sample({"harness": "sort_by_indices", "N": n, "paths": r["paths"], "verdict": "result[i] == old[indices[i]] for every permutation (unsat on every path)"})
            for v in r["violations"]:
                # native replay: sort_by_indices is pub(crate); reproduce through topsort is not possible -> report with the concrete vector,
                # confirmed by re-running the interpreter concretely
                I2 = new_interp(_PROG)
                data = list(range(100, 100 + n))
                try:
                    I2.call_static("topsort::sort_by_indices::<u32>", [SliceRef(data, 0, n), RVec(list(v["indices"]))])
                    bad = [data[i] - 100 for i in range(n)] != v["indices"]
                except Panic:
                    bad = True
                rep.validated += 1
                if bad:
                    rep.violation({"part": "sort_by_indices", "kind": v["kind"]}, "sort_by_indices(%s) -> %s" % (v["indices"], v.get("result", v.get("msg"))), v)
                else:
                    rep.inconc("sort_by_indices counterexample did not reproduce concretely: %s" % v)
    # (b)
    if not only or "b" in only:
        shapes = [(n, sh) for n in (1, 2, 3) for sh in itertools.product(range(3), repeat=n)]
        if tier == "thorough":
            shapes += [(3, sh) for sh in itertools.product(range(4), repeat=3) if max(sh) == 3]
            shapes += [(4, sh) for sh in itertools.product(range(3), repeat=4)]
        for st, case, r in pmap(("checks.c11", "case_toposort_impl"), shapes):
            rep.obligations += 1
            if st != "ok":
                rep.inconc("toposort_impl %s: %s" % (case, r)); continue
            account(r)
            if not r["violations"]:
                rep.discharged += 1
                if case[0] == 3 and sum(case[1]) >= 5 and len(rep.samples) < 8:
                    rep.sample({"harness": "toposort_impl", "nodes": case[0], "slots": case[1], "paths": r["paths"], "verdict": "permutation, and topological whenever acyclic"})
            for v in r["violations"][:3]:
                I2 = new_interp(_PROG)
                g = RVec([RVec(list(row)) for row in v["graph"]])
                try:
                    out = I2.call_static("topsort::toposort_impl", [Ref([g], 0)]).items
                except Panic as p:
                    out = "panic: " + p.msg
                rep.validated += 1
                rep.violation({"part": "toposort_impl", "kind": v["kind"]}, "toposort_impl(%s) -> %s" % (v["graph"], out), v)
        rep.harnesses["toposort_impl shapes"] = len(shapes)
    # (c)
    if not only or "c" in only:
        cases = topsort_cases(tier)
        seen_sig = set()
        for st, case, r in pmap(("checks.c11", "case_topsort"), cases):
            rep.obligations += 1
            if st != "ok":
                rep.inconc("topsort %s: %s" % (case, r)); continue
            account(r)
            if not r["violations"]:
                rep.discharged += 1
                if len(rep.samples) < 12:
                    rep.sample({"harness": "topsort", "kinds": case[0], "slots": case[1], "paths": r["paths"], "verdict": "permutation; dependencies first whenever the reference graph is acyclic"})
                continue
            rep.discharged += 1
            for v in r["violations"]:
                sig = {"part": "topsort", "kind": v["kind"], "position": v.get("offending_position", "-"), "referrer": v.get("referrer_kind", "-")}
                if v.get("target_renamed"):
                    sig["target"] = "serde-renamed struct"
                key = tuple(sorted(sig.items()))
                if key in seen_sig:
                    continue
                ok, why, src = confirm_topsort_violation(nat, v)
                rep.validated += 1
                if ok:
                    seen_sig.add(key)
                    rep.violation(sig, why, {"case": v["case"], "source": src, "kind": v["kind"]})
                elif ok is None:
                    rep.inconc("replay of %s: %s" % (sig, why))
                # a counterexample that does not reproduce with this witness may still reproduce with another one of the
                # same class; only report an engine mismatch if no witness of the class reproduces
                else:
                    rep.extra.setdefault("unreproduced", []).append({"sig": sig, "why": why})
        # classes for which no witness reproduced natively
        for u in rep.extra.get("unreproduced", []):
            key = tuple(sorted(u["sig"].items()))
            if key not in seen_sig:
                seen_sig.add(key)
                rep.inconc("engine mismatch: topsort counterexample class %s does not reproduce natively (%s)" % (u["sig"], u["why"]))
        rep.harnesses["topsort cases"] = len(cases)
    nat.close()
    rep.extra["explore_s"] = round(time.time() - t0, 1)
    rep.assumptions = ["item names are the concrete letters A-D/G; reference targets are symbolic over {item names, foreign Z}",
                       "oracle reference graph: every name occurring in a slot of an item (plus the generic G it instantiates)"]


def replay(case):
    rep = Replayer()
    c = case["case"]
    ok, why, src = confirm_topsort_violation(rep, {"case": c["case"], "kind": c.get("kind", "not-topological")})
    rep.close()
    print(why)
    return 1 if ok else 0
