"""C06 - output is a deterministic function of the inputs, not of scheduling or hashing.

Engine M on the MIR of typeshare-cli + typeshare-core.

fold  : the collector closure of `parallel_parse` (crossbeam receiver modelled as the arrival sequence),
        `ParsedData += ParsedData`, `reconcile_aliases` and `all_types` are executed for the identity arrival
        order and for a permuted one *in the same symbolic run*; item names are symbolic (so equal names,
        and imports that collide with local names, are covered); z3 decides that the two normal forms
        (structs / enums / aliases / consts as sequences, import_types / type_names / CrateTypes as sets)
        are equal for every name assignment.  Every permutation up to the bound, adjacent transpositions beyond.
hash  : reconcile + all_types + generate_types (each language, both modes) are executed under *every*
        iteration order of every HashMap/HashSet that is iterated (the engine forks per iteration): the bytes
        must be the same on all paths.
Counterexamples are replayed with the real binary: the same items are split over files in every way / the
process is repeated with fresh hash seeds, and output bytes are compared.
"""
import itertools
import time

import z3

from vlib.common import Inconclusive, seed
from vlib.harness import pmap
from vlib.mirsym.engine import load_program, new_interp
from vlib.mirsym.ir import IR
from vlib.mirsym import bharness
from vlib.mirsym.models_iter import ListIt
from vlib.mirsym.values import *  # noqa
from checks.pcommon import account, finish_case

_PROG = None
LANGS = ["typescript", "kotlin", "swift", "scala", "go", "python"]
EXT = {"typescript": "ts", "kotlin": "kt", "swift": "swift", "scala": "scala", "go": "go", "python": "py"}
PRIMS = ["U32", "String", "Bool", "I32", "F64", "U8"]
PRIM_SRC = {"U32": "u32", "String": "String", "Bool": "bool", "I32": "i32", "F64": "f64", "U8": "u8"}
ALPHA = "ABCDEF"


def nalpha(k):
    """names are T + one of the first nalpha(k) letters (k <= 4: as many letters as files; beyond: three)"""
    return max(2, k) if k <= 4 else 3


def prog():
    global _PROG
    if _PROG is None:
        _PROG = load_program(("core", "cli"))
    return _PROG


# ---- structural equality as a formula -----------------------------------------------------------------
def conj(cs):
    out = []
    for c in cs:
        if c is False:
            return False
        if c is True:
            continue
        out.append(c)
    return z3.And(out) if out else True


def disj(cs):
    out = []
    for c in cs:
        if c is True:
            return True
        if c is False:
            continue
        out.append(c)
    return z3.Or(out) if out else False


def eqf(a, b):
    a, b = deref(a), deref(b)
    if isinstance(a, BoxV):
        a = a.cell[0]
    if isinstance(b, BoxV):
        b = b.cell[0]
    if is_sym(a) or is_sym(b):
        if isinstance(a, bool) or isinstance(b, bool) or z3.is_bool(a) or z3.is_bool(b):
            return a == b
        if not is_sym(a):
            a = z3.BitVecVal(a, b.size())
        if not is_sym(b):
            b = z3.BitVecVal(b, a.size())
        return a == b
    if isinstance(a, (int, bool, str)) or a is None or isinstance(a, tuple):
        return a == b
    if type(a) is not type(b):
        return False
    if isinstance(a, RString):
        return conj([len(a.chars) == len(b.chars)] + ([eqf(x, y) for x, y in zip(a.chars, b.chars)] if len(a.chars) == len(b.chars) else []))
    if isinstance(a, RVec):
        return conj([len(a.items) == len(b.items)] + ([eqf(x, y) for x, y in zip(a.items, b.items)] if len(a.items) == len(b.items) else []))
    if isinstance(a, EnumV):
        if a.variant != b.variant or len(a.fields) != len(b.fields):
            return False
        return conj([eqf(x, y) for x, y in zip(a.fields, b.fields)])
    if isinstance(a, (Agg, Closure)):
        if len(a.fields) != len(b.fields):
            return False
        return conj([eqf(x, y) for x, y in zip(a.fields, b.fields)])
    if isinstance(a, RMap):
        ent = lambda e, f: conj([eqf(e[0], f[0]), eqf(e[1], f[1])]) if not a.is_set() else eqf(e[0], f[0])
        inc = lambda xs, ys: conj([disj([ent(e, f) for f in ys]) for e in xs])
        return conj([inc(a.entries, b.entries), inc(b.entries, a.entries)])
    if isinstance(a, Opaque):
        return True
    if hasattr(a, "s") and isinstance(getattr(a, "s"), RString):      # syn Ident / LitStr
        return eqf(a.s, b.s)
    if hasattr(a, "__slots__"):
        return conj([eqf(getattr(a, k), getattr(b, k)) for k in a.__slots__])
    if isinstance(a, dict):
        return a == b
    if isinstance(a, list):
        return conj([len(a) == len(b)] + ([eqf(x, y) for x, y in zip(a, b)] if len(a) == len(b) else []))
    raise Unsupported("eqf of %r" % (a,))


# ---- files ----------------------------------------------------------------------------------------------
def name_of(c):
    return RString([ord("T"), c])


def mk_file(I, ir, kind, i, c, crate, file_name, multi, rc=None):
    """ParsedData of one source file, built through the real ParsedData::new / push"""
    L = I.prog.layout
    pd = I.call_static("parser::ParsedData::new", [Agg("language::CrateName", [S(crate)]), S(file_name), multi])
    nm = name_of(c)
    u32 = ir.special("U32")
    if kind == "S":
        item = ir.item("Struct", ir.struct(nm, [ir.field("f%d" % i, u32)]))
    elif kind == "E":
        item = ir.item("Enum", ir.enum_unit(nm, [ir.v_unit("V%d" % i)]))
    elif kind == "A":
        item = ir.item("Alias", ir.alias(nm, ir.special(PRIMS[i % len(PRIMS)])))
    elif kind == "C":
        item = ir.item("Const", ir.const(nm, u32, i))
    elif kind == "R":
        item = ir.item("Struct", ir.struct("H%d" % i, [ir.field("r", ir.simple(nm))]))
    elif kind == "N":
        # a struct carrying a type-level serde(rename): original T<c>, emitted as T<rc>
        item = ir.item("Struct", ir.struct(nm, [ir.field("f%d" % i, u32)], renamed=name_of(rc if rc is not None else c), serde_rename=True))
    cell = [pd]
    I.call_static("parser::ParsedData::push", [Ref(cell, 0), item])
    pd = cell[0]
    if kind == "R" and multi:
        imp = L.make_adt("visitors::ImportedType", [Agg("language::CrateName", [S("b")]), RString(list(nm.chars))], ["base_crate", "type_name"])
        pd.fields[L.structs["ParsedData"].index("import_types")].entries.append([imp, UNIT])
    return pd


def render_file(kind, i, ch, rch=None):
    nm = "T" + ch
    if kind == "N":
        return "#[typeshare]\n#[serde(rename = \"T%s\")]\npub struct %s { pub f%d: u32 }\n" % (rch or ch, nm, i)
    if kind == "S":
        return "#[typeshare]\npub struct %s { pub f%d: u32 }\n" % (nm, i)
    if kind == "E":
        return "#[typeshare]\npub enum %s { V%d }\n" % (nm, i)
    if kind == "A":
        return "#[typeshare]\npub type %s = %s;\n" % (nm, PRIM_SRC[PRIMS[i % len(PRIMS)]])
    if kind == "C":
        return "#[typeshare]\npub const %s: u32 = %d;\n" % (nm, i)
    return "use b::%s;\n#[typeshare]\npub struct H%d { pub r: %s }\n" % (nm, i, nm)


def collect(I, files):
    """the collector closure of parallel_parse on the arrival sequence `files`"""
    P = I.prog
    key = [k for k in P.funcs if k.endswith("parse::parallel_parse::{closure#0}") or k == "parse::parallel_parse::{closure#0}"]
    if not key:
        raise Unsupported("collector closure of parallel_parse not found in the MIR")
    fn = key[0]
    rx = ListIt([OK(f) for f in files], False)
    r = I.call_mir(fn, [Closure("<closure collector>", [rx])])
    if r.variant != 0:
        raise Unsupported("collector returned Err")
    return r.fields[0]


def pipeline(I, ir, kinds, chars, order, multi, rchars=None):
    crate = "a" if multi else ""
    fname = "a.ts" if multi else "out.ts"
    files = [mk_file(I, ir, kinds[i], i, chars[i], crate, fname, multi, rc=(rchars[i] if rchars else None)) for i in order]
    if multi:
        # crate b defines every name that can be imported
        fb = [mk_file(I, ir, "S", 10 + j, ord(ch), "b", "b.ts", True) for j, ch in enumerate(ALPHA[:nalpha(len(kinds))])]
        # the walker delivers the files of the two crates interleaved (a, b, a, b, ..): the collector must merge per crate whatever the order
        mixed = []
        for j in range(max(len(files), len(fb))):
            mixed += files[j:j + 1] + fb[j:j + 1]
        files = mixed
    m = collect(I, files)
    cell = [m]
    I.call_static("reconcile::reconcile_aliases", [Ref(cell, 0)])
    at = I.call_static("parse::all_types", [Ref(cell, 0)]) if multi else None
    return cell[0], at


def case_fold(case):
    kinds, perm, multi = case
    P = prog()
    I = new_interp(P)
    ir = IR(P.layout)
    k = len(kinds)
    res = {"paths": 0, "violations": [], "case": ["".join(kinds), list(perm), multi]}

    def chars():
        cs = [z3.BitVec("n%d" % i, 32) for i in range(k)]
        return cs

    def rchars():
        return [z3.BitVec("r%d" % i, 32) for i in range(k)]

    def entry(I):
        cs = chars()
        rs = rchars()
        for c in cs + [rs[i] for i in range(k) if kinds[i] == "N"]:
            I.assume(z3.Or([c == ord(x) for x in ALPHA[:nalpha(k)]]))
        # emitted names of one kind are distinct as well (otherwise the output has two definitions of one name)
        emitted = [(rs[i] if kinds[i] == "N" else cs[i]) for i in range(k)]
        for i in range(k):
            for j in range(i + 1, k):
                if kinds[i] in "SN" and kinds[j] in "SN":
                    I.assume(emitted[i] != emitted[j])
        m1, at1 = pipeline(I, ir, kinds, cs, list(range(k)), multi, rs)
        m2, at2 = pipeline(I, ir, kinds, cs, list(perm), multi, rs)
        return m1, at1, m2, at2

    L = P.layout
    pn = L.structs["ParsedData"]
    for kind, out, pc in I.explore(entry, max_paths=4000):
        res["paths"] += 1
        if kind == "panic":
            res["violations"].append({"kind": "panic", "msg": out.msg}); continue
        m1, at1, m2, at2 = out
        if len(m1.entries) != len(m2.entries):
            res["violations"].append({"kind": "crate-set-differs"}); continue
        cs = chars()
        # all defined names pairwise distinct (imports may still collide with definitions)
        defs = [i for i in range(k) if kinds[i] != "R"]
        same = lambda a, b: a == b or (a in "SN" and b in "SN")
        dis = [cs[i] != cs[j] for i in defs for j in defs if i < j and same(kinds[i], kinds[j])]
        distinct = z3.And(dis) if dis else z3.BoolVal(True)   # items of one kind have pairwise distinct names

        def ask(e, fld):
            if isinstance(e, bool):
                if e:
                    return
                e = z3.BoolVal(False)
            for tie, extra in ((False, distinct), (True, z3.BoolVal(True))):
                m = I.sat_model(z3.And(z3.Not(e), extra))
                if m is not None:
                    names = "".join(chr(m.eval(c, model_completion=True).as_long()) for c in cs)
                    rn = "".join(chr(m.eval(c, model_completion=True).as_long()) for c in rchars())
                    res["violations"].append({"kind": "order-dependent", "field": fld, "names": names, "renames": rn, "equal_names": tie})
                    return
        for (c1, p1), (c2, p2) in zip(m1.entries, m2.entries):
            for fld in ("structs", "enums", "aliases", "consts", "import_types", "type_names", "file_name", "crate_name", "multi_file"):
                ask(eqf(p1.fields[pn.index(fld)], p2.fields[pn.index(fld)]), fld)
        if multi:
            ask(eqf(at1, at2), "CrateTypes")
    # one entry per (field, equal_names)
    uniq = {}
    for v in res["violations"]:
        uniq.setdefault((v["kind"], v.get("field"), v.get("equal_names")), v)
    res["violations"] = sorted(uniq.values(), key=lambda v: (bool(v.get("equal_names")), str(v.get("field"))))
    return finish_case(I, res)


# ---- hash iteration order -----------------------------------------------------------------------------
def hash_ir(I, ir, lang, multi, tree="basic"):
    L = I.prog.layout
    if tree == "glob":
        return hash_ir_glob(I, ir, lang, multi)
    u32 = ir.special("U32")
    consts_ok = lang not in ("kotlin", "swift", "scala")
    fa = "a." + EXT[lang] if multi else "out." + EXT[lang]

    def pd_of(crate, fname, items, imports=()):
        pd = I.call_static("parser::ParsedData::new", [Agg("language::CrateName", [S(crate)]), S(fname), multi])
        cell = [pd]
        for it in items:
            I.call_static("parser::ParsedData::push", [Ref(cell, 0), it])
        for (bc, tn) in imports:
            imp = L.make_adt("visitors::ImportedType", [Agg("language::CrateName", [S(bc)]), S(tn)], ["base_crate", "type_name"])
            cell[0].fields[L.structs["ParsedData"].index("import_types")].entries.append([imp, UNIT])
        return cell[0]
    a_items = [ir.item("Struct", ir.struct("Sa", [ir.field("x", ir.simple("Tb")), ir.field("y", ir.simple("Tc"))])),
               ir.item("Enum", ir.enum_unit("Ea", [ir.v_unit("V")])),
               ir.item("Alias", ir.alias("Aa", ir.simple("Renamed")))]
    if consts_ok:
        a_items.append(ir.item("Const", ir.const("KA", u32, 1)))
    files = [pd_of("a" if multi else "", fa, a_items, [("b", "Tb"), ("b", "Tc")] if multi else [])]
    b_items = [ir.item("Struct", ir.struct("Tb", [ir.field("o", u32)])), ir.item("Struct", ir.struct("Tc", [ir.field("p", u32)])),
               ir.item("Struct", ir.struct("Renamed", [ir.field("q", u32)], renamed="Other", serde_rename=True)),
               # a chain alias -> alias -> struct used as the payload of a data enum (Go decides pointer-ness from it)
               ir.item("Struct", ir.struct("Payload", [ir.field("w", u32)])), ir.item("Alias", ir.alias("Wrapped", ir.simple("Payload"))),
               ir.item("Alias", ir.alias("Handle", ir.simple("Wrapped"))),
               ir.item("Enum", ir.enum_alg("Message", [ir.v_unit("Idle"), ir.v_tuple("TwoHops", ir.simple("Handle")), ir.v_tuple("OneHop", ir.simple("Wrapped"))], tag="t", content="c"))]
    files.append(pd_of("b" if multi else "", "b." + EXT[lang] if multi else fa, b_items))
    return files


def hash_ir_glob(I, ir, lang, multi):
    """crates x and y both define `Item` (serde-renamed differently); crate z imports `x::*` and `y::Item` and refers to Item"""
    L = I.prog.layout
    u32 = ir.special("U32")

    def pd_of(crate, items, imports=()):
        pd = I.call_static("parser::ParsedData::new", [Agg("language::CrateName", [S(crate if multi else "")]), S("%s.%s" % (crate, EXT[lang]) if multi else "out." + EXT[lang]), multi])
        cell = [pd]
        for it in items:
            I.call_static("parser::ParsedData::push", [Ref(cell, 0), it])
        for (bc, tn) in imports:
            imp = L.make_adt("visitors::ImportedType", [Agg("language::CrateName", [S(bc)]), S(tn)], ["base_crate", "type_name"])
            cell[0].fields[L.structs["ParsedData"].index("import_types")].entries.append([imp, UNIT])
        return cell[0]
    files = [pd_of("x", [ir.item("Struct", ir.struct("Item", [ir.field("a", u32)], renamed="ItemV1", serde_rename=True)), ir.item("Struct", ir.struct("Xo", [ir.field("o", u32)]))]),
             pd_of("z", [ir.item("Struct", ir.struct("User", [ir.field("item", ir.simple("Item")), ir.field("xo", ir.simple("Xo"))]))],
                   [("x", "*"), ("y", "Item")] if multi else [])]
    if multi:
        files.insert(1, pd_of("y", [ir.item("Struct", ir.struct("Item", [ir.field("b", u32)], renamed="ItemV2", serde_rename=True))]))
    return files


def case_hash(case):
    lang, multi = case[0], case[1]
    tree = case[2] if len(case) > 2 else "basic"
    cap = case[3] if len(case) > 3 else 2500
    P = prog()
    I = new_interp(P)
    ir = IR(P.layout)
    res = {"paths": 0, "violations": [], "case": list(case)}

    def entry(I, mode="any"):
        I.env["hash_order"] = "insertion"
        files = hash_ir(I, ir, lang, multi, tree)
        m = collect(I, files)
        I.env["hash_order"] = mode
        cell = [m]
        I.call_static("reconcile::reconcile_aliases", [Ref(cell, 0)])
        at = I.call_static("parse::all_types", [Ref(cell, 0)]) if multi else RMap("HashMap")
        outs = []
        lg = bharness.make_lang(I, lang, {"no_version_header": True}, multi_file=multi)
        for cn, pd in cell[0].entries:
            ok, w, lg2 = bharness.generate(I, lang, pd, all_types=at, lang_value=lg)
            outs.append((pystr(cn.fields[0]), ok, bharness.concrete_text(w)))
        return outs

    first = None
    for mode in ("insertion", "reversed", "rotated"):     # whole-run orders first, see case_hash_ws
        for kind, out, pc in I.explore(lambda I, mode=mode: entry(I, mode), max_paths=20):
            res["paths"] += 1
            if kind == "panic":
                res["violations"].append({"kind": "panic", "msg": out.msg}); break
            if first is None:
                first = out
            elif out != first:
                d = [(a[0], a[2][-80:], b[2][-80:]) for a, b in zip(first, out) if a != b]
                res["violations"].append({"kind": "hash-order-dependent", "diff": d[:1], "order": mode})
                break
    if res["violations"]:
        return finish_case(I, res)
    first = None
    try:
        for kind, out, pc in I.explore(entry, max_paths=cap):
            res["paths"] += 1
            if kind == "panic":
                res["violations"].append({"kind": "panic", "msg": out.msg}); break
            if first is None:
                first = out
                if not all(o[1] for o in out) or not all(o[2] for o in out):
                    raise Unsupported("vacuity witness failed: generation produced %r" % (out,))
            elif out != first:
                d = [(a[0], a[2][-80:], b[2][-80:]) for a, b in zip(first, out) if a != b]
                res["violations"].append({"kind": "hash-order-dependent", "diff": d[:1]})
                break
    except Unsupported as e:
        if "path budget" not in str(e):
            raise
        res["capped"] = True
    return finish_case(I, res)


def case_hash_ws(case):
    """hash-iteration-order invariance of the whole folder-mode pipeline (real-syn AST -> visitor -> collector -> reconcile ->
    all_types -> generate_types) on one of the C14 workspace templates"""
    lang, form, pos = case
    from checks import c14
    P = prog()
    I = new_interp(P)
    res = {"paths": 0, "violations": [], "case": list(case)}
    files, _ = c14.workspace(form, pos, "module")
    CAP = 700

    def entry(I):
        I.env["hash_order"] = "any"
        return c14.run_pipeline(I, lang, files, True, [ord("F"), ord("x")])

    first = None
    # three whole-run orders first (insertion / reversed / rotated for EVERY hash container): the exhaustive exploration below varies the
    # last containers first and may hit its cap before it ever changes the order of an early one
    for mode in ("insertion", "reversed", "rotated"):
        def entry_mode(I, mode=mode):
            I.env["hash_order"] = mode
            return c14.run_pipeline(I, lang, files, True, [ord("F"), ord("x")])
        for kind, out, pc in I.explore(entry_mode, max_paths=20):
            res["paths"] += 1
            if kind == "panic":
                res["violations"].append({"kind": "panic", "msg": out.msg}); break
            o = {c: "".join(chr(x) for x in t[1]) for c, t in out.items()}
            if first is None:
                first = o
            elif o != first:
                d = [(c, first.get(c, "")[-80:], o.get(c, "")[-80:]) for c in sorted(set(first) | set(o)) if first.get(c) != o.get(c)]
                res["violations"].append({"kind": "hash-order-dependent", "diff": d[:1], "order": mode})
                break
    if res["violations"]:
        return finish_case(I, res)
    try:
        for kind, out, pc in I.explore(entry, max_paths=CAP):
            res["paths"] += 1
            if kind == "panic":
                res["violations"].append({"kind": "panic", "msg": out.msg}); break
            o = {c: "".join(chr(x) for x in t[1]) for c, t in out.items()}
            if first is None:
                first = o
            elif o != first:
                d = [(c, first.get(c, "")[-80:], o.get(c, "")[-80:]) for c in sorted(set(first) | set(o)) if first.get(c) != o.get(c)]
                res["violations"].append({"kind": "hash-order-dependent", "diff": d[:1]})
                break
    except Unsupported as e:
        if "path budget" not in str(e):
            raise
        res["capped"] = True
    return finish_case(I, res)


# ---- split: the same items distributed over files in every way, from source text through parser::parse ------------------------
SPLIT_ITEMS = {
    "plain": "#[typeshare]\npub struct Pa { pub a: u32 }\n",
    "path_form": "#[typeshare::typeshare]\npub struct Pb { pub b: Pa }\n",
    "list_form": '#[typeshare(swift = "Equatable")]\npub enum Pc { Va, Vb }\n',
    "in_module": "pub mod inner {\n    #[typeshare]\n    pub type Pd = Vec<u32>;\n}\n",
    "member_marker_only": "#[typeshare::typeshare]\npub struct Pe { pub keep: u32, #[typeshare(skip)] pub gone: u32 }\n",
    "const": "#[typeshare]\npub const PF: u32 = 7;\n",
}


def set_partitions(xs):
    if not xs:
        yield []
        return
    first, rest = xs[0], xs[1:]
    for part in set_partitions(rest):
        for i in range(len(part)):
            yield part[:i] + [[first] + part[i]] + part[i + 1:]
        yield [[first]] + part


def case_split(case):
    """every way of distributing the items over files gives the same normal form after fold + reconcile_aliases"""
    items, multi = case
    from vlib.mirsym import parse_entry
    P = prog()
    I = new_interp(P)
    L = P.layout
    pn = L.structs["ParsedData"]
    res = {"paths": 0, "violations": [], "case": [list(items), multi]}
    parts = list(set_partitions(list(items)))

    def run_split(I, part):
        pds = []
        for fi, names in enumerate(part):
            src = "".join(SPLIT_ITEMS[n] for n in names)
            r = parse_entry.run_parse(I, src, None, multi_file=multi, crate="a" if multi else "", file_name="a.ts" if multi else "", file_path="a/src/f%d.rs" % fi)
            if r.variant != 0:
                raise Unsupported("parser::parse returned Err on a split file")
            if r.fields[0].variant == 1:
                pds.append(r.fields[0].fields[0])
        m = collect(I, pds)
        cell = [m]
        I.call_static("reconcile::reconcile_aliases", [Ref(cell, 0)])
        return cell[0]

    def entry(I):
        return [run_split(I, part) for part in parts]

    for kind, out, pc in I.explore(entry, max_paths=200):
        res["paths"] += 1
        if kind == "panic":
            res["violations"].append({"kind": "panic", "msg": out.msg}); continue
        base = out[0]
        for part, m in zip(parts[1:], out[1:]):
            bad = None
            if len(m.entries) != len(base.entries):
                bad = "crate set"
            else:
                for (c1, p1), (c2, p2) in zip(base.entries, m.entries):
                    for fld in ("structs", "enums", "aliases", "consts", "type_names"):
                        e = eqf(p1.fields[pn.index(fld)], p2.fields[pn.index(fld)])
                        if e is False or (e is not True and I.sat_model(z3.Not(e)) is not None):
                            bad = fld
                            break
                    if bad:
                        break
            if bad:
                res["violations"].append({"kind": "split-dependent", "field": bad, "split": [list(x) for x in part], "reference": [list(x) for x in parts[0]]})
                break
    return finish_case(I, res)


def native_split(d, case, v):
    """the real binary on the two distributions: same output bytes?"""
    import os
    items, multi = case
    outs = []
    for k, part in enumerate((v["reference"], v["split"])):
        root = os.path.join(d, "w%d" % k)
        os.makedirs(os.path.join(root, "a", "src"))
        for fi, names in enumerate(part):
            open(os.path.join(root, "a", "src", "f%d.rs" % fi), "w").write("".join(SPLIT_ITEMS[n] for n in names))
        argv = ["a", "--lang", "typescript"] + (["-d", "out"] if multi else ["-o", "out.ts"])
        rc, out, err = drv().cli(argv, root, pin=True)
        path = os.path.join(root, "out", "a.ts") if multi else os.path.join(root, "out.ts")
        outs.append((rc, open(path).read() if os.path.exists(path) else None))
    if outs[0] != outs[1]:
        return True, "the items %s in files %s and in files %s give different output (exit %s / %s; %s vs %s bytes)" % (list(items), v["reference"], v["split"], outs[0][0], outs[1][0], len(outs[0][1] or ""), len(outs[1][1] or "")), {"op": "split", "items": list(items), "multi": multi, "v": v}
    return False, "real binary writes the same bytes for both distributions", None


# ---- layout: single-file mode does not care where the files live ---------------------------------------------------------------
LAYOUTS = {
    "crate-src": ["/w/app/src/a.rs", "/w/app/src/b.rs", "/w/app/src/c.rs"],
    "examples-and-shared": ["/w/app/src/a.rs", "/w/app/examples/b.rs", "/w/shared/c.rs"],
    "flat": ["/w/a.rs", "/w/b.rs", "/w/c.rs"],
    "nested-modules": ["/w/app/src/a.rs", "/w/app/src/models/deep/b.rs", "/w/other/src/c.rs"],
    "relative-src-root": ["src/a.rs", "src/b.rs", "c.rs"],
}
LAYOUT_ITEMS = ["#[typeshare]\npub struct La { pub x: u32 }\n", "#[typeshare]\npub enum Lb { Va, Vb }\n", "#[typeshare]\npub type Lc = Vec<La>;\n"]


def case_layout(case):
    """--output-file: every file through cli parse::parse_dir_entry (file-system model), collector, reconcile: the result does not depend on the directories"""
    lang_name = case
    from vlib.mirsym import pharness, synast
    from vlib.mirsym.models_fs import Fs
    from vlib.mirsym.models_misc import RPath
    P = prog()
    L = P.layout
    I = new_interp(P)
    pn = L.structs["ParsedData"]
    res = {"paths": 0, "violations": [], "case": [lang_name]}
    names = list(LAYOUTS)

    def run_layout(I, paths):
        fs = Fs()
        asts = {}
        for pth, src in zip(paths, LAYOUT_ITEMS):
            d = pth.rsplit("/", 1)[0] if "/" in pth else ""
            if d:
                fs.add_dir(d)
            fs.add_file(pth, [ord(c) for c in src])
            asts[src] = synast.parse_source(P, src)
        I.env["fs"] = fs
        I.env["parse_file"] = lambda I_, s_: asts.get(pystr(s_))
        ctx = pharness.parse_context(P, multi_file=False, prefix="typeshare_core::")
        lang = EnumV("typeshare_core::language::SupportedLanguage", L.enums["SupportedLanguage"].index(lang_name), [])
        sent = []
        for pth in paths:
            de = Opaque("DirEntry", RPath(S(pth)))
            r = I.call_static("parse::parse_dir_entry", [Ref([ctx], 0), lang, Ref([de], 0)])
            if r.variant != 0:
                raise Unsupported("parse_dir_entry returned Err for " + pth)
            if r.fields[0].variant == 1:
                sent.append(r.fields[0].fields[0])
        if not sent:
            return None
        m = collect(I, sent)
        cell = [m]
        I.call_static("reconcile::reconcile_aliases", [Ref(cell, 0)])
        return cell[0]

    def entry(I):
        return [run_layout(I, LAYOUTS[n]) for n in names]

    def summary(m):
        if m is None:
            return None
        out = []
        for cn, pd in m.entries:
            out.append((pystr(cn.fields[0]), tuple(len(pd.fields[pn.index(f)].items) for f in ("structs", "enums", "aliases", "consts"))))
        return out

    for kind, out, pc in I.explore(entry, max_paths=50):
        res["paths"] += 1
        if kind == "panic":
            res["violations"].append({"kind": "panic", "msg": out.msg}); continue
        base = summary(out[0])
        for n, m in zip(names[1:], out[1:]):
            if summary(m) != base:
                res["violations"].append({"kind": "layout-dependent", "layout": n, "reference": names[0], "got": summary(m), "want": base})
                break
    return finish_case(I, res)


def native_layout(d, case, v):
    import os
    outs = []
    for k, n in enumerate((v["reference"], v["layout"])):
        root = os.path.join(d, "l%d" % k)
        roots = set()
        for pth, src in zip(LAYOUTS[n], LAYOUT_ITEMS):
            rel = pth[len("/w/"):] if pth.startswith("/w/") else pth
            full = os.path.join(root, rel)
            os.makedirs(os.path.dirname(full), exist_ok=True)
            open(full, "w").write(src)
        rc, out, err = drv().cli([".", "--lang", "typescript", "-o", "out.ts"], root, pin=True)
        path = os.path.join(root, "out.ts")
        outs.append((rc, open(path).read() if os.path.exists(path) else None))
    if outs[0] != outs[1]:
        return True, "the same three items laid out as %s and as %s (single-file mode) give different output (exit %s / %s; %s vs %s bytes)" % (LAYOUTS[v["reference"]], LAYOUTS[v["layout"]], outs[0][0], outs[1][0], len(outs[0][1] or ""), len(outs[1][1] or "")), {"op": "layout", "v": v}
    return False, "real binary writes the same bytes for both layouts", None


def multisets(kinds, k):
    return list(itertools.combinations_with_replacement(kinds, k))


def run(rep, tier, only=None):
    prog()
    t0 = time.time()
    cases = []
    for multi in (False, True):
        kinds = "SEACN" + ("R" if multi else "")
        for k in (2, 3) + ((4,) if tier == "thorough" else ()):
            for ms in multisets(kinds, k):
                for perm in itertools.permutations(range(k)):
                    if list(perm) != list(range(k)):
                        cases.append((ms, perm, multi))
        if tier == "thorough":
            for k in (5, 6):
                mss = multisets(kinds, k)
                sd = seed()
                mss = [ms for j, ms in enumerate(mss) if (j + sd) % (4 if k == 5 else 12) == 0]
                for ms in mss:
                    for j in range(k - 1):
                        perm = list(range(k)); perm[j], perm[j + 1] = perm[j + 1], perm[j]
                        cases.append((ms, tuple(perm), multi))
    hcap = 600 if tier == "quick" else 4000
    hcases = [(l, m, "basic", hcap) for l in LANGS for m in (False, True)] + [(l, True, "glob", hcap) for l in LANGS]
    rep.bounds = {"fold": "arrival sequences of k files of one crate (+ a second crate in folder mode), one item per file of kind struct/enum/alias/const/(struct importing a foreign type), every multiset of kinds; "
                          "k=2,3 (quick) and 4 (thorough): every permutation against the identity; k=5,6 (thorough): adjacent transpositions on a seed-rotated subset; item names symbolic: T + one of the first k letters (three letters for k >= 5)",
                  "hash": "two fixed trees per language (basic: imports, a serde-renamed type, an alias -> alias -> struct chain used as a data-enum payload, both modes; glob: two crates defining the same Rust name with different serde renames, a third crate importing one by glob and one by name, folder mode); every iteration order of every iterated HashMap/HashSet with up to 4 entries, three representative orders for larger ones, at most %d paths per case (a case that hits the cap is reported as not exhaustive)" % hcap}
    rep.outside = ["the directory walk itself (ignore crate) and the crossbeam channel: the collector sees an arbitrary sequence", "thread count (it only influences the arrival order)",
                   "ordering of error reports"]
    rep.assumptions = ["crossbeam Receiver iteration = the arrival sequence", "hash containers iterate in an arbitrary order chosen per iteration"]
    from checks import c14 as _c14
    if tier == "thorough":
        wcases = [(l, f, p) for l in ("typescript", "kotlin") for f in _c14.FORMS for p in (("field", "map-value") if l == "typescript" else ("enum-struct",))]
    else:
        wcases = [("typescript", "single", "field"), ("kotlin", "same-name-c", "map-value"), ("typescript", "same-name-both-imported", "field"), ("kotlin", "same-name-both-imported", "vec"), ("typescript", "same-name-two-modules", "field"), ("typescript", "same-name-two-modules-renamed", "field"), ("kotlin", "reexport-two-candidates", "field"), ("typescript", "reexport-two-candidates", "vec")]
    rep.bounds["hash-ws"] = "the folder-mode pipeline from source text on %d of the C14 workspace templates under every hash iteration order, up to 700 paths each (beyond: a prefix of the orders, reported as not exhaustive)" % len(wcases)
    names_ = list(SPLIT_ITEMS)
    scases = [(tuple(c), m) for m in (False, True) for c in ([names_[0], names_[1]], [names_[1], names_[2], names_[3]], [names_[4], names_[5], names_[0]], [names_[1], names_[4]])]
    if tier == "thorough":
        scases += [(tuple(c), m) for m in (False, True) for c in itertools.combinations(names_, 4)]
    rep.bounds["split"] = "items annotated in every spelling (%s) distributed over files in every way (all set partitions of 2-3 items; thorough: every 4 of the 6), each file entered through parser::parse (text pre-filter included), folded and reconciled: the normal forms are equal" % sorted(SPLIT_ITEMS)
    lcases = ["TypeScript", "Swift"] if tier == "quick" else ["TypeScript", "Swift", "Kotlin", "Scala", "Go", "Python"]
    rep.bounds["layout"] = "--output-file: three items in the directory layouts %s, each file through cli parse::parse_dir_entry on the file-system model, then collector and reconcile_aliases: the same items whatever the layout" % sorted(LAYOUTS)
    groups = [("fold", "case_fold", cases), ("split", "case_split", scases), ("layout", "case_layout", lcases), ("hash", "case_hash", hcases), ("hash-ws", "case_hash_ws", wcases)]
    for gname, fn, cs in groups:
        if only and gname not in only:
            continue
        rep.harnesses[gname] = len(cs)
        confirmed = {}
        for st, case, r in pmap(("checks.c06", fn), cs):
            rep.obligations += 1
            if st != "ok":
                rep.inconc("%s %s: %s" % (gname, case, r)); continue
            account(rep, r); rep.discharged += 1
            if r.get("capped"):
                rep.exhaustive = False
                rep.assumptions.append("hash group %s: path cap reached, not every iteration order explored" % (case,))
            if not r["violations"]:
                if len(rep.samples) < 10 and hash(str(case)) % 29 == 0:
                    rep.sample({"group": gname, "case": str(case), "paths": r["paths"], "verdict": "normal forms equal for every name assignment (unsat otherwise)" if gname == "fold" else "same bytes on every path"})
                continue
            for v in r["violations"]:
                if gname == "layout":
                    sig = {"group": "layout", "kind": v["kind"], "layout": v.get("layout")}
                elif gname == "split":
                    sig = {"group": "split", "kind": v["kind"], "field": v.get("field"), "mode": "folder" if case[1] else "single"}
                elif gname == "fold":
                    sig = {"group": "fold", "kind": v["kind"], "field": v.get("field"), "equal_names": v.get("equal_names"), "mode": "folder" if case[2] else "single"}
                else:
                    sig = {"group": "hash", "kind": v["kind"], "lang": case[0], "mode": "folder" if case[1] else "single", "tree": case[2] if len(case) > 2 else "basic"}
                ck = repr(sorted(sig.items()))
                if ck in confirmed and confirmed[ck][0]:
                    ok, why, payload = confirmed[ck]
                else:
                    ok, why, payload = native(gname, case, v)
                    confirmed[ck] = (ok, why, payload)
                    rep.validated += 1
                if ok:
                    rep.violation(sig, why, payload)
                elif ok is None:
                    rep.inconc("replay failed for %s %s: %s (%s)" % (gname, case, why, v))
                else:
                    rep.inconc("engine mismatch %s %s: %s; %s" % (gname, case, v, why))
    rep.extra["explore_s"] = round(time.time() - t0, 1)


# ---- native replay -------------------------------------------------------------------------------------
_DRV = None


def drv():
    global _DRV
    if _DRV is None:
        from vlib.harness import CliDriver
        _DRV = CliDriver()
    return _DRV


def real_outputs(d, files_by_crate, lang, multi, tag, pin=False):
    """write the tree, run the real binary, return {relative path: bytes}"""
    import os, shutil
    src = os.path.join(d, "tree")
    shutil.rmtree(src, ignore_errors=True)
    for crate, files in files_by_crate.items():
        os.makedirs(os.path.join(src, crate, "src"))
        for fn, text in files.items():
            open(os.path.join(src, crate, "src", fn), "w").write(text)
    out = os.path.join(d, "out-" + tag)
    shutil.rmtree(out, ignore_errors=True)
    os.makedirs(out)
    argv = [src, "--lang", lang] + (["--go-package", "proto"] if lang == "go" else []) + (["--scala-package", "com.x"] if lang == "scala" else [])
    argv += ["-d", out] if multi else ["-o", os.path.join(out, "out." + EXT[lang])]
    rc, so, se = drv().cli(argv, d, pin=pin)
    r = {}
    for root, _, fs in os.walk(out):
        for f in fs:
            r[os.path.relpath(os.path.join(root, f), out)] = open(os.path.join(root, f), "rb").read()
    return rc, r


def native(gname, case, v):
    import os, shutil, tempfile
    d = tempfile.mkdtemp(prefix="c06-")
    try:
        if gname == "fold":
            kinds, perm, multi = case
            names = v.get("names") or "A" * len(kinds)
            rn = v.get("renames") or names
            texts = [render_file(kinds[i], i, names[i], rn[i]) for i in range(len(kinds))]
            return native_fold(d, texts, multi, {"op": "fold", "kinds": "".join(kinds), "names": names, "renames": v.get("renames") or names, "multi": multi})
        if gname == "hash-ws":
            return native_hash_ws(d, case)
        if gname == "split":
            return native_split(d, case, v)
        if gname == "layout":
            return native_layout(d, case, v)
        return native_hash(d, case[0], case[1], case[2] if len(case) > 2 else "basic")
    finally:
        shutil.rmtree(d, ignore_errors=True)


def native_hash_ws(d, case):
    """repeated processes (fresh hash seeds) of the real binary on the workspace"""
    import os
    from checks import c14
    lang, form, pos = case
    files, _ = c14.workspace(form, pos, "module")
    seen = {}
    for i in range(30):
        sub = os.path.join(d, "r%d" % i)
        os.makedirs(sub)
        rc, outs, se = c14.real_run(sub, lang, files, "Fx", True, "w")
        seen.setdefault(tuple(sorted(outs.items())), i)
        if len(seen) > 1:
            return True, "typeshare --lang %s -d run repeatedly on the workspace (%s, %s) produced different bytes (runs %s)" % (lang, form, pos, sorted(seen.values())), {"op": "hash-ws", "lang": lang, "form": form, "position": pos}
    return False, "30 runs of the real binary gave identical bytes", None


def native_fold(d, texts, multi, payload):
    """the same items split over files m0.rs.. in every way (<= 24 assignments): all outputs must be byte-identical.
    The real binary runs pinned to one CPU (reproducible arrival order); if it shows no difference, the library
    pipeline (real parser, `+=`, reconcile_aliases, generate_types) is driven with explicit arrival orders."""
    k = len(texts)
    perms = list(itertools.permutations(range(k)))[:24]
    btext = "".join("#[typeshare]\npub struct T%s { pub f1%d: u32 }\n" % (ch, j) for j, ch in enumerate(ALPHA[:nalpha(k)]))
    for attempt in range(3):
        seen = {}
        for pi, perm in enumerate(perms):
            files = {"m%d.rs" % slot: texts[i] for slot, i in enumerate(perm)}
            tree = {"a": dict(files, **{"lib.rs": "// crate a\n"})}
            if multi:
                tree["b"] = {"lib.rs": btext}
            rc, outs = real_outputs(d, tree, "typescript", multi, "p%d" % pi, pin=True)
            key = tuple(sorted(outs.items()))
            seen.setdefault(key, perm)
            if len(seen) > 1:
                (k1, p1), (k2, p2) = list(seen.items())[:2]
                diff = [n for n in dict(k1) if dict(k1).get(n) != dict(k2).get(n)]
                return True, "the items %r assigned to files m0..m%d.rs as %s and as %s (same inputs, %s mode) give different bytes in %s" % (
                    [t.split("\n")[-2] if t.strip() else t for t in texts], k - 1, p1, p2, "folder" if multi else "single-file", diff or "file set"), payload
    # library pipeline with explicit arrival orders
    from vlib.harness import Replayer
    nat = Replayer()
    try:
        files = [{"source": t, "crate_name": "a" if multi else "", "file_name": "a.ts" if multi else "out.ts", "file_path": "a/src/m%d.rs" % i} for i, t in enumerate(texts)]
        if multi:
            files.append({"source": btext, "crate_name": "b", "file_name": "b.ts", "file_path": "b/src/lib.rs"})
        seen = {}
        for perm in perms:
            order = list(perm) + list(range(k, len(files)))
            r = nat.ask({"op": "generate", "lang": "typescript", "multi_file": multi, "files": files, "order": order, "config": {}})
            seen.setdefault(json_key(r.get("out", r)), perm)
            if len(seen) > 1:
                p1, p2 = list(seen.values())[:2]
                return True, "the files %r arriving at the collector in order %s and in order %s (%s mode) give different bytes (library pipeline: real parser, +=, reconcile_aliases, generate_types)" % (
                    [t.split("\n")[-2] for t in texts], p1, p2, "folder" if multi else "single-file"), payload
    finally:
        nat.close()
    return False, "real binary: %d different splits of the items over files give byte-identical output, and so does every arrival order through the library" % len(perms), None


def json_key(v):
    import json
    return json.dumps(v, sort_keys=True)


def native_hash(d, lang, multi, tree_kind="basic"):
    if tree_kind == "glob":
        tree = {"x": {"lib.rs": "#[typeshare]\n#[serde(rename = \"ItemV1\")]\npub struct Item { pub a: u32 }\n#[typeshare]\npub struct Xo { pub o: u32 }\n"},
                "y": {"lib.rs": "#[typeshare]\n#[serde(rename = \"ItemV2\")]\npub struct Item { pub b: u32 }\n"},
                "z": {"lib.rs": "use x::*;\nuse y::Item;\n#[typeshare]\npub struct User { pub item: Item, pub xo: Xo }\n"}}
        seen = {}
        for i in range(40):
            rc, outs = real_outputs(d, tree, lang, multi, "g%d" % i)
            seen.setdefault(tuple(sorted(outs.items())), i)
            if len(seen) > 1:
                return True, "typeshare --lang %s -d run repeatedly on the same tree (x::Item and y::Item renamed differently, z has `use x::*; use y::Item;`) produced different bytes (runs %s)" % (lang, sorted(seen.values())), {"op": "hash", "lang": lang, "multi": multi, "tree": "glob"}
        return False, "40 runs of the real binary gave identical bytes", None
    consts_ok = lang not in ("kotlin", "swift", "scala")
    a = "use b::{Tb, Tc};\n#[typeshare]\npub struct Sa { pub x: Tb, pub y: Tc }\n#[typeshare]\npub enum Ea { V }\n#[typeshare]\npub type Aa = Renamed;\n" + ("#[typeshare]\npub const KA: u32 = 1;\n" if consts_ok else "")
    b = ("#[typeshare]\npub struct Tb { pub o: u32 }\n#[typeshare]\npub struct Tc { pub p: u32 }\n#[typeshare]\n#[serde(rename = \"Other\")]\npub struct Renamed { pub q: u32 }\n"
         "#[typeshare]\npub struct Payload { pub w: u32 }\n#[typeshare]\npub type Wrapped = Payload;\n#[typeshare]\npub type Handle = Wrapped;\n"
         "#[typeshare]\n#[serde(tag = \"t\", content = \"c\")]\npub enum Message { Idle, TwoHops(Handle), OneHop(Wrapped) }\n")
    tree = {"a": {"lib.rs": a}, "b": {"lib.rs": b}}
    seen = {}
    for i in range(24):
        rc, outs = real_outputs(d, tree, lang, multi, "h%d" % i)
        seen.setdefault(tuple(sorted(outs.items())), i)
        if len(seen) > 1:
            return True, "typeshare --lang %s (%s) run repeatedly on the same tree produced different bytes (runs %s)" % (lang, "folder" if multi else "single file", sorted(seen.values())), {"op": "hash", "lang": lang, "multi": multi}
    return False, "24 runs of the real binary gave identical bytes", None


def replay(body):
    import shutil, tempfile
    c = body["case"]
    d = tempfile.mkdtemp(prefix="c06-")
    try:
        if c["op"] == "hash-ws":
            ok, why, _ = native_hash_ws(d, (c["lang"], c["form"], c["position"]))
        elif c["op"] == "layout":
            ok, why, _ = native_layout(d, None, c["v"])
        elif c["op"] == "split":
            ok, why, _ = native_split(d, (tuple(c["items"]), c["multi"]), c["v"])
        elif c["op"] == "fold":
            texts = [render_file(kd, i, c["names"][i], (c.get("renames") or c["names"])[i]) for i, kd in enumerate(c["kinds"])]
            ok, why, _ = native_fold(d, texts, c["multi"], c)
        else:
            ok, why, _ = native_hash(d, c["lang"], c["multi"], c.get("tree", "basic"))
        print(why)
        return 1 if ok else 0
    finally:
        shutil.rmtree(d, ignore_errors=True)
