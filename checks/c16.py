"""C16 - rename_all case conversion agrees with serde_derive's algorithm.

Engine M: `parser::rename_all_to_case` and the six `RenameExt` methods are executed from MIR on an
identifier whose characters are symbolic within a character-class word (l=a-z, u=A-Z, d=0-9, _,
and the non-ASCII representatives e=é E=É s=ß t=ǅ c=中); the oracle is serde_derive's
`RenameRule::apply_to_field` / `apply_to_variant` restated over the same symbolic characters; z3
decides `typeshare == serde` for every identifier of the class word at once.  A satisfying
assignment is replayed natively against the real library and the real (vendored) case.rs.
"""
import itertools
import json
import time

import z3

from vlib.common import Inconclusive, seed
from vlib.harness import Replayer, pmap
from vlib.mirsym.engine import load_program, new_interp
from vlib.mirsym.values import *  # noqa
from vlib.mirsym.models_core import is_upper, ascii_upper, ascii_lower, seq_eq, unicode_map

KNOWN_RULES = ["lowercase", "UPPERCASE", "PascalCase", "camelCase", "snake_case", "SCREAMING_SNAKE_CASE", "kebab-case", "SCREAMING-KEBAB-CASE"]
# rule strings serde_derive does not know (near misses of the real ones): names must stay unchanged
UNKNOWN_RULES = ["Title Case", "SCREAMING_KEBAB_CASE", "SCREAMING-SNAKE-CASE", "SCREAMING_KEBAB-CASE", "snake-case", "kebab_case", "Camelcase", "camelcase", "UPPER_CASE", "screaming_snake_case", "Snake_Case", "lower", ""]
RULES = KNOWN_RULES + UNKNOWN_RULES
CLASSES = {"l": (97, 122), "u": (65, 90), "d": (48, 57), "_": (95, 95), "e": (0xE9, 0xE9), "E": (0xC9, 0xC9), "s": (0xDF, 0xDF), "t": (0x1C5, 0x1C5), "c": (0x4E2D, 0x4E2D)}
ASCII = "lud_"
NONASCII = "eEstc"
_PROG = None


def words(tier):
    """class words: all ASCII words up to N; words with exactly one non-ASCII representative up to M"""
    n_ascii, n_non = (4, 3) if tier == "quick" else (6, 4)
    out = []
    for n in range(1, n_ascii + 1):
        for w in itertools.product(ASCII, repeat=n):
            if w[0] != "d" and w != ("_",):     # `_` alone is not a Rust identifier
                out.append("".join(w))
    for n in range(1, n_non + 1):
        for pos in range(n):
            for rep in NONASCII:
                for rest in itertools.product(ASCII, repeat=n - 1):
                    w = list(rest)
                    w.insert(pos, rep)
                    if w[0] != "d":
                        out.append("".join(w))
    return out


def sym_ident(I, word):
    chars = []
    for i, k in enumerate(word):
        lo, hi = CLASSES[k]
        if lo == hi:
            chars.append(lo)
        else:
            c = z3.BitVec("c%d" % i, 32)
            I.assume(z3.And(z3.UGE(c, lo), z3.ULE(c, hi)))
            chars.append(c)
    return chars


# ---- serde_derive internals/case.rs restated over (possibly symbolic) chars --------------------
def serde_variant(I, rule, v):
    if rule == "PascalCase":
        return list(v)
    if rule == "lowercase":
        return [ascii_lower(c) for c in v]
    if rule == "UPPERCASE":
        return [ascii_upper(c) for c in v]
    if rule == "camelCase":
        if not v:
            raise Panic("serde: variant[..1] on empty")
        if I.char_width(v[0]) != 1:
            raise Panic("serde: byte index 1 is not a char boundary")
        return [ascii_lower(v[0])] + list(v[1:])
    if rule == "snake_case":
        out = []
        for i, ch in enumerate(v):
            if i > 0 and I.branch_bool(is_upper(I, ch)):
                out.append(95)
            out.append(ascii_lower(ch))
        return out
    if rule == "SCREAMING_SNAKE_CASE":
        return [ascii_upper(c) for c in serde_variant(I, "snake_case", v)]
    if rule == "kebab-case":
        return [45 if (not is_sym(c) and c == 95) else c for c in serde_variant(I, "snake_case", v)]
    if rule == "SCREAMING-KEBAB-CASE":
        return [45 if (not is_sym(c) and c == 95) else c for c in serde_variant(I, "SCREAMING_SNAKE_CASE", v)]
    raise KeyError(rule)


def repl_us(I, chars, to):
    out = []
    for c in chars:
        if is_sym(c):
            out.append(to if I.branch_bool(c == 95) else c)
        else:
            out.append(to if c == 95 else c)
    return out


def serde_field(I, rule, f):
    if rule in ("lowercase", "snake_case"):
        return list(f)
    if rule in ("UPPERCASE", "SCREAMING_SNAKE_CASE"):
        return [ascii_upper(c) for c in f]
    if rule == "PascalCase":
        out = []
        cap = True
        for ch in f:
            if (not is_sym(ch) and ch == 95) or (is_sym(ch) and I.branch_bool(ch == 95)):
                cap = True
            elif cap:
                out.append(ascii_upper(ch))
                cap = False
            else:
                out.append(ch)
        return out
    if rule == "camelCase":
        p = serde_field(I, "PascalCase", f)
        if not p:
            raise Panic("serde: pascal[..1] on empty")
        if I.char_width(p[0]) != 1:
            raise Panic("serde: byte index 1 is not a char boundary")
        return [ascii_lower(p[0])] + p[1:]
    if rule == "kebab-case":
        return repl_us(I, f, 45)
    if rule == "SCREAMING-KEBAB-CASE":
        return repl_us(I, serde_field(I, "SCREAMING_SNAKE_CASE", f), 45)
    raise KeyError(rule)


def run_case(case, tier):
    """one (rule, position, class word): explore all paths of typeshare + oracle, decide equality"""
    rule, pos, word = case
    prog = _PROG or load_program(("core",))
    I = new_interp(prog)
    res = {"paths": 0, "queries": 0, "solver_s": 0.0, "status": "holds", "witness": None, "funcs": [], "notes": []}

    def entry_raw(I):
        """the raw-identifier spelling `r#name` is transparent: get_ident(r#name) == (name, rename_all(name))"""
        from vlib.mirsym.models_syn import SynIdent
        ident = sym_ident(I, word)
        L = I.prog.layout
        idn = L.structs["Id"]
        ts_kind, ts, sd_kind, sd = "ok", None, "ok", None
        try:
            r = I.call_static("parser::rename_all_to_case", [RString(list(ident)), Ref([SOME(S(rule))], 0)])
            sd = list(r.chars)
        except Panic as p:
            sd_kind, sd = "panic", p.msg
        try:
            raw = SynIdent(RString([ord("r"), ord("#")] + list(ident)))
            r = I.call_static("parser::get_ident", [SOME(Ref([raw], 0)), SliceRef([], 0, 0), Ref([SOME(S(rule))], 0)])
            ts = list(r.fields[idn.index("renamed")].chars)
            orig = list(r.fields[idn.index("original")].chars)
            e = seq_eq(I, orig, list(ident))
            if e is False or (e is not True and I.sat_model(z3.Not(e)) is not None):
                ts = [ord(c) for c in "<original keeps r#>"] + ts
        except Panic as p:
            ts_kind, ts = "panic", p.msg
        return ident, ts_kind, ts, sd_kind, sd

    def entry(I):
        if pos.startswith("raw_"):
            return entry_raw(I)
        ident = sym_ident(I, word)
        ts_kind, ts = "ok", None
        try:
            r = I.call_static("parser::rename_all_to_case", [RString(list(ident)), Ref([SOME(S(rule))], 0)])
            ts = list(r.chars)
        except Panic as p:
            ts_kind, ts = "panic", p.msg
        sd_kind, sd = "ok", None
        try:
            if rule in UNKNOWN_RULES:
                sd = list(ident)       # unknown rule: serde_derive rejects it at compile time; the property says "unchanged"
            else:
                sd = (serde_field if pos == "field" else serde_variant)(I, rule, ident)
        except Panic as p:
            sd_kind, sd = "panic", p.msg
        return ident, ts_kind, ts, sd_kind, sd

    for kind, out, pc in I.explore(entry, max_paths=5000):
        res["paths"] += 1
        if kind != "ok":
            res["status"] = "inconclusive"
            res["notes"].append("unexpected outcome %s %r" % (kind, out))
            continue
        ident, tk, ts, sk, sd = out
        viol = None
        if sk == "panic" and pos.startswith("raw_"):
            if tk != "panic":
                viol = z3.BoolVal(True)
            else:
                continue
        elif sk == "panic":
            # serde_derive itself panics on this identifier (the derive fails to compile): not a program in the quantifier
            res["notes"].append("identifiers on which serde_derive's own case conversion panics are outside the claim") if not res["notes"] else None
            continue
        if viol is not None:
            pass
        elif tk != sk:
            viol = z3.BoolVal(True)
        elif tk == "ok":
            eq = seq_eq(I, ts, sd)
            viol = z3.BoolVal(not eq) if isinstance(eq, bool) else z3.Not(eq)
        else:
            viol = z3.BoolVal(False)   # both panic: same outcome
        m = I.sat_model(viol)
        if m is not None and res["witness"] is None:
            conc = lambda cs: "".join(chr(c if isinstance(c, int) else m.eval(c, model_completion=True).as_long()) for c in cs)
            res["status"] = "violated"
            res["witness"] = {"ident": conc(ident), "typeshare": conc(ts) if tk == "ok" else "panic: " + ts,
                              "serde": conc(sd) if sk == "ok" else "panic: " + sd}
    res["queries"] = I.queries
    res["solver_s"] = I.solver_s
    res["funcs"] = sorted(I.called)
    res["models"] = sorted(I.models_hit)
    res["notes"] += I.notes
    return res


def native(rep, rule, pos, ident):
    """real typeshare (through parser::parse on a one-member item) vs real serde case.rs"""
    if pos.startswith("raw_"):
        return native_raw(rep, rule, pos, ident)

    def src(name):
        if pos == "field":
            return '#[typeshare]\n#[serde(rename_all = "%s")]\npub struct S { pub %s: u32 }\n' % (rule, name)
        return '#[typeshare]\n#[serde(rename_all = "%s")]\npub enum E { %s }\n' % (rule, name)
    r = rep.ask({"op": "parse", "source": src(ident)})
    if "err" in r:
        r = rep.ask({"op": "parse", "source": src("r#" + ident)})
    if "panic" in r or "crash" in r:
        ts = "panic"
    elif "ok" in r and r["ok"]:
        d = r["ok"]
        try:
            if pos == "field":
                ts = d["structs"][0]["fields"][0]["id"]["renamed"]
            else:
                e = d["enums"][0]
                sh = e["0"] if e["$"] == "RustEnum::Unit" else e["shared"]
                v = sh["variants"][0]
                ts = (v["0"] if v["$"].endswith("Unit") else v["shared"])["id"]["renamed"]
        except (KeyError, IndexError):
            return None, None, "unexpected parse result %s" % json.dumps(r)[:300]
    else:
        return None, None, "source did not parse: %s" % json.dumps(r)[:300]
    if rule in UNKNOWN_RULES:
        sd = ident
    else:
        s = rep.ask({"op": "serde_case", "rule": rule, "pos": pos, "s": ident})
        sd = "panic" if ("panic" in s or "crash" in s) else s.get("ok")
    return ts, sd, None


def native_raw(rep, rule, pos, ident):
    """real typeshare on `r#name` against real typeshare on `name` (serde's case.rs on `name` when `name` is a keyword)"""
    base = pos[4:]
    def one(name):
        if base == "field":
            sc = '#[typeshare]\n#[serde(rename_all = "%s")]\npub struct S { pub %s: u32 }\n' % (rule, name)
        else:
            sc = '#[typeshare]\n#[serde(rename_all = "%s")]\npub enum E { %s }\n' % (rule, name)
        r = rep.ask({"op": "parse", "source": sc})
        if "panic" in r or "crash" in r:
            return "panic"
        if "ok" in r and r["ok"]:
            d = r["ok"]
            try:
                if base == "field":
                    return d["structs"][0]["fields"][0]["id"]["renamed"]
                e = d["enums"][0]
                sh = e["0"] if e["$"] == "RustEnum::Unit" else e["shared"]
                v = sh["variants"][0]
                return (v["0"] if v["$"].endswith("Unit") else v["shared"])["id"]["renamed"]
            except (KeyError, IndexError):
                return None
        return None
    ts = one("r#" + ident)
    ref = one(ident)
    if ts is None:
        return None, None, "raw source did not parse"
    if ref is None:
        if rule in UNKNOWN_RULES:
            ref = ident
        else:
            q = rep.ask({"op": "serde_case", "rule": rule, "pos": base, "s": ident})
            ref = "panic" if ("panic" in q or "crash" in q) else q.get("ok")
    return ts, ref, None


def selftest(rep):
    """push the repo's own test vectors through the interpreter and the real build: must agree"""
    prog = load_program(("core",))
    n = 0
    vec = ["FooBar", "fooBar", "foo_bar", "URL", "TOTP", "test_case", "a", "A1b_C", "éa", "aÉb", "ǅx", "x中"]
    fns = ["to_camel_case", "to_pascal_case", "to_snake_case", "to_screaming_snake_case", "to_kebab_case", "to_screaming_kebab_case"]
    for s in vec:
        for f in fns:
            I = new_interp(prog)
            try:
                got = pystr(I.call_static("<std::string::String as rename::RenameExt>::" + f, [Ref([S(s)], 0)]))
            except Panic:
                got = "panic"
            r = rep.ask({"op": "rename", "fn": f, "s": s})
            real = "panic" if "panic" in r else r.get("ok")
            if got != real:
                raise Inconclusive("selftest: interpreter and real build disagree on %s(%r): %r vs %r" % (f, s, got, real))
            n += 1
    return n


def run(rep_, tier, only=None):
    global _PROG
    _PROG = load_program(("core",))
    native_rep = Replayer()
    rep_.validated += selftest(native_rep)
    cases = [(r, p, w) for r in KNOWN_RULES + UNKNOWN_RULES[:1] for p in ("field", "variant") for w in words(tier)]
    cases += [(r, p, w) for r in UNKNOWN_RULES[1:] for p in ("field", "variant") for w in words(tier) if len(w) <= 3 and all(c in ASCII for c in w)]
    raw_words = [w for w in words(tier) if len(w) <= (3 if tier == "quick" else 4) and all(c in ASCII for c in w) and w[0] in "lu"]
    cases += [(r, p, w) for r in RULES for p in ("raw_field", "raw_variant") for w in raw_words]
    if only:
        cases = [c for c in cases if c[0] in only or c[2] in only]
    rep_.bounds = {"identifier_length": "ASCII class words up to %d, words with one non-ASCII representative up to %d" % ((4, 3) if tier == "quick" else (6, 4)),
                   "alphabet": "l=[a-z] u=[A-Z] d=[0-9] _ and representatives é É ß ǅ 中 (letters/digits symbolic within their class)",
                   "rules": RULES, "positions": ["field", "variant"],
                   "raw identifiers": "parser::get_ident on `r#` + every ASCII class word up to length %d: same result as the plain identifier, original without the prefix" % (3 if tier == "quick" else 4)}
    rep_.outside = ["identifiers longer than the bound", "two or more non-ASCII letters in one identifier", "non-ASCII letters other than the five representatives"]
    rep_.assumptions = ["oracle: serde_derive 1.0.214 internals/case.rs restated in Python over symbolic chars; counterexamples are re-decided by the real file (tools/vreplay/src/serde_case.rs, verbatim copy)",
                        "unknown rule ('Title Case'): serde_derive rejects it at compile time; the property's clause 'leaves names unchanged' is the oracle"]
    t0 = time.time()
    viol = {}
    for st, case, r in pmap(("checks.c16", "run_case"), cases, (tier,)):
        rule, pos, word = case
        if st != "ok":
            rep_.inconc("case %s: %s" % (case, r))
            continue
        rep_.states += r["paths"]
        rep_.queries += r["queries"]
        rep_.solver_s += r["solver_s"]
        rep_.obligations += 1
        rep_.functions.update(f for f in r["funcs"])
        rep_.models.update(r.get("models", []))
        for nt in r["notes"]:
            if nt not in rep_.assumptions:
                rep_.assumptions.append(nt)
        if r["status"] == "holds":
            rep_.discharged += 1
            if len(rep_.samples) < 6 and len(word) >= 3:
                rep_.sample({"rule": rule, "position": pos, "class_word": word, "verdict": "typeshare == serde for every identifier of this class (unsat)", "paths": r["paths"]})
        elif r["status"] == "violated":
            viol[case] = r["witness"]
        else:
            rep_.inconc("case %s: %s" % (case, r["notes"][:2]))
    # native replay of every witness, then known-finding matching by (position, rule, class word)
    for case, w in sorted(viol.items()):
        rule, pos, word = case
        ts, sd, err = native(native_rep, rule, pos, w["ident"])
        rep_.validated += 1
        if err:
            rep_.inconc("replay of %s %r: %s" % (case, w, err))
            continue
        if ts == sd:
            rep_.inconc("engine mismatch: %s witness %r does not reproduce natively (typeshare=%r serde=%r)" % (case, w, ts, sd))
            continue
        rep_.violation({"position": pos, "rule": rule, "class": word},
                       ("rename_all=%s on %s `r#%s`: typeshare gives %r, the plain identifier gives %r" if pos.startswith("raw_") else "rename_all=%s on %s `%s`: typeshare gives %r, serde_derive gives %r") % (rule, pos, w["ident"], ts, sd),
                       {"rule": rule, "position": pos, "ident": w["ident"], "class": word, "typeshare": ts, "serde": sd})
        rep_.discharged += 1   # decided (as a violation)
    native_rep.close()
    rep_.harnesses["cases"] = len(cases)
    rep_.harnesses["violating_class_words"] = len(viol)
    rep_.extra["explore_s"] = round(time.time() - t0, 1)


def replay(case):
    c = case["case"]
    rep = Replayer()
    ts, sd, err = native(rep, c["rule"], c["position"], c["ident"])
    rep.close()
    print("typeshare=%r serde=%r %s" % (ts, sd, err or ""))
    return 1 if (not err and ts != sd) else 0
