"""C03 - exactly the annotated, non-skipped items, fields and variants are generated (parser half).

Engine M: TypeShareVisitor::visit_file / visit_item_* / collect_result / parsed_data,
has_typeshare_annotation, is_skipped, parse_* are executed from MIR on ASTs from the real syn.
Symbolic: the identifier of the annotation attribute (9 chars), the skip marker word (4 chars) and
the marker's attribute name (5 chars) - z3 decides that exactly `typeshare`, `skip`, `serde` trigger.
Enumerated: item kinds, module depth, annotated subsets, marker arrangements per member.
"""
import itertools
import time

import z3

from vlib.common import Inconclusive, seed
from vlib.harness import Replayer, pmap
from vlib.mirsym.selftest import parser_selftest
from vlib.mirsym.values import *  # noqa
from checks.pcommon import prog, explore_source, account, finish_case

MARKERS = {
    "none": ("", False),
    "serde_skip": ("#[serde(skip)]", True),
    "typeshare_skip": ("#[typeshare(skip)]", True),
    "skip_serializing": ("#[serde(skip_serializing)]", False),
    "skip_default": ("#[serde(skip, default)]", True),
    "default_skip": ("#[serde(default, skip)]", True),
    "rename_then_ts_skip": ('#[serde(rename = "zz")] #[typeshare(skip)]', True),
    "two_serde_attrs": ("#[serde(default)] #[serde(skip)]", True),
    "doc_between": ('#[doc = "d"] #[serde(skip)] #[doc = "e"]', True),
    "two_typeshare_attrs": ('#[typeshare(serialized_as = "String")] #[typeshare(skip)]', True),
    "skip_if": ('#[serde(skip_serializing_if = "Option::is_none")]', False),
    "cfg_and_skip": ('#[cfg(feature = "x")] #[serde(skip)]', True),
}
KINDS = ["struct", "unit_enum", "alg_enum", "alias", "const", "tuple_struct"]


def item_src(kind, name, annot, members=None):
    a = annot + "\n" if annot else ""
    if kind == "struct":
        ms = members or [("a", "none"), ("b", "none")]
        body = ", ".join("%s pub %s: String" % (MARKERS[m][0], n) for n, m in ms)
        return a + "pub struct %s { %s }" % (name, body)
    if kind == "tuple_struct":
        return a + "pub struct %s(String);" % name
    if kind == "unit_enum":
        ms = members or [("A", "none"), ("B", "none")]
        return a + "pub enum %s { %s }" % (name, ", ".join("%s %s" % (MARKERS[m][0], n) for n, m in ms))
    if kind == "alg_enum":
        ms = members or [("A", "none"), ("B", "none")]
        vs = []
        for n, m in ms:
            vs.append("%s %s(String)" % (MARKERS[m][0], n))
        return a + '#[serde(tag = "t", content = "c")]\npub enum %s { Keep0(String), %s }' % (name, ", ".join(vs))
    if kind == "struct_variant":
        ms = members
        body = ", ".join("%s %s: String" % (MARKERS[m][0], n) for n, m in ms)
        return a + '#[serde(tag = "t", content = "c")]\npub enum %s { Keep0(String), V { %s } }' % (name, body)
    if kind == "alias":
        return a + "pub type %s = String;" % name
    if kind == "const":
        return a + "pub const %s: u32 = 1;" % name
    raise KeyError(kind)


PLACES = {"fn_body": "fn holder() {\n%s\n}", "nested_block": "fn holder() {\n{\n%s\n}\n}", "const_block": "const _: () = {\n%s\n};",
          "closure": "fn holder() {\nlet c = || {\n%s\n};\n}", "impl_method_if": "struct Own;\nimpl Own {\nfn m(&self) {\nif true {\n%s\n}\n}\n}",
          "match_arm": "fn holder(x: u8) {\nmatch x {\n0 => {\n%s\n}\n_ => {}\n}\n}", "mod_in_fn": "fn holder() {\nmod inner {\n%s\n}\n}"}


def wrap_mods(text, depth):
    """depth 0..2: nested `mod`s; a name from PLACES: the item sits inside a function body / an expression"""
    if isinstance(depth, str):
        return PLACES[depth] % text
    for d in range(depth):
        text = "pub mod m%d {\n%s\n}" % (d, text)
    return text


def lists(I, pd):
    """names per kind + member names, as python strings (strings here are concrete)"""
    L = I.prog.layout
    pdn = L.structs["ParsedData"]
    g = lambda n: pd.fields[pdn.index(n)]
    out = {"structs": [], "enums": [], "aliases": [], "consts": [], "errors": []}
    sid = L.structs["Id"].index("original")

    def idname(idv):
        return pystr(idv.fields[sid])
    for s in g("structs").items:
        sn = L.structs["RustStruct"]
        fields = [idname(f.fields[L.structs["RustField"].index("id")]) for f in s.fields[sn.index("fields")].items]
        out["structs"].append((idname(s.fields[sn.index("id")]), fields))
    for e in g("enums").items:
        en = L.enums["RustEnum"][e.variant]
        sh = e.fields[0] if en == "Unit" else e.fields[L.enum_fields[("RustEnum", "Algebraic")].index("shared")]
        shn = L.structs["RustEnumShared"]
        vs = []
        for v in sh.fields[shn.index("variants")].items:
            vn = L.enums["RustEnumVariant"][v.variant]
            if vn == "Unit":
                vshared = v.fields[0]
                vs.append((idname(vshared.fields[L.structs["RustEnumVariantShared"].index("id")]), None))
            else:
                names = L.enum_fields[("RustEnumVariant", vn)]
                vshared = v.fields[names.index("shared")]
                flds = None
                if vn == "AnonymousStruct":
                    flds = [idname(f.fields[L.structs["RustField"].index("id")]) for f in v.fields[names.index("fields")].items]
                vs.append((idname(vshared.fields[L.structs["RustEnumVariantShared"].index("id")]), flds))
        out["enums"].append((idname(sh.fields[shn.index("id")]), vs))
    for a in g("aliases").items:
        out["aliases"].append(idname(a.fields[L.structs["RustTypeAlias"].index("id")]))
    for c in g("consts").items:
        out["consts"].append(idname(c.fields[L.structs["RustConst"].index("id")]))
    for e in g("errors").items:
        en = L.structs["ErrorInfo"]
        out["errors"].append(pystr(e.fields[en.index("file_name")]))
    return out


EMPTY = {"structs": [], "enums": [], "aliases": [], "consts": [], "errors": []}


def expect_item(kind, name, members=None):
    """what a generated item contributes to lists()"""
    if kind == "struct":
        ms = members or [("a", "none"), ("b", "none")]
        return "structs", (name, [n for n, m in ms if not MARKERS[m][1]])
    if kind == "tuple_struct":
        return "aliases", name
    if kind == "unit_enum":
        ms = members or [("A", "none"), ("B", "none")]
        return "enums", (name, [(n, None) for n, m in ms if not MARKERS[m][1]])
    if kind == "alg_enum":
        ms = members or [("A", "none"), ("B", "none")]
        return "enums", (name, [("Keep0", None)] + [(n, None) for n, m in ms if not MARKERS[m][1]])
    if kind == "struct_variant":
        return "enums", (name, [("Keep0", None), ("V", [n for n, m in members if not MARKERS[m][1]])])
    if kind == "alias":
        return "aliases", name
    if kind == "const":
        return "consts", name
    raise KeyError(kind)


# ------------------------------------------------------------------------------- cases
def case_annotation(case):
    """symbolic attribute identifier on one item (plus an un-annotated and an annotated neighbour)"""
    kind, depth, form = case[:3]
    alone = len(case) > 3 and case[3] == "alone"     # the item is the only annotated one of its file
    if form == "path":
        annot = "#[Qannotate]"
    elif form == "list":
        annot = '#[Qannotate(swift = "Equatable")]'
    elif form == "qualified":
        annot = "#[Qannotate::Qannotate]"
    elif form == "qualified_first":
        annot = "#[Qannotate::other]"
    elif form == "cfg_attr":
        annot = "#[cfg_attr(feature = \"x\", Qannotate)]"
    elif form == "after_attr_same_line":
        annot = "#[derive(Debug)] #[Qannotate]"
    elif form == "after_doc_same_line":
        annot = "/** doc */ #[Qannotate]"
    src = wrap_mods(item_src(kind, "Target", annot), depth) + "\n" + item_src("struct", "Plain", "") + "\n" + ("" if alone else item_src("alias", "Marked", "#[typeshare]") + "\n")
    res = {"paths": 0, "violations": [], "src": src}
    I = None

    def plant(I):
        cs = [z3.BitVec("a%d" % i, 32) for i in range(9)]
        for c in cs:
            I.assume(z3.Or(z3.And(z3.UGE(c, 97), z3.ULE(c, 122)), c == 95))
        return {"Qannotate": cs}
    is_ts = None
    # entered through parser::parse: the textual pre-filter sees the same symbolic attribute word as the AST
    for I, k, pd, pc in explore_source(src, plant, via_parse=True):
        res["paths"] += 1
        cs = [z3.BitVec("a%d" % i, 32) for i in range(9)]
        is_ts = z3.And([c == ord(x) for c, x in zip(cs, "typeshare")])
        if k == "panic":
            res["violations"].append({"kind": "panic", "msg": pd.msg}); continue
        got = lists(I, pd) if pd is not None else dict(EMPTY)
        where, entry = expect_item(kind, "Target")
        present = entry in got[where] if isinstance(entry, str) else any(x[0] == "Target" for x in got[where])
        should = is_ts if form != "cfg_attr" else z3.BoolVal(False)
        others_ok = (alone or "Marked" in got["aliases"]) and not any(x[0] == "Plain" for x in got["structs"]) and not got["errors"]
        bad = z3.Or(z3.BoolVal(bool(present)) != should, z3.BoolVal(not others_ok))
        m = I.sat_model(bad)
        if m is not None:
            word = "".join(chr(m.eval(c, model_completion=True).as_long()) for c in cs)
            res["violations"].append({"kind": "annotation", "word": word, "present": bool(present), "others_ok": others_ok})
    return finish_case(I, res) if I else res


def case_marker_word(case):
    """symbolic marker word / attribute name on the middle member"""
    container, which = case
    marker = {"word": "#[serde(Qmrk)]", "attr": "#[Qattr(skip)]", "attr9": "#[Qattrlong(skip)]", "word_ts": "#[typeshare(Qmrk)]"}[which]
    MARKERS["SYM"] = (marker, None)
    members = [("a", "none"), ("b", "SYM"), ("c", "none")]
    if container == "struct":
        src = item_src("struct", "T", "#[typeshare]", members)
    elif container == "unit_enum":
        src = item_src("unit_enum", "T", "#[typeshare]", [("A", "none"), ("B", "SYM"), ("C", "none")])
    elif container == "alg_enum":
        src = item_src("alg_enum", "T", "#[typeshare]", [("A", "none"), ("B", "SYM"), ("C", "none")])
    else:
        src = item_src("struct_variant", "T", "#[typeshare]", members)
    src += "\n"
    res = {"paths": 0, "violations": [], "src": src}
    I = None

    def syms():
        if which in ("word", "word_ts"):
            return "Qmrk", [z3.BitVec("w%d" % i, 32) for i in range(4)], "skip"
        if which == "attr":
            return "Qattr", [z3.BitVec("w%d" % i, 32) for i in range(5)], "serde"
        return "Qattrlong", [z3.BitVec("w%d" % i, 32) for i in range(9)], "typeshare"

    def plant(I):
        key, cs, _ = syms()
        for c in cs:
            I.assume(z3.Or(z3.And(z3.UGE(c, 97), z3.ULE(c, 122)), c == 95))
        return {key: cs}
    for I, k, pd, pc in explore_source(src, plant):
        res["paths"] += 1
        key, cs, target = syms()
        hit = z3.And([c == ord(x) for c, x in zip(cs, target)])
        if k == "panic":
            res["violations"].append({"kind": "panic", "msg": pd.msg}); continue
        got = lists(I, pd) if pd is not None else dict(EMPTY)
        if got["errors"]:
            # an unknown word inside serde(..)/typeshare(..) must not make the item fail
            res["violations"].append({"kind": "unexpected-error", "got": got}); continue
        if container == "struct":
            names = got["structs"][0][1] if got["structs"] else None
            full, dropped = ["a", "b", "c"], ["a", "c"]
        elif container in ("unit_enum", "alg_enum"):
            names = [v[0] for v in got["enums"][0][1]] if got["enums"] else None
            pre = ["Keep0"] if container == "alg_enum" else []
            full, dropped = pre + ["A", "B", "C"], pre + ["A", "C"]
        else:
            names = got["enums"][0][1][1][1] if got["enums"] else None
            full, dropped = ["a", "b", "c"], ["a", "c"]
        if names == full:
            bad = hit            # kept although the marker says skip
        elif names == dropped:
            bad = z3.Not(hit)    # dropped although the marker does not say skip
        else:
            bad = z3.BoolVal(True)
        m = I.sat_model(bad)
        if m is not None:
            word = "".join(chr(m.eval(c, model_completion=True).as_long()) for c in cs)
            res["violations"].append({"kind": "marker", "word": word, "members": names})
    return finish_case(I, res) if I else res


def case_members(case):
    container, marks = case
    names3 = ["a", "b", "c"] if container in ("struct", "struct_variant") else ["A", "B", "C"]
    members = list(zip(names3, marks))
    src = item_src(container, "T", "#[typeshare]", members) + "\n"
    res = {"paths": 0, "violations": [], "src": src}
    where, entry = expect_item(container, "T", members)
    I = None
    for I, k, pd, pc in explore_source(src):
        res["paths"] += 1
        if k == "panic":
            res["violations"].append({"kind": "panic", "msg": pd.msg}); continue
        got = lists(I, pd) if pd is not None else dict(EMPTY)
        exp = dict(EMPTY)
        exp = {k2: list(v) for k2, v in EMPTY.items()}
        kept_variants = [n for n, m in members if not MARKERS[m][1]]
        if container == "unit_enum" and not kept_variants:
            pass
        exp[where].append(entry)
        if got != exp:
            res["violations"].append({"kind": "members", "got": got, "want": exp})
    return finish_case(I, res) if I else res


def case_file(case):
    """several items of mixed kinds, an annotated subset, one failing item: lists in source order, error kept"""
    kinds, annotated, failing_at, depth = case
    parts = []
    exp = {k2: list(v) for k2, v in EMPTY.items()}
    for i, (k, a) in enumerate(zip(kinds, annotated)):
        name = "N%d" % i
        if i == failing_at:
            # an annotated item that cannot be generated: reported as an error and not generated in part (the failing member varies)
            bad = ["pub struct %s { pub bad: u64 }", '#[serde(tag = "t", content = "c")]\npub enum %s { Keep(String), V { ok: String, bad: u64 } }',
                   "pub type %s = Vec<u64>;", '#[serde(tag = "t", content = "c")]\npub enum %s { Keep(String), V(u64) }'][(failing_at + depth) % 4]
            parts.append("#[typeshare]\n" + bad % name)
            exp["errors"].append("src/lib.rs")
            continue
        txt = item_src(k, name, "#[typeshare]" if a else "")
        parts.append(wrap_mods(txt, depth if i % 2 == 1 else 0))
        if a:
            where, entry = expect_item(k, name)
            exp[where].append(entry)
    src = "\n".join(parts) + "\n"
    res = {"paths": 0, "violations": [], "src": src}
    I = None
    for I, k, pd, pc in explore_source(src):
        res["paths"] += 1
        if k == "panic":
            res["violations"].append({"kind": "panic", "msg": pd.msg}); continue
        got = lists(I, pd) if pd is not None else {k2: list(v) for k2, v in EMPTY.items()}
        if got != exp:
            res["violations"].append({"kind": "file", "got": got, "want": exp})
    return finish_case(I, res) if I else res


# ---- merge group: per-file results folded with ParsedData += ParsedData keep every item and every error -------------------
MERGE_FILES = {
    "const": "#[typeshare]\npub const KA%d: u32 = 1;\n#[typeshare]\npub const KB%d: u32 = 2;\n",
    "error": "#[typeshare]\npub struct Bad%d { pub a: u64 }\n",
    "struct": "#[typeshare]\npub struct St%d { pub a: u32 }\n",
    "enum": "#[typeshare]\npub enum En%d { A, B }\n",
    "alias": "#[typeshare]\npub type Al%d = Vec<u32>;\n",
    "const+error": "#[typeshare]\npub const KC%d: u32 = 3;\n#[typeshare]\npub struct Worse%d { pub t: (u8, u8) }\n",
    "mixed": "#[typeshare]\npub struct Mx%d { pub a: u32 }\n#[typeshare]\npub const KM%d: u32 = 4;\n",
}


def case_merge(case):
    kinds = case
    from vlib.mirsym.engine import new_interp
    from vlib.mirsym import synast, pharness
    P = prog()
    L = P.layout
    I = new_interp(P)
    res = {"paths": 0, "violations": [], "case": list(kinds), "src": ""}
    srcs = [MERGE_FILES[k] % ((i,) * MERGE_FILES[k].count("%d")) for i, k in enumerate(kinds)]
    pn = L.structs["ParsedData"]

    def names(pd):
        out = {}
        for fld, sn in (("structs", "RustStruct"), ("aliases", "RustTypeAlias"), ("consts", "RustConst")):
            out[fld] = sorted(pystr(x.fields[L.structs[sn].index("id")].fields[0]) for x in pd.fields[pn.index(fld)].items)
        out["enums"] = len(pd.fields[pn.index("enums")].items)
        out["errors"] = sorted(pystr(e.fields[L.structs["ErrorInfo"].index("file_name")]) for e in pd.fields[pn.index("errors")].items)
        return out

    def entry(I):
        parts = []
        for i, src in enumerate(srcs):
            f = synast.parse_source(P, src)
            r = pharness.run_visitor(I, f, file_path="src/f%d.rs" % i)
            if r.variant == 1:
                parts.append(r.fields[0])
        want = {"structs": [], "aliases": [], "consts": [], "enums": 0, "errors": []}
        for pd in parts:
            n = names(pd)
            for k in ("structs", "aliases", "consts", "errors"):
                want[k] += n[k]
            want["enums"] += n["enums"]
        acc = I.call_static("<parser::ParsedData as std::default::Default>::default", [])
        cell = [acc]
        for pd in parts:
            I.call_static("<parser::ParsedData as std::ops::AddAssign>::add_assign", [Ref(cell, 0), pd])
        return names(cell[0]), {k: (sorted(v) if isinstance(v, list) else v) for k, v in want.items()}

    for kind, out, pc in I.explore(entry, max_paths=20):
        res["paths"] += 1
        if kind == "panic":
            res["violations"].append({"kind": "panic", "msg": out.msg}); continue
        got, want = out
        if got != want:
            res["violations"].append({"kind": "merge-loses-items", "got": got, "want": want, "files": list(kinds)})
    return finish_case(I, res)


SAME_NAME = {
    "struct": ("pub struct Cfg { pub a: u32 }", "pub struct Cfg { pub b: String }"),
    "unit_enum": ("pub enum Cfg { Aa, Ab }", "pub enum Cfg { Ba }"),
    "alg_enum": ('#[serde(tag = "t", content = "c")] pub enum Cfg { Aa(u32) }', '#[serde(tag = "t", content = "c")] pub enum Cfg { Ba { x: u32 } }'),
    "alias": ("pub type Cfg = u32;", "pub type Cfg = String;"),
    "const": ("pub const CFG: u32 = 1;", "pub const CFG: u32 = 2;"),
}
SAME_LAYOUT = {"modules": "pub mod v1 {\n%s\n}\npub mod v2 {\n%s\n}\n", "files": None, "fn_and_top": "%s\nfn holder() {\n%s\n}\n"}


def samename_sources(kind, layout, renamed):
    a, b = SAME_NAME[kind]
    ra = '#[typeshare]\n#[serde(rename = "Qra")]\n' if renamed else "#[typeshare]\n"
    rb = '#[typeshare]\n#[serde(rename = "Qrb")]\n' if renamed else "#[typeshare]\n"
    if layout == "files":
        return [ra + a + "\n", rb + b + "\n"]
    return [SAME_LAYOUT[layout] % (ra + a, rb + b)]


def case_samename(case):
    """two annotated items of one kind with the same Rust name (different modules / files; serde names symbolic, possibly
    equal): after the fold and reconcile_aliases both are still there"""
    kind, layout, renamed = case
    from vlib.mirsym.engine import new_interp
    from vlib.mirsym import synast, pharness
    from vlib.mirsym.models_core import clone_val
    from vlib.mirsym import bharness
    from checks.c06 import eqf
    P = prog()
    L = P.layout
    I = new_interp(P)
    srcs = samename_sources(kind, layout, renamed)
    res = {"paths": 0, "violations": [], "case": list(case), "src": "\n".join(srcs)}
    pn = L.structs["ParsedData"]
    fld = {"struct": "structs", "unit_enum": "enums", "alg_enum": "enums", "alias": "aliases", "const": "consts"}[kind]

    def syms():
        return z3.BitVec("ra", 32), z3.BitVec("rb", 32)

    def entry(I):
        ra, rb = syms()
        for c in (ra, rb):
            I.assume(z3.And(z3.UGE(c, 65), z3.ULE(c, 90)))
        parts = []
        for i, src in enumerate(srcs):
            f = synast.parse_source(P, src)
            synast.plant(f, {"Qra": [ord("R"), ra], "Qrb": [ord("R"), rb]})
            r = pharness.run_visitor(I, f, file_path="src/f%d.rs" % i)
            if r.variant == 1:
                parts.append(r.fields[0])
        acc = I.call_static("<parser::ParsedData as std::default::Default>::default", [])
        cell = [acc]
        for pd in parts:
            I.call_static("<parser::ParsedData as std::ops::AddAssign>::add_assign", [Ref(cell, 0), pd])
        before = [clone_val(I, x) for x in cell[0].fields[pn.index(fld)].items]
        errs = len(cell[0].fields[pn.index("errors")].items)
        after_pd = bharness.reconcile_single(I, cell[0])
        return before, list(after_pd.fields[pn.index(fld)].items), errs

    for k, out, pc in I.explore(entry, max_paths=50):
        res["paths"] += 1
        if k == "panic":
            res["violations"].append({"kind": "panic", "msg": out.msg}); continue
        before, after, errs = out
        m = None
        if len(before) != 2 and not errs:
            m = I.sat_model(z3.BoolVal(True)); what = "parsed %d of the 2 items" % len(before)
        elif len(after) != len(before):
            m = I.sat_model(z3.BoolVal(True)); what = "%d items before reconcile_aliases, %d after" % (len(before), len(after))
        else:
            for b in before:
                conds = [eqf(b, a) for a in after]
                if any(c is True for c in conds):
                    continue
                cs = [c for c in conds if c is not False]
                mm = I.sat_model(z3.Not(z3.Or(cs))) if cs else I.sat_model(z3.BoolVal(True))
                if mm is not None:
                    m = mm; what = "an item is replaced by another one in reconcile_aliases"; break
        if m is not None:
            ra, rb = syms()
            res["violations"].append({"kind": "same-name-item-lost", "what": what, "names": ["R" + chr(m.eval(c, model_completion=True).as_long()) for c in (ra, rb)]})
    return finish_case(I, res)


def native_samename(nat, case, names):
    kind, layout, renamed = case
    srcs = [s.replace("Qra", names[0]).replace("Qrb", names[1]) for s in samename_sources(kind, layout, renamed)]
    files = [{"source": s, "crate_name": "", "file_name": "", "file_path": "src/f%d.rs" % i} for i, s in enumerate(srcs)]
    r = nat.ask({"op": "generate", "lang": "typescript", "multi_file": False, "files": files, "config": {}})
    out = r.get("out", {}).get("", None)
    if out is None:
        return None, str(r)[:200], srcs
    defs = _re.findall(r"^export (?:interface|type|enum|const) (\w+)", out, _re.M)
    want = ([names[0], names[1]] if renamed else ["Cfg", "Cfg"]) if kind != "const" else None
    if kind == "const":
        n = len([d for d in defs if d.upper() in ("CFG", names[0].upper(), names[1].upper())])
    else:
        n = len([d for d in defs if d in want])
    if n < 2:
        return True, "two annotated `%s` items named Cfg (%s%s): the TypeScript output defines %d of them (%s)" % (kind, layout, ", serde names %s" % names if renamed else "", n, defs), srcs
    return False, "real output defines both (%s)" % defs, srcs


def native_merge(nat, kinds):
    """the library pipeline on the same files in the same arrival order: every item defined / every error reported"""
    files = [{"source": MERGE_FILES[k] % ((i,) * MERGE_FILES[k].count("%d")), "crate_name": "", "file_name": "", "file_path": "src/f%d.rs" % i} for i, k in enumerate(kinds)]
    r = nat.ask({"op": "generate", "lang": "typescript", "multi_file": False, "files": files, "config": {}})
    want_err = sum(1 for k in kinds if "error" in k)
    if want_err:
        got_err = len(r.get("parse_errors") or r.get("err") or [])
        if got_err == want_err:
            return False, "real pipeline reports %d error(s)" % got_err, files
        if got_err:
            return True, "files %s merged in this order: %d of the %d unsupported items are reported, the others are lost" % (list(kinds), got_err, want_err), files
        return True, "files %s merged in this order: the unsupported item's error is lost, the run succeeds (%s)" % (list(kinds), str(r.get("out", r))[:120]), files
    out = r.get("out", {}).get("", None)
    if out is None:
        return None, str(r)[:200], files
    wanted = []
    for i, k in enumerate(kinds):
        wanted += _re.findall(r"pub (?:const|struct|enum|type) (\w+)", files[i]["source"])
    missing = [w for w in wanted if w not in out and w.upper() not in out and _re.sub(r"(?<!^)(?=[A-Z])", "_", w).upper() not in out]
    if missing:
        return True, "files %s merged in this order: %s missing from the output" % (list(kinds), missing), files
    return False, "real output has every item", files

# ---- back-end half: every parsed item is defined exactly once by every back end -------------------------------
import re as _re
from vlib.extract import Skel, PUA_CLASS, struct_fields
from vlib.mirsym.models_core import seq_eq

_IDC = r"(?:[\w]|%s)" % PUA_CLASS
BK_DEFINED = {
    "typescript": r"^export (?:interface|type|enum|const) (%s+)" % _IDC,
    "kotlin": r"^(?:@\w+(?:\([^)\n]*\))?\s)*(?:data class|enum class|sealed class|class|object|typealias|const val) (%s+)" % _IDC,
    "swift": r"^public (?:struct|class|enum|indirect enum|typealias|let) (%s+)" % _IDC,
    "scala": r"^\s*(?:case class|sealed trait|type|class|val) (%s+)" % _IDC,   # the companion `object X` of an enum is not a second definition
    "go": r"^(?:type|const) (%s+)[ \[]" % _IDC,
    "python": r"^(?:class (%s+)\(|(?=[A-Z])(%s+)(?:: \w+)? = )" % (_IDC, _IDC),
}
BK_ITEMS = ("struct", "alias", "unit_enum", "alg_enum", "const")
BK_LETTER = {"struct": "S", "alias": "A", "unit_enum": "U", "alg_enum": "D", "const": "K"}
BK_LANGS = ["typescript", "kotlin", "swift", "scala", "go", "python"]


def case_backend(case):
    lang, kinds = case
    from vlib.mirsym.engine import new_interp
    from vlib.mirsym.ir import IR
    from vlib.mirsym import bharness
    P = prog()
    I = new_interp(P)
    ir = IR(P.layout)
    res = {"paths": 0, "violations": [], "case": [lang, list(kinds)], "src": ""}
    syms = {k: z3.BitVec("n_" + k, 32) for k in kinds}

    def entry(I):
        for k, c in syms.items():
            # constants are printed in SHOUTY / Pascal case by some back ends: `K<digit>` is a fixed point of those conversions
            I.assume(z3.And(z3.UGE(c, 48), z3.ULE(c, 57)) if k == "const" else z3.And(z3.UGE(c, 97), z3.ULE(c, 122)))
        u32 = ir.special("U32")
        st, en, al, co = [], [], [], []
        for k in kinds:
            nm = RString([ord(BK_LETTER[k]), syms[k]])
            if k == "struct":
                st.append(ir.struct(nm, [ir.field("fa", u32), ir.field("fb", ir.special("String")), ir.field("fc", ir.special("Bool"))]))
            elif k == "alias":
                al.append(ir.alias(nm, ir.vec(u32)))
            elif k == "unit_enum":
                en.append(ir.enum_unit(nm, [ir.v_unit("Va"), ir.v_unit("Vb")]))
            elif k == "alg_enum":
                en.append(ir.enum_alg(nm, [ir.v_unit("Va"), ir.v_tuple("Vb", u32), ir.v_anon("Vc", [ir.field("x", u32)]), ir.v_anon("Vd", [])], tag="t", content="c"))
            else:
                co.append(ir.const(nm, u32, 7))
        pd = ir.parsed_data(structs=st, enums=en, aliases=al, consts=co)
        ok, w, _ = bharness.generate(I, lang, pd)
        return ok, w

    for kind, out, pc in I.explore(entry, max_paths=200):
        res["paths"] += 1
        if kind == "panic":
            continue   # a panic is C07's subject (Kotlin/Swift write_const: known finding there)
        ok, w = out
        if not ok:
            continue   # reported as an error: allowed by the property
        sk = Skel(w.chars)
        spans = []
        for m in _re.finditer(BK_DEFINED[lang], sk.text, _re.M):
            g = m.lastindex
            spans.append((m.start(g), m.end(g)))
        for k in kinds:
            want = [ord(BK_LETTER[k]), syms[k]]
            if lang == "go" and k == "const":
                want = [ord(BK_LETTER[k]), syms[k]]
            n_valid = 0
            for sp in spans:
                e = seq_eq(I, sk.terms(sp), want)
                if e is True or (e is not False and I.sat_model(z3.Not(e)) is None):
                    n_valid += 1
            if n_valid != 1:
                m = I.sat_model(z3.BoolVal(True))
                nm = BK_LETTER[k] + chr(m.eval(syms[k], model_completion=True).as_long())
                res["violations"].append({"kind": "item-not-defined-once", "item": k, "name": nm, "count": n_valid})
        # helper types derived from struct variants (`<Enum><Variant>Inner`): every one that is referenced is defined, and
        # the back ends that use helpers define one per struct variant (also for a variant whose fields are all gone)
        if "alg_enum" in kinds:
            uses = [(m.start(), m.end()) for m in _re.finditer(r"%s+Inner" % _IDC, sk.text)]
            def valid_eq(a, b):
                e = seq_eq(I, sk.terms(a), sk.terms(b))
                return e is True or (e is not False and I.sat_model(z3.Not(e)) is None)
            missing = [u for u in uses if not any(valid_eq(u, sp) for sp in spans)]
            if missing:
                m = I.sat_model(z3.BoolVal(True))
                nm = "".join(chr(c) if isinstance(c, int) else chr(m.eval(c, model_completion=True).as_long()) for c in sk.terms(missing[0]))
                res["violations"].append({"kind": "helper-type-not-defined", "item": "alg_enum", "name": nm, "enum": "D" + chr(m.eval(syms["alg_enum"], model_completion=True).as_long())})
            n_helpers = len([sp for sp in spans if sk.str(sp).endswith("Inner")])
            if lang != "typescript" and n_helpers != 2:
                m = I.sat_model(z3.BoolVal(True))
                res["violations"].append({"kind": "helper-type-count", "item": "alg_enum", "count": n_helpers, "enum": "D" + chr(m.eval(syms["alg_enum"], model_completion=True).as_long())})
        if "struct" in kinds and lang != "swift":
            # the struct lists its three fields in source order
            want = [ord("S"), syms["struct"]]
            for sp in spans:
                e = seq_eq(I, sk.terms(sp), want)
                if e is True or (e is not False and I.sat_model(z3.Not(e)) is None):
                    fs = struct_fields(lang, sk, sk.str(sp))
                    got = [sk.str(f.wire_key()) for f in (fs or [])]
                    if got != ["fa", "fb", "fc"]:
                        res["violations"].append({"kind": "struct-members", "item": "struct", "got": got})
    uniq = {}
    for v in res["violations"]:
        uniq.setdefault((v["kind"], v["item"]), v)
    res["violations"] = list(uniq.values())
    return finish_case(I, res)


BK_SRC = {"struct": "#[typeshare]\npub struct %s { pub fa: u32, pub fb: String, pub fc: bool }\n", "alias": "#[typeshare]\npub type %s = Vec<u32>;\n",
          "unit_enum": "#[typeshare]\npub enum %s { Va, Vb }\n", "alg_enum": "#[typeshare]\n#[serde(tag = \"t\", content = \"c\")]\npub enum %s { Va, Vb(u32), Vc { x: u32 }, Vd {} }\n",
          "const": "#[typeshare]\npub const %s: u32 = 7;\n"}


def native_backend(nat, lang, kinds, v):
    """the same items through the real parser + back end"""
    names = {k: BK_LETTER[k] + ("5" if k == "const" else "q") for k in kinds}
    if v["kind"] in ("helper-type-not-defined", "helper-type-count"):
        names["alg_enum"] = v.get("enum", names.get("alg_enum"))
    elif "name" in v:
        names[v["item"]] = v["name"]
    src = "".join(BK_SRC[k] % names[k] for k in kinds)
    r = nat.ask({"op": "generate", "lang": lang, "multi_file": False, "files": [{"source": src, "crate_name": "", "file_name": "", "file_path": "src/lib.rs"}],
                 "config": {"go": {"package": "proto"}, "scala": {"package": "com.agilebits.onepassword"}}.get(lang, {})})
    if "out" not in r:
        return False, "real library reports %s" % (str(r)[:200],), src
    text = r["out"].get("", "")
    sk = Skel([ord(c) for c in text])
    defined = [m.group(m.lastindex) for m in _re.finditer(BK_DEFINED[lang], sk.text, _re.M)]
    if v["kind"] in ("helper-type-not-defined", "helper-type-count"):
        uses = sorted(set(_re.findall(r"\w+Inner", text)))
        undefined = [u for u in uses if u not in defined]
        n = len([d for d in defined if d.endswith("Inner")])
        if undefined:
            return True, "--lang %s: enum %s with struct variants `Vc { x: u32 }` and `Vd {}`: the output refers to %s but never defines it" % (lang, names["alg_enum"], undefined), src
        if lang != "typescript" and n != 2:
            return True, "--lang %s: enum %s has two struct variants but %d helper types are defined (%s)" % (lang, names["alg_enum"], n, [d for d in defined if d.endswith("Inner")]), src
        return False, "real output defines every helper type it uses: %s" % uses, src
    if v["kind"] == "item-not-defined-once":
        n = defined.count(names[v["item"]])
        if n != 1:
            return True, "--lang %s: the annotated %s `%s` is defined %d times in the output and no error is reported (definitions: %s)" % (lang, v["item"], names[v["item"]], n, defined), src
        return False, "real output defines %s once" % names[v["item"]], src
    fs = struct_fields(lang, sk, names["struct"])
    got = [sk.str(f.wire_key()) for f in (fs or [])]
    if got != ["fa", "fb", "fc"]:
        return True, "--lang %s: struct %s lists fields %s, source has fa, fb, fc" % (lang, names["struct"], got), src
    return False, "real output lists fa, fb, fc", src


def native_lists(rep, src):
    r = rep.ask({"op": "parse", "source": src, "file_path": "src/lib.rs"})
    if "panic" in r or "crash" in r:
        return "panic"
    d = r.get("ok")
    if d is None:
        return {k2: list(v) for k2, v in EMPTY.items()}
    out = {"structs": [(s["id"]["original"], [f["id"]["original"] for f in s["fields"]]) for s in d["structs"]], "enums": [],
           "aliases": [a["id"]["original"] for a in d["aliases"]], "consts": [c["id"]["original"] for c in d["consts"]],
           "errors": [e["file_name"] for e in d["errors"]]}
    for e in d["enums"]:
        sh = e["0"] if e["$"].endswith("Unit") else e["shared"]
        vs = []
        for v in sh["variants"]:
            if v["$"].endswith("Unit"):
                vs.append((v["0"]["id"]["original"], None))
            elif v["$"].endswith("Tuple"):
                vs.append((v["shared"]["id"]["original"], None))
            else:
                vs.append((v["shared"]["id"]["original"], [f["id"]["original"] for f in v["fields"]]))
        out["enums"].append((sh["id"]["original"], vs))
    return out


def run(rep, tier, only=None):
    P = prog()
    nat = Replayer()
    t0 = time.time()
    rep.validated += parser_selftest(P, nat)
    sd = seed()
    mk = list(MARKERS.keys())
    ann_cases = [(k, d, f) for k in KINDS for d in (0, 1, 2) for f in ("path", "list", "qualified", "qualified_first", "cfg_attr")]
    ann_cases += [(k, pl, "path") for k in KINDS for pl in PLACES]
    ann_cases += [(k, d, f, "alone") for k in KINDS for d in (0, 1) for f in ("path", "list", "qualified", "qualified_first", "after_attr_same_line", "after_doc_same_line")]
    word_cases = [(c, w) for c in ("struct", "unit_enum", "alg_enum", "struct_variant") for w in ("word", "attr", "attr9", "word_ts")]
    if tier == "quick":
        pairs = [(a, b) for a in mk for b in mk]
        triples = [(a, b, mk[(i + sd) % len(mk)]) for i, (a, b) in enumerate(pairs)]
    else:
        triples = list(itertools.product(mk, repeat=3))
    mem_cases = [(c, t) for c in ("struct", "unit_enum", "alg_enum", "struct_variant") for t in triples]
    file_cases = []
    ksets = [("struct", "unit_enum", "alias", "const"), ("alg_enum", "tuple_struct", "struct", "alias"), ("const", "const", "struct", "unit_enum")]
    for ks in ksets:
        for ann in itertools.product([False, True], repeat=4):
            for failing in ([None, 1] if tier == "quick" else [None, 0, 1, 2, 3]):
                for depth in ((0, 2) if tier == "quick" else (0, 1, 2)):
                    file_cases.append((ks, ann, failing, depth))
    rep.bounds = {"annotation": "attribute identifier symbolic (9 chars over [a-z_]) in 5 attribute forms x 6 item kinds x module depth 0..2, plus every item kind inside a function body, nested block, const block, closure, impl method `if`, match arm, module inside a function",
                  "markers": "marker word (4 chars) / attribute name (5 and 9 chars) symbolic on the middle member of struct, unit enum, data enum, struct variant",
                  "members": "3 members x %d marker arrangements (%s)" % (len(mk), "all triples" if tier == "thorough" else "all pairs + seed-rotated third"),
                  "files": "4 items of mixed kinds, every annotated subset, an optional failing item, module depth 0..2"}
    rep.outside = ["attribute paths whose first segment is not `typeshare` (`#[ts::typeshare]` through a renamed crate): the textual pre-filter of parser::parse skips a file without the text `#[typeshare`; syn's lexer itself is not encoded (source text -> AST by the real syn)", "members of enums in the generated text (C02 reads them); helper types a back end derives are not counted as invented", "more than 3 members / 4 items"]
    rep.assumptions = ["syn::visit's default traversal is a model (children in field order)", "source text -> AST by the real syn"]
    mk_ = list(MERGE_FILES)
    mg_cases = [(a, b) for a in mk_ for b in mk_] + [(a, b, c) for a in ("const", "error", "const+error") for b in mk_ for c in ("struct", "const", "mixed")]
    rep.bounds["merge"] = "2-3 files of kinds %s parsed from MIR and folded in order with `ParsedData += ParsedData`: every item and every error of every file survives" % sorted(MERGE_FILES)
    bk_cases = [(l, ks) for l in BK_LANGS for ks in (BK_ITEMS, ("struct", "const"), ("const",), ("alias", "unit_enum"), ("alg_enum", "struct"))]
    rep.bounds["backend"] = "every back end on IRs holding one item of each kind (struct with 3 fields, alias, unit enum, data enum with unit/tuple/struct variants, const) with symbolic names: each item defined exactly once, struct fields in order"
    sn_cases = [(k, l, r) for k in SAME_NAME for l in SAME_LAYOUT for r in (True, False)]
    rep.bounds["same-name"] = "two annotated items of one kind (struct / unit enum / data enum / alias / const) with the same Rust name in two modules, two files, or top level + function body; serde names symbolic (may coincide) or absent: both survive the fold and reconcile_aliases"
    groups = [("same-name", "case_samename", sn_cases), ("annotation", "case_annotation", ann_cases), ("marker-word", "case_marker_word", word_cases), ("members", "case_members", mem_cases), ("file", "case_file", file_cases), ("merge", "case_merge", mg_cases), ("backend", "case_backend", bk_cases)]
    for gname, fn, cases in groups:
        if only and gname not in only:
            continue
        rep.harnesses[gname] = len(cases)
        for st, case, r in pmap(("checks.c03", fn), cases):
            rep.obligations += 1
            if st != "ok":
                rep.inconc("%s %s: %s" % (gname, case, r)); continue
            account(rep, r)
            rep.discharged += 1
            if not r["violations"]:
                if gname in ("annotation", "marker-word") and len(rep.samples) < 8:
                    rep.sample({"harness": gname, "case": case, "paths": r["paths"], "verdict": "generated exactly when the symbolic word is the trigger word (unsat otherwise)"})
                continue
            if gname == "same-name":
                v = r["violations"][0]
                if v["kind"] == "panic":
                    rep.inconc("same-name %s: panic %s" % (case, v["msg"])); continue
                ok, why, srcs = native_samename(nat, case, v["names"])
                rep.validated += 1
                sig = {"group": "same-name", "kind": v["kind"], "item": case[0]}
                if ok:
                    rep.violation(sig, why, {"kind": "same-name", "case": list(case), "names": v["names"], "source": "\n".join(srcs)})
                elif ok is None:
                    rep.inconc("replay failed for same-name %s: %s" % (case, why))
                else:
                    rep.inconc("engine mismatch in same-name %s: interpreter %s, real: %s" % (case, v, why))
                continue
            if gname == "merge":
                v = r["violations"][0]
                ok, why, files = native_merge(nat, case)
                rep.validated += 1
                sig = {"group": "merge", "kind": v["kind"], "first": case[0]}
                if ok:
                    rep.violation(sig, why, {"kind": "merge", "kinds": list(case), "source": ""})
                elif ok is None:
                    rep.inconc("replay failed for merge %s: %s" % (case, why))
                else:
                    rep.inconc("engine mismatch in merge %s: interpreter %s, real: %s" % (case, v, why))
                continue
            if gname == "backend":
                for v in r["violations"]:
                    ok, why, src = native_backend(nat, case[0], case[1], v)
                    rep.validated += 1
                    sig = {"group": "backend", "kind": v["kind"], "lang": case[0], "item": v["item"]}
                    if ok:
                        rep.violation(sig, why, {"source": src, "kind": "backend", "lang": case[0], "kinds": list(case[1]), "v": v})
                    else:
                        rep.inconc("engine mismatch in backend %s: interpreter %s, real: %s" % (case, v, why))
                continue
            v = r["violations"][0]
            src = r["src"]
            if v["kind"] == "annotation":
                src = src.replace("Qannotate", v["word"])
            if v["kind"] == "marker":
                src = src.replace("Qattrlong", v["word"]).replace("Qattr", v["word"]).replace("Qmrk", v["word"])
            real = native_lists(nat, src)
            rep.validated += 1
            sig = {"group": gname, "kind": v["kind"], "case": str(case)[:100]}
            if v["kind"] == "panic":
                ok = real == "panic"
            elif v["kind"] in ("members", "file"):
                ok = real != v["want"]
            elif v["kind"] == "annotation":
                where, entry = expect_item(case[0], "Target")
                present = real != "panic" and (entry in real[where] if isinstance(entry, str) else any(x[0] == "Target" for x in real[where]))
                ok = present == v["present"]
            else:
                ok = True if real == "panic" else None
                if real != "panic":
                    cont = case[0]
                    if cont == "struct":
                        nm = real["structs"][0][1] if real["structs"] else None
                    elif cont in ("unit_enum", "alg_enum"):
                        nm = [x[0] for x in real["enums"][0][1]] if real["enums"] else None
                    else:
                        nm = real["enums"][0][1][1][1] if real["enums"] else None
                    ok = nm == v.get("members")
            if ok:
                rep.violation(sig, "`%s`: parsed as %s%s" % (src.strip().replace("\n", " ")[:300], real, (" but expected %s" % v["want"]) if "want" in v else ""),
                              {"source": src, "want": v.get("want"), "kind": v["kind"]})
            else:
                rep.inconc("engine mismatch in %s %s: interpreter %s, real %s" % (gname, case, v, real))
    nat.close()
    rep.extra["explore_s"] = round(time.time() - t0, 1)


def replay(case):
    c = case["case"]
    rep = Replayer()
    if c.get("kind") == "same-name":
        ok, why, _ = native_samename(rep, tuple(c["case"]), c["names"])
        rep.close()
        print(why)
        return 1 if ok else 0
    if c.get("kind") == "merge":
        ok, why, _ = native_merge(rep, tuple(c["kinds"]))
        rep.close()
        print(why)
        return 1 if ok else 0
    if c.get("kind") == "backend":
        ok, why, _ = native_backend(rep, c["lang"], tuple(c["kinds"]), c["v"])
        rep.close()
        print(why)
        return 1 if ok else 0
    real = native_lists(rep, c["source"])
    rep.close()
    print(real)
    if c.get("want") is not None:
        want = {k: [tuple(x) if isinstance(x, list) else x for x in v] for k, v in c["want"].items()}
        return 1 if real != want and real != c["want"] else 0
    return 1
