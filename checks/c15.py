"""C15 - documentation text is carried only inside comments of the generated code.

Engine M: parser::parse_comment_attrs and the six write_comments/write_comment printers (with their
call sites in write_struct / write_enum / write_field / write_type_alias) are executed from MIR,
end to end from `#[doc = ".."]` attributes.  Doc strings are class words over {newline, *, /, ", ', \\,
#, `, space, other}: the special characters are concrete, `other` is a symbolic letter/digit, so one path
covers every ordinary text of that shape.  Oracle: the target language's comment lexer - the code that
remains after removing comments/docstrings from the output generated WITH the doc text must equal the code
of the output generated WITHOUT it (and the output must still lex).
"""
import itertools
import time

import z3

from vlib.common import Inconclusive, seed
from vlib.harness import Replayer, pmap
from vlib.mirsym.engine import new_interp
from vlib.mirsym.selftest import parser_selftest, backend_selftest
from vlib.mirsym import bharness, synast, pharness
from vlib.mirsym.values import *  # noqa
from vlib import extract, lexers
from checks.pcommon import prog, account, finish_case

LANGS = ["typescript", "kotlin", "swift", "scala", "go", "python"]
CLS = {"n": 10, "r": 13, "s": ord("*"), "f": ord("/"), "q": ord('"'), "a": ord("'"), "b": ord("\\"), "h": ord("#"), "t": ord("`"), "w": 32, "x": None}
POSITIONS = ["type", "field", "unit_variant", "variant", "struct_variant_field", "alias", "enum_type", "alg_enum_type"]


def source(pos, ndocs):
    d = "".join('#[doc = "Qdoc%d"] ' % i for i in range(ndocs))
    p = lambda k: d if pos == k else ""
    return ("#[typeshare]\n%spub struct Sss { %spub fff: u32, pub ggg: String }\n" % (p("type"), p("field"))
            + "#[typeshare]\n%spub enum Uuu { %sVa, Vb }\n" % (p("enum_type"), p("unit_variant"))
            + '#[typeshare]\n%s#[serde(tag = "t", content = "c")]\npub enum Eee { %sNn(String), Ss { %sxx: u32 } }\n' % (p("alg_enum_type"), p("variant"), p("struct_variant_field"))
            + "#[typeshare]\n%spub type Aaa = Vec<String>;\n" % p("alias"))


def doc_chars(I, word, idx):
    out = []
    for j, k in enumerate(word):
        if CLS[k] is not None:
            out.append(CLS[k])
        else:
            c = z3.BitVec("d%d_%d" % (idx, j), 32)
            I.assume(z3.Or(z3.And(z3.UGE(c, 97), z3.ULE(c, 122)), z3.And(z3.UGE(c, 65), z3.ULE(c, 90)), z3.And(z3.UGE(c, 48), z3.ULE(c, 57))))
            out.append(c)
    return out


def case_c(case):
    lang, pos, words = case
    P = prog()
    I = new_interp(P)
    res = {"paths": 0, "violations": [], "case": [lang, pos, list(words)]}
    src = source(pos, len(words))
    base_src = source(pos, 0)

    def gen(I, s, plant):
        f = synast.parse_source(P, s)
        if plant:
            synast.plant(f, plant)
        r = pharness.run_visitor(I, f)
        if r.variant == 0:
            return None
        pd = bharness.reconcile_single(I, r.fields[0])
        ok, w, _ = bharness.generate(I, lang, pd)
        return w if ok else None

    def entry(I):
        plant = {"Qdoc%d" % i: doc_chars(I, w, i) for i, w in enumerate(words)}
        with_docs = gen(I, src, plant)
        without = gen(I, base_src, None)
        return with_docs, without

    for kind, out, pc in I.explore(entry, max_paths=200):
        res["paths"] += 1
        if kind == "panic":
            res["violations"].append({"kind": "panic", "msg": out.msg}); continue
        wd, wo = out
        if wd is None or wo is None:
            res.setdefault("inconclusive", []).append("generation failed"); continue
        sk = extract.Skel(wd.chars)
        # symbolic `other` chars are letters/digits: replace the placeholders by a letter for lexing
        text = "".join(ch if ord(ch) < extract.PUA0 or ord(ch) > 0xF8FF else "z" for ch in sk.text)
        base = bharness.concrete_text(wo)
        try:
            code = lexers.code_of(lang, text)
        except lexers.LexError as e:
            res["violations"].append({"kind": "breaks-lexing", "why": str(e), "text": text[:600]}); continue
        if code != lexers.code_of(lang, base):
            a, b = code, lexers.code_of(lang, base)
            i = next((k for k in range(min(len(a), len(b))) if a[k] != b[k]), min(len(a), len(b)))
            res["violations"].append({"kind": "doc-text-becomes-code", "at": a[max(0, i - 30):i + 50], "text": text[:600]})
    return finish_case(I, res)


def words(n):
    alpha = "nsfqabhtwx"
    out = []
    for k in range(1, n + 1):
        out += ["".join(w) for w in itertools.product(alpha, repeat=k)]
    return out


def concrete_doc(word):
    return "".join(chr(CLS[k]) if CLS[k] is not None else "z" for k in word)


def rust_lit(s):
    return s.replace("\\", "\\\\").replace('"', '\\"').replace("\n", "\\n").replace("\r", "\\r")


def trimmed(word):
    """class word of the doc after the parser's trim()"""
    w = word
    while w and w[0] in "nrw":
        w = w[1:]
    while w and w[-1] in "nrw":
        w = w[:-1]
    return w


def run(rep, tier, only=None):
    P = prog()
    nat = Replayer()
    t0 = time.time()
    rep.validated += parser_selftest(P, nat, limit=20)
    rep.validated += backend_selftest(P, nat, limit=None if tier == "thorough" else 10, configs=False)
    sd = seed()
    ws = words(2 if tier == "quick" else 3)
    extra = ["r", "xr", "rx", "xrx", "rn", "nr", "xrnx", "qqqq", "qqqqq", "bqqqq", "xqqqqx", "qqq", "xqq", "qqx", "sfx", "xsf", "fsx", "xbq", "bbq", "xxb", "bqqq", "bbqqq", "xbqqq", "bqqqx", "bbbqqq", "bsf", "bn", "xbnx"]
    if tier == "quick":
        alpha = "nsfqabhtwx"
        ws += [a + "n" + b for a in alpha for b in alpha] + extra
    else:
        ws += [w for w in extra if w not in ws]
    cases = []
    for lang in LANGS:
        for pi, pos in enumerate(POSITIONS):
            for wi, w in enumerate(ws):
                if tier == "quick" and len(w) >= 2 and (wi + pi + sd) % 2 and "n" not in w[1:-1] and w not in ("qqq", "sf") and w not in extra:
                    continue
                cases.append((lang, pos, (w,)))
            # two doc attributes on one item
            for w1, w2 in (("x", "x"), ("x", "n"), ("sf", "x"), ("x", "qqq"), ("nx", "x"), ("x", "b")):
                cases.append((lang, pos, (w1, w2)))
            # several doc lines with empty / blank lines between paragraphs
            for multi in (("x", "", "x"), ("x", "", "x", "x"), ("", "x"), ("x", ""), ("x", "w", "x"), ("x", "x", "x"), ("x", "", "", "x")):
                cases.append((lang, pos, multi))
    rep.bounds = {"doc strings": "class words up to length %d over {newline, carriage return, * / \" ' \\ # ` space other}; `other` is a symbolic letter/digit; 1-2 doc attributes, plus 2-4 doc lines with empty or blank lines between them" % (2 if tier == "quick" else 3),
                  "positions": POSITIONS, "languages": LANGS}
    rep.outside = ["doc strings longer than the bound", "`///` vs `/** */` spelling (both reach typeshare as #[doc = ..] values; handled by syn)"]
    rep.assumptions = ["comment lexers of vlib/lexers.py (line/block comments, nested for Kotlin/Swift/Scala, string literals, Python docstrings as statement-level strings)"]
    reported = set()
    rep.harnesses["cases"] = len(cases)
    for st, case, r in pmap(("checks.c15", "case_c"), cases):
        rep.obligations += 1
        if st != "ok":
            rep.inconc("%s: %s" % (case, r)); continue
        account(rep, r); rep.discharged += 1
        for msg in r.get("inconclusive", [])[:1]:
            rep.inconc("%s: %s" % (case, msg))
        if not r["violations"]:
            if len(rep.samples) < 12 and len(case[2][0]) >= 2 and hash(str(case)) % 11 == 0:
                rep.sample({"case": str(case), "doc": repr(concrete_doc(case[2][0])), "verdict": "code(with docs) == code(without docs) for every ordinary char in the `other` positions"})
            continue
        v = r["violations"][0]
        lang, pos, wds = case
        tw = [trimmed(w) for w in wds]
        sig = {"lang": lang, "kind": "escapes-comment", "detail": v["kind"], "doc_class": "|".join(wds), "trimmed_class": "|".join(tw), "where": pos}
        key = (lang, pos, sig["doc_class"])
        if key in reported:
            continue
        reported.add(key)
        # native replay
        src = source(pos, len(wds))
        for i, w in enumerate(wds):
            src = src.replace("Qdoc%d" % i, rust_lit(concrete_doc(w)))
        base_src = source(pos, 0)
        cfg = dict(bharness.DEFAULT_CFG.get(lang, {}))
        ra = nat.ask({"op": "generate", "lang": lang, "files": [{"source": src}], "config": cfg})
        rb = nat.ask({"op": "generate", "lang": lang, "files": [{"source": base_src}], "config": cfg})
        rep.validated += 1
        oa, ob = ra.get("out", {}).get("", None), rb.get("out", {}).get("", None)
        if oa is None or ob is None:
            rep.inconc("native generation failed for %s" % (case,)); continue
        try:
            broken = lexers.code_of(lang, oa) != lexers.code_of(lang, ob)
        except lexers.LexError:
            broken = True
        if broken:
            rep.violation(sig, "%s: doc text %r on %s escapes its comment (%s)" % (lang, concrete_doc(wds[0]) if len(wds) == 1 else [concrete_doc(w) for w in wds], pos, v["kind"]),
                          {"source": src, "base_source": base_src, "lang": lang, "config": cfg})
        else:
            rep.inconc("engine mismatch %s: interpreter says %s, real output is fine" % (case, v["kind"]))
    nat.close()
    rep.extra["explore_s"] = round(time.time() - t0, 1)


def replay(case):
    c = case["case"]
    rep = Replayer()
    ra = rep.ask({"op": "generate", "lang": c["lang"], "files": [{"source": c["source"]}], "config": c.get("config", {})})
    rb = rep.ask({"op": "generate", "lang": c["lang"], "files": [{"source": c["base_source"]}], "config": c.get("config", {})})
    rep.close()
    oa, ob = ra.get("out", {}).get("", ""), rb.get("out", {}).get("", "")
    print(oa)
    try:
        return 1 if lexers.code_of(c["lang"], oa) != lexers.code_of(c["lang"], ob) else 0
    except lexers.LexError:
        return 1
