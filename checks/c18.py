"""C18 - I54/U53 hold exactly the JS-safe integers. Engine K (Kani/CBMC), complete: the code is
loop-free, inputs are the full 64-bit range, no unwinding bound is involved."""
import os

from vlib.common import CACHE, VERIF, Inconclusive
from vlib.common import run as sh
from vlib import kani

CRATE = "c18"
# harness -> (argument signedness list) in kani::any() order
HARNESSES = {
    "u53_try_from": "u", "i54_try_from": "s",
    "u53_narrow": "uuuu", "i54_narrow": "ssss",
    "u53_order": "uu", "i54_order": "ss",
    "u53_deserialize": "u", "i54_deserialize": "s",
    "u53_deserialize_f64": "u", "i54_deserialize_f64": "u",
    "u53_serialize": "u", "i54_serialize": "s",
    "limits": "",
}
FUNCS = ["<U53 as TryFrom<u64>>::try_from", "<I54 as TryFrom<i64>>::try_from", "From<U53> for u64", "From<I54> for i64",
         "From<u8|u16|u32> for U53", "From<i8|i16|i32> for I54", "TryFrom<U53> for u8|u16|u32", "TryFrom<I54> for i8|i16|i32",
         "derived PartialEq/Eq/PartialOrd/Ord for U53, I54", "PartialEq<u64>/PartialOrd<u64> for U53 (i64 for I54)",
         "derived Deserialize (serde(try_from)) for U53, I54 from integer and from floating point tokens", "derived Serialize for U53, I54",
         "usize_from_u53_saturated", "U53::MIN/MAX, I54::MIN/MAX"]


def native_replay(h, vals):
    crate_dir = os.path.join(VERIF, "kani", CRATE)
    tdir = os.path.join(CACHE, CRATE + "-native")
    outs = []
    for prof in ([], ["--release"]):
        rc, out, _ = sh(["cargo", "run", "-q", "--offline", "--target-dir", tdir, "--bin", "replay"] + prof + ["--", h] + [str(v) for v in vals],
                         cwd=crate_dir, timeout=900)
        outs.append((rc, out.strip().splitlines()[-1] if out.strip() else ""))
    return outs


B53 = 1 << 53
U_BOUNDS = [0, 1, 255, 256, 65535, 65536, (1 << 32) - 1, 1 << 32, B53 - 2, B53 - 1, B53, B53 + 1, (1 << 63) - 1, 1 << 63, (1 << 64) - 1]
S_BOUNDS = sorted(set([0, 1, -1, 127, 128, -128, -129, 32767, 32768, -32768, -32769, (1 << 31) - 1, 1 << 31, -(1 << 31), -(1 << 31) - 1,
                       B53 - 2, B53 - 1, B53, B53 + 1, -(B53 - 2), -(B53 - 1), -B53, -B53 - 1, (1 << 63) - 1, -(1 << 63)]))


def boundary_probe(h):
    """concrete probe of one obligation on boundary values through the real code (dev and release) - used only when CBMC gives no
    verdict for the harness, so that an existing concrete failure is still reported; it never turns into a 'holds'"""
    sig = HARNESSES[h]
    if not sig:
        return None
    pools = [U_BOUNDS if c == "u" else S_BOUNDS for c in sig]
    if h.endswith("_f64"):
        import struct
        fl = [14.5, 14.0, 0.5, -0.999, 1e-3, 1e3, 9007199254740990.5, 9007199254740991.0, 9007199254740992.0, -14.5, 0.0, -0.0, float("inf"), float("-inf"), float("nan"), 1.8e19]
        pools = [[struct.unpack("<Q", struct.pack("<d", x))[0] for x in fl]]
    if len(sig) == 1:
        tuples = [(v,) for v in pools[0]]
    elif len(sig) == 2:
        tuples = [(a, b) for a in pools[0] for b in (a, a + 1 if a + 1 in pools[1] else a, pools[1][0], pools[1][-1])]
    else:
        # narrowing harnesses: (small, small, small, wide) - vary the wide argument, keep the small ones at their extremes
        small = [(0, 0, 0), (pools[0][-1] & 0x7F, 1, 1)] if sig[0] == "u" else [(0, 0, 0), (-128, -32768, -(1 << 31)), (127, 32767, (1 << 31) - 1)]
        tuples = [sm + (w,) for sm in small for w in pools[3]]
    for vals in tuples:
        outs = native_replay(h, list(vals))
        if any(rc == 1 for rc, _ in outs):
            return list(vals), outs
    return None


def run(rep, tier, only=None):
    budget = 420 if tier == "quick" else 1500
    try:
        res, out, dt = kani.run_kani(CRATE, timeout=budget)
    except Inconclusive as e:
        rep.inconc("cargo kani gave no result within %d s: %s" % (budget, str(e)[:300]))
        res = {}
    rep.solver_s += sum(r["time"] for r in res.values())
    rep.functions.update(FUNCS)
    rep.bounds = {"inputs": "every u64 / i64 value (kani::any, no assumptions)", "unwinding": "none needed (loop-free); Kani's unwinding assertions stay on",
                  "instantiations": "U53/u64, I54/i64 and the u8,u16,u32 / i8,i16,i32 conversions"}
    rep.outside = ["serde_json's text <-> integer lexer (the derived impls are driven from the integer onward)",
                   "32-bit targets for usize_from_u53_saturated"]
    rep.extra["fallback"] = "a harness without a CBMC verdict (time-out) is probed on boundary values through the real code: a failure is reported, absence of one stays INCONCLUSIVE"
    rep.assumptions = ["Kani 0.68 / CBMC 6.11 model of the compiled dev-profile MIR of /repo/lib and serde",
                       "serde::de::value::{U64,I64,F64}Deserializer stand in for a JSON number already lexed to u64/i64/f64 (the f64 harnesses use an error type that does not format its message)"]
    rep.extra["checker_cmd"] = "cargo kani --output-format terse -Z concrete-playback --concrete-playback=print (kani/c18)"
    for h, sig in HARNESSES.items():
        full = "proofs::" + h
        wit = "proofs::w_" + h
        r = res.get(full)
        if r is None or r["status"] not in ("SUCCESS", "FAILED"):
            # no verdict from CBMC (time-out / error): look for a concrete failure on boundary values before giving up
            hit = boundary_probe(h)
            rep.validated += 1
            if hit:
                vals, outs = hit
                msg = [o for rc, o in outs if rc == 1][0]
                rep.violation({"harness": h, "obligation": msg}, "%s with arguments %s (boundary probe through the real code; CBMC gave no verdict for this harness)" % (msg, vals),
                              {"harness": h, "args": vals})
            else:
                rep.inconc("harness %s: no verdict from Kani (%s) and no failure on the boundary values" % (h, "missing from the output" if r is None else r["status"]))
            continue
        rep.obligations += 1
        rep.states += 1
        rep.queries += r["checks"]
        rep.harnesses[h] = {"status": r["status"], "checks": r["checks"], "time_s": r["time"]}
        if h != "limits":
            w = res.get(wit)
            if w is None or w["status"] != "SUCCESS" or not w["covers"] or w["covers"][0] != w["covers"][1]:
                # the vacuity witness must be reachable; otherwise nothing this harness says is believed
                if r["status"] == "SUCCESS":
                    rep.inconc("vacuity witness %s not satisfied (%s)" % (wit, w and w["covers"]))
                    continue
            else:
                rep.queries += w["checks"]
        if r["status"] == "SUCCESS":
            rep.discharged += 1
            rep.sample({"harness": h, "verdict": "SUCCESSFUL for all %s" % ("2^64 values of each argument" if sig else "constants"), "cbmc_checks": r["checks"]})
            continue
        if r["status"] != "FAILED":
            rep.inconc("harness %s: Kani status %s" % (h, r["status"]))
            continue
        # counterexample: decode, replay natively in dev and release profile
        vals = [kani.le_int(bs, signed=(s == "s")) for bs, s in zip(r["vals"], sig)]
        if len(vals) != len(sig):
            rep.inconc("harness %s failed (%s) but no concrete values were extracted" % (h, r["failed_checks"]))
            continue
        outs = native_replay(h, vals)
        rep.validated += 1
        if all(rc == 1 for rc, _ in outs):
            rep.violation({"harness": h, "obligation": outs[0][1]}, "%s with arguments %s (dev and release)" % (outs[0][1], vals),
                          {"harness": h, "args": vals})
        elif any(rc == 1 for rc, _ in outs):
            rep.violation({"harness": h, "obligation": [o for rc, o in outs if rc == 1][0], "profile": "one-of-dev/release"},
                          "%s with arguments %s (one profile only: %s)" % (outs, vals, outs), {"harness": h, "args": vals})
        else:
            rep.inconc("Kani counterexample for %s %s did not reproduce natively: %s" % (h, vals, outs))
    rep.exhaustive = True
    rep.extra["explanation"] = ("Each harness is decided by CBMC over all 64-bit values of every argument; "
                                "states = harnesses, transitions = CBMC checks discharged.")


def replay(case):
    c = case["case"]
    outs = native_replay(c["harness"], c["args"])
    for rc, o in outs:
        print(o)
    return 1 if any(rc == 1 for rc, _ in outs) else 0
