"""C14 - folder mode partitions types by crate and imports cross-crate references.

Engine M on the MIR of typeshare-cli + typeshare-core.  Whole-pipeline symbolic runs over small workspaces:
every file is parsed by the real syn (astdump) and visited by TypeShareVisitor from MIR (visit_path,
visit_item_use, ItemUseIter, reconcile_referenced_types), the per-file results go through the collector
closure of parallel_parse, reconcile_aliases, all_types and <Lang>::generate_types (used_imports,
write_imports).  The referenced foreign type's name carries a symbolic character; z3 decides on each path
   imports : the import clause of the using crate's module names the foreign type under the name its defining
             module emits, from exactly that module; every imported name is defined by the named module;
             same-crate references and mapped types are not imported (TypeScript, Kotlin);
   partition: every type is defined in exactly the output of its crate, output file names follow the crate
             name, and the definition lines over all modules equal the single-file run (all languages).
find_crate_name / output_file_name are decided separately on symbolic path components / crate names.
"""
import itertools
import re
import time

import z3

from vlib.common import Inconclusive
from vlib.harness import pmap
from vlib.mirsym.engine import load_program, new_interp
from vlib.mirsym import bharness, pharness, synast
from vlib.mirsym.models_iter import ListIt
from vlib.mirsym.models_misc import RPath
from vlib.mirsym.models_core import seq_eq
from vlib.mirsym.values import *  # noqa
from vlib.extract import Skel, PUA_CLASS
from checks.pcommon import account, finish_case

_PROG = None
LANGS = ["typescript", "kotlin", "swift", "scala", "go", "python"]
EXT = {"typescript": "ts", "kotlin": "kt", "swift": "swift", "scala": "scala", "go": "go", "python": "py"}
IDC = r"[\w-]"


def prog():
    global _PROG
    if _PROG is None:
        _PROG = load_program(("core", "cli"))
    return _PROG


# ---- workspace templates ------------------------------------------------------------------------------
# PLACEN is the foreign type's identifier (planted: "F" + a symbolic char)
B_LIB = ("#[typeshare]\npub struct PLACEN { pub x: u32 }\n"
         "#[typeshare]\n#[serde(rename = \"Other\")]\npub struct Ren { pub y: u32 }\n"
         "#[typeshare]\npub struct Unused { pub z: u32 }\n"
         "#[typeshare]\npub struct Gen<T> { pub t: T }\n"
         "#[typeshare]\npub struct Solo { pub s: u32 }\n")
C_LIB = ("#[typeshare]\npub struct PLACEN { pub w: String }\n"
         "#[typeshare]\n#[serde(rename = \"OtherC\")]\npub struct Ren { pub yc: u32 }\n"
         "#[typeshare]\n#[serde(rename = \"SoloC\")]\npub struct Solo { pub sc: u32 }\n")
A_OTHER = "#[typeshare]\npub struct Local { pub q: bool }\n"

# form -> (use statement, how the type is spelled, expectation)
#   expectation: ("import", crate, name) | ("none",)     name: "N" = the planted name, else literal
FORMS = {
    "single": ("use b::PLACEN;", "PLACEN", ("import", "b", "N")),
    "grouped": ("use b::{Unused, PLACEN};", "PLACEN", ("import", "b", "N")),
    "grouped-first": ("use b::{PLACEN, Unused};", "PLACEN", ("import", "b", "N")),
    "nested": ("use b::{inner::{PLACEN, deeper::Unused}};", "PLACEN", ("import", "b", "N")),
    # lower-case names (functions, modules, `self`) among the types of a group
    "grouped-fn-middle": ("use b::{PLACEN, helper, Unused};", "PLACEN", ("import", "b", "N")),
    "grouped-fn-last": ("use b::{PLACEN, Unused, helper};", "PLACEN", ("import", "b", "N")),
    "grouped-fn-first": ("use b::{helper, PLACEN};", "PLACEN", ("import", "b", "N")),
    "nested-fn-inside": ("use b::{PLACEN, util::{Unused, helper}};", "PLACEN", ("import", "b", "N")),
    "grouped-self-last": ("use b::{PLACEN, self};", "PLACEN", ("import", "b", "N")),
    "grouped-self-first": ("use b::{self, PLACEN};", "PLACEN", ("import", "b", "N")),
    "module-path": ("use b::inner::PLACEN;", "PLACEN", ("import", "b", "N")),
    "glob": ("use b::*;", "PLACEN", ("import", "b", "N")),
    "glob-and-name": ("use b::*;\nuse b::Unused;", "PLACEN", ("import", "b", "N")),
    "glob-and-same-name": ("use b::*;\nuse b::PLACEN;", "PLACEN", ("import", "b", "N")),
    "glob-and-renamed-name": ("use b::*;\nuse b::Ren;", "Ren", ("import", "b", "Other")),
    "renamed-name-then-glob": ("use b::Ren;\nuse b::inner::*;", "Ren", ("import", "b", "Other")),
    "glob-and-qualified-renamed": ("use b::*;", "b::Ren", ("import", "b", "Other")),
    "qualified": ("", "b::PLACEN", ("import", "b", "N")),
    "qualified-module": ("", "b::inner::PLACEN", ("import", "b", "N")),
    "qualified-in-qualified": ("", "b::Gen<b::PLACEN>", ("import", "b", "N")),
    "qualified-in-used-generic": ("use b::Gen;", "Gen<b::PLACEN>", ("import", "b", "N")),
    "used-in-qualified-generic": ("use b::PLACEN;", "b::Gen<PLACEN>", ("import", "b", "N")),
    "crate-path": ("use crate::other::Local;", "Local", ("none",)),
    "self-path": ("use self::other::Local;", "Local", ("none",)),
    "super-path": ("use super::other::Local;", "Local", ("none",)),
    "crate-qualified": ("", "crate::other::Local", ("none",)),
    "serde-renamed": ("use b::Ren;", "Ren", ("import", "b", "Other")),
    "mapped": ("use b::Mapped;", "Mapped", ("none",)),
    "same-name-c": ("use c::PLACEN;", "PLACEN", ("import", "c", "N")),
    "same-name-other-renamed": ("use b::Solo;", "Solo", ("import", "b", "Solo")),
    "same-name-renamed-b": ("use b::Ren;", "Ren", ("import", "b", "Other")),
    "same-name-renamed-c": ("use c::Ren;", "Ren", ("import", "c", "OtherC")),
    "same-name-b": ("use b::PLACEN;", "PLACEN", ("import", "b", "N")),
    "dash-crate": ("use d_e::PLACEN;", "PLACEN", ("import", "d_e", "N")),
    # the crate's own type has the same name as a type of crate b: no import, whatever the root keyword
    "self-path-same-name": ("use self::other::PLACEN;", "PLACEN", ("none",)),
    "crate-path-same-name": ("use crate::other::PLACEN;", "PLACEN", ("none",)),
    "super-path-same-name": ("use super::other::PLACEN;", "PLACEN", ("none",)),
    "crate-qualified-same-name": ("", "crate::other::PLACEN", ("none",)),
    # a second file of crate a imports the same name from crate c (used by C06's hash-ws group: which import survives must not depend on hashing)
    "same-name-both-imported": ("use b::PLACEN;", "PLACEN", ("import", "b", "N")),
    # ... and the same inside ONE file: two modules of the file import the name from b and from c
    "same-name-two-modules": ("", "PLACEN", ("import", "b", "N")),
    # ... the same with a type both crates serde-rename differently (which new name the references get must not depend on hashing)
    "same-name-two-modules-renamed": ("", "Ren", ("import", "b", "Other")),
    # crate b only re-exports the name; crates c and d both define it (the re-export heuristic must pick deterministically)
    "reexport-two-candidates": ("use b::PLACEN;", "PLACEN", ("import", "c", "N")),
}
A_TWO_MODULES_REN = ("pub mod x {\n    use b::Ren;\n    #[typeshare]\n    pub struct Ux { pub f: Ren }\n}\n"
                     "pub mod y {\n    use c::Ren;\n    #[typeshare]\n    pub struct User { pub g: Ren }\n}\n")
B_REEXPORT = "pub use c::PLACEN;\n#[typeshare]\npub struct Bee { pub z: u32 }\n"
D_LIB = "#[typeshare]\npub struct PLACEN { pub dd: bool }\n"
A_TWO_MODULES = ("pub mod x {\n    use b::PLACEN;\n    #[typeshare]\n    pub struct Ux { pub f: PLACEN }\n}\n"
                 "pub mod y {\n    use c::PLACEN;\n    #[typeshare]\n    pub struct User { pub g: PLACEN }\n}\n")
A_OTHER_SAME = "#[typeshare]\npub struct Local { pub q: bool }\n#[typeshare]\npub struct PLACEN { pub own: bool }\n"
A_OTHER_C = "use c::PLACEN;\n#[typeshare]\npub struct Local { pub q: bool, pub r: PLACEN }\n"
POSITIONS = {
    "field": "#[typeshare]\npub struct User { pub f: %s }\n",
    "vec": "#[typeshare]\npub struct User { pub f: Vec<%s> }\n",
    "option": "#[typeshare]\npub struct User { pub f: Option<%s> }\n",
    "map-value": "#[typeshare]\npub struct User { pub f: HashMap<String, %s> }\n",
    "generic-first-arg": "#[typeshare]\npub struct Wrap<T, U> { pub t: T, pub u: U }\n#[typeshare]\npub struct User { pub f: Wrap<%s, Local2> }\n#[typeshare]\npub struct Local2 { pub k: u32 }\n",
    "generic-last-arg": "#[typeshare]\npub struct Wrap<T, U> { pub t: T, pub u: U }\n#[typeshare]\npub struct User { pub f: Wrap<Local2, %s> }\n#[typeshare]\npub struct Local2 { pub k: u32 }\n",
    "nested-generic": "#[typeshare]\npub struct User { pub f: Vec<Option<%s>> }\n",
    "enum-tuple": "#[typeshare]\n#[serde(tag = \"t\", content = \"c\")]\npub enum User { A, B(%s) }\n",
    "enum-struct": "#[typeshare]\n#[serde(tag = \"t\", content = \"c\")]\npub enum User { A, B { g: %s } }\n",
    "alias": "#[typeshare]\npub type User = Vec<%s>;\n",
    "second-field": "#[typeshare]\npub struct User { pub e: u32, pub f: %s, pub g: String }\n",
}
DEPTHS = {"lib": "a/src/lib.rs", "module": "a/src/models/m.rs", "deep": "a/src/x/y/z/m.rs"}


def workspace(form, pos, depth):
    use, spelled, expect = FORMS[form]
    a_src = (use + "\n" if use else "") + "use std::collections::HashMap;\n" + POSITIONS[pos] % spelled
    if form == "same-name-two-modules":
        a_src = A_TWO_MODULES
    if form == "same-name-two-modules-renamed":
        a_src = A_TWO_MODULES_REN
    files = [("a", DEPTHS[depth], a_src), ("a", "a/src/other.rs", A_OTHER_C if form == "same-name-both-imported" else A_OTHER_SAME if form.endswith("-path-same-name") or form == "crate-qualified-same-name" else A_OTHER)]
    if form == "dash-crate":
        files.append(("d_e", "d-e/src/lib.rs", B_LIB))
    else:
        files.append(("b", "b/src/lib.rs", B_LIB))
    if form.startswith("same-name"):
        files.append(("c", "c/src/lib.rs", C_LIB))
    if form == "reexport-two-candidates":
        files = [f for f in files if f[0] != "b"] + [("b", "b/src/lib.rs", B_REEXPORT), ("c", "c/src/lib.rs", C_LIB), ("d", "d/src/lib.rs", D_LIB)]
    return files, expect


def out_name(lang, crate):
    if lang == "swift":
        return "".join(p[:1].upper() + p[1:] for p in crate.split("_")) + ".swift"
    return "%s.%s" % (crate, EXT[lang])


def collect(I, files):
    P = I.prog
    key = [k for k in P.funcs if k == "parse::parallel_parse::{closure#0}"]
    if not key:
        raise Unsupported("collector closure of parallel_parse not found in the MIR")
    r = I.call_mir(key[0], [Closure("<closure collector>", [ListIt([OK(f) for f in files], False)])])
    if r.variant != 0:
        raise Unsupported("collector returned Err")
    return r.fields[0]


def run_pipeline(I, lang, files, multi, name_chars, cfg=None):
    """parse every file (real syn AST, visitor from MIR), fold, reconcile, all_types, generate: {crate: (file_name, chars)}"""
    P = I.prog
    L = P.layout
    lcfg = dict(cfg or {})
    lcfg.setdefault("type_mappings", {"Mapped": "string"})
    lcfg["no_version_header"] = True
    lg = bharness.make_lang(I, lang, lcfg, multi_file=multi)
    pds = []
    from vlib.mirsym import parse_entry
    for crate, path, src in files:
        # crate name through the real find_crate_name on the file's path (folder mode)
        if multi:
            cn = I.call_static("language::CrateName::find_crate_name", [Ref([RPath(S(path))], 0)])
            if cn.variant == 0:
                raise Unsupported("find_crate_name found no crate for " + path)
            cname = cn.fields[0]
            got = pystr(cname.fields[0])
            if got != crate:
                raise Unsupported("find_crate_name(%s) = %r, template expects %r" % (path, got, crate))
            fname = pystr(I.call_static("parse::output_file_name", [lang_enum(I, lang), Ref([cname], 0)]))
        else:
            fname = ""
        # through parser::parse itself (text pre-filter, syn::parse_file model, visitor); the planted name is symbolic in the text too
        pr = parse_entry.run_parse(I, src, {"PLACEN": name_chars}, multi_file=multi, crate=crate if multi else "", file_name=fname, file_path=path, ignored=("Mapped",))
        if pr.variant != 0:
            raise Unsupported("parser::parse returned Err on a workspace file")
        r = pr.fields[0]
        if r.variant == 1:
            pds.append(r.fields[0])
    m = collect(I, pds)
    cell = [m]
    I.call_static("reconcile::reconcile_aliases", [Ref(cell, 0)])
    errs = I.call_static("check_parse_errors", [Ref(cell, 0)])
    if errs.variant != 0:
        raise Unsupported("template does not parse cleanly: %r" % (errs,))
    at = I.call_static("parse::all_types", [Ref(cell, 0)]) if multi else RMap("HashMap")
    outs = {}
    for cn, pd in cell[0].entries:
        fname = pystr(pd.fields[L.structs["ParsedData"].index("file_name")])
        ok, w, _ = bharness.generate(I, lang, pd, all_types=at, lang_value=lg)
        if not ok:
            raise Unsupported("generate_types failed for crate %s" % pystr(cn.fields[0]))
        outs[pystr(cn.fields[0])] = (fname, list(w.chars))
    return outs


def lang_enum(I, lang):
    L = I.prog.layout
    v = {"typescript": "TypeScript", "kotlin": "Kotlin", "swift": "Swift", "scala": "Scala", "go": "Go", "python": "Python"}[lang]
    return EnumV("language::SupportedLanguage", L.enums["SupportedLanguage"].index(v), [])


# ---- extractors ----------------------------------------------------------------------------------------------
def ts_imports(sk):
    out = []
    for m in re.finditer(r'^import \{ (.*) \} from "\./(.*)";$', sk.text, re.M):
        pos = m.start(1)
        for part in m.group(1).split(", "):
            out.append(((pos, pos + len(part)), m.group(2)))
            pos += len(part) + 2
    return out


def ts_defined(sk):
    return [(m.start(1), m.end(1)) for m in re.finditer(r"^export (?:interface|type|enum|const) (%s+)" % IDC, sk.text, re.M)]


def kt_imports(sk, package="com.agilebits.onepassword"):
    out = []
    for m in re.finditer(r"^import (.*)\.(%s+)\.(%s+)$" % (IDC, IDC), sk.text, re.M):
        if m.group(1).startswith("kotlinx"):
            continue
        out.append(((m.start(3), m.end(3)), m.group(2)))
    return out


def kt_defined(sk):
    return [(m.start(1), m.end(1)) for m in re.finditer(r"^(?:@\w+(?:\([^)\n]*\))?\s)*(?:data class|enum class|sealed class|class|object|typealias) (%s+)" % IDC, sk.text, re.M)]


DEFINED = {
    "typescript": ts_defined, "kotlin": kt_defined,
    "swift": lambda sk: [(m.start(1), m.end(1)) for m in re.finditer(r"^public (?:struct|class|enum|indirect enum|typealias) (%s+)" % IDC, sk.text, re.M)],
    "scala": lambda sk: [(m.start(1), m.end(1)) for m in re.finditer(r"^(?:case class|sealed trait|type|\ttype|object) (%s+)" % IDC, sk.text, re.M)],
    "go": lambda sk: [(m.start(1), m.end(1)) for m in re.finditer(r"^type (%s+)[ \[]" % IDC, sk.text, re.M)],
    "python": lambda sk: [(m.start(m.lastindex), m.end(m.lastindex)) for m in re.finditer(r"^(?:class (%s+)\(|(?=[A-Z])(%s+) = )" % (IDC, IDC), sk.text, re.M)],
}


def name_eq(I, sk, span, chars):
    return seq_eq(I, sk.terms(span), list(chars))


def model_of(I, cond):
    if isinstance(cond, bool):
        return I.sat_model(z3.BoolVal(True)) if cond else None
    return I.sat_model(cond)


def case_imports(case):
    lang, form, pos, depth = case
    P = prog()
    I = new_interp(P)
    res = {"paths": 0, "violations": [], "case": list(case)}
    files, expect = workspace(form, pos, depth)
    sym = z3.BitVec("n", 32)

    def entry(I):
        I.assume(z3.Or(z3.And(z3.UGE(sym, 97), z3.ULE(sym, 122)), z3.And(z3.UGE(sym, 48), z3.ULE(sym, 57))))
        return run_pipeline(I, lang, files, True, [ord("F"), sym])

    imports_of = ts_imports if lang == "typescript" else kt_imports
    defined_of = DEFINED[lang]
    for kind, out, pc in I.explore(entry, max_paths=300):
        res["paths"] += 1
        if kind == "panic":
            res["violations"].append({"kind": "panic", "msg": out.msg}); continue
        outs = out
        if "a" not in outs:
            raise Unsupported("vacuity: crate a produced no module")
        sks = {c: Skel(t[1]) for c, t in outs.items()}
        ska = sks["a"]
        imps = imports_of(ska)

        def ev(m, chars):
            return "".join(chr(c) if isinstance(c, int) else chr(m.eval(c, model_completion=True).as_long()) for c in chars)
        # (2) every import names a type its module defines
        for span, module in imps:
            if module not in outs:
                m = I.sat_model(z3.BoolVal(True))
                res["violations"].append({"kind": "import-from-unknown-module", "module": module, "name": ev(m, ska.terms(span)), "n": ev(m, [sym])}); continue
            ds = defined_of(sks[module])
            conds = [seq_eq(I, ska.terms(span), sks[module].terms(d)) for d in ds]
            if any(c is True for c in conds):
                continue
            cs = [c for c in conds if c is not False]
            m = model_of(I, z3.Not(z3.Or(cs)) if cs else True)
            if m is not None:
                res["violations"].append({"kind": "import-of-undefined-name", "module": module, "name": ev(m, ska.terms(span)), "n": ev(m, [sym])})
        # (1)/(3) the expected import
        if expect[0] == "import":
            _, crate, nm = expect
            want = [ord("F"), sym] if nm == "N" else [ord(c) for c in nm]
            conds = [seq_eq(I, ska.terms(span), want) for span, module in imps if module == crate]
            if not any(c is True for c in conds):
                cs = [c for c in conds if c is not False]
                m = model_of(I, z3.Not(z3.Or(cs)) if cs else True)
                if m is not None:
                    res["violations"].append({"kind": "missing-import", "crate": crate, "name": ev(m, want), "n": ev(m, [sym]),
                                              "imports": [(ev(m, ska.terms(s)), mo) for s, mo in imps]})
            # the name is really used by a's definitions (vacuity witness for the template)
            body = ska.text
            if nm != "N" and nm not in body and not res["violations"]:
                raise Unsupported("vacuity: %s does not occur in crate a's module" % nm)
            # a serde-renamed foreign type is referred to by its new name: the Rust name must not survive in the module
            rust_name = FORMS[form][1].split("::")[-1].split("<")[0]
            if nm != "N" and rust_name != nm and re.search(r"(?<![\w])%s(?![\w])" % re.escape(rust_name), body):
                m = I.sat_model(z3.BoolVal(True))
                line = [l for l in body.split("\n") if re.search(r"(?<![\w])%s(?![\w])" % re.escape(rust_name), l)][0]
                res["violations"].append({"kind": "reference-keeps-rust-name", "crate": crate, "name": rust_name, "want": nm, "line": line.strip()[:120], "n": ev(m, [sym])})
            # and not imported from any other module
            for span, module in imps:
                if module != crate:
                    c = seq_eq(I, ska.terms(span), want)
                    m = model_of(I, c)
                    if m is not None:
                        res["violations"].append({"kind": "import-from-wrong-module", "module": module, "name": ev(m, want), "n": ev(m, [sym])})
        else:
            if imps:
                m = I.sat_model(z3.BoolVal(True))
                res["violations"].append({"kind": "unexpected-import", "imports": [(ev(m, ska.terms(s)), mo) for s, mo in imps], "n": ev(m, [sym])})
    uniq = {}
    for v in res["violations"]:
        uniq.setdefault(v["kind"], v)
    res["violations"] = list(uniq.values())
    return finish_case(I, res)


# ---- partition -----------------------------------------------------------------------------------------------
def declared(src):
    """[(rust name, emitted name)] of the typeshared items of one source file (serde(rename) on the item honoured)"""
    out = []
    for m in re.finditer(r'(?:#\[serde\(rename = "(\w+)"\)\]\s*)?pub (?:struct|enum|type) (\w+)', src.replace("PLACEN", "Fx")):
        out.append((m.group(2), m.group(1) or m.group(2)))
    return out


HEADER = re.compile(r"^(?:import |from .* import |package |\s*$|// |/\*|\*/| \*|@file|#|using )")


def def_lines(text):
    """the set of definition lines (per-file boiler plate such as Scala's package object repeats in every module,
    so lines are compared as a set; which module defines which type is checked separately)"""
    return sorted({ln for ln in text.split("\n") if ln.strip() and not HEADER.match(ln)})


def case_partition(case):
    lang, form, pos, depth = case
    P = prog()
    I = new_interp(P)
    res = {"paths": 0, "violations": [], "case": list(case)}
    files, expect = workspace(form, pos, depth)
    name = [ord("F"), ord("x")]

    def entry(I):
        multi = run_pipeline(I, lang, files, True, name)
        single = run_pipeline(I, lang, files, False, name)
        return multi, single

    defined_of = DEFINED[lang]
    for kind, out, pc in I.explore(entry, max_paths=50):
        res["paths"] += 1
        if kind == "panic":
            res["violations"].append({"kind": "panic", "msg": out.msg}); continue
        multi, single = out
        crates = sorted({c for c, _, _ in files})
        if sorted(multi) != crates:
            res["violations"].append({"kind": "module-set", "got": sorted(multi), "want": crates}); continue
        texts = {}
        for c in crates:
            fname, chars = multi[c]
            if fname != out_name(lang, c):
                res["violations"].append({"kind": "file-name", "crate": c, "got": fname, "want": out_name(lang, c)})
            texts[c] = "".join(chr(x) for x in chars)
        # where is each type defined?  (names from the single-file run are the reference)
        stext = "".join(chr(x) for x in single[""][1])
        want_home = {}      # emitted name -> crates whose sources declare it
        for c, path, src in files:
            for rust_name, out_nm in declared(src):
                want_home.setdefault(out_nm, []).append(c)
        for c in crates:
            sk = Skel([ord(x) for x in texts[c]])
            names = [sk.str(s) for s in defined_of(sk)]
            for nm in names:
                homes = want_home.get(nm)
                if homes is not None and c not in homes:
                    res["violations"].append({"kind": "type-in-wrong-module", "type": nm, "module": c, "want": homes})
        for out_nm, homes in want_home.items():
            for c in homes:
                sk = Skel([ord(x) for x in texts[c]])
                if out_nm not in [sk.str(s) for s in defined_of(sk)]:
                    res["violations"].append({"kind": "type-missing-from-module", "type": out_nm, "module": c})
        # definitions equal the single-file run (same-named types in two crates collide in single-file mode: skip)
        if not form.startswith("same-name"):
            ml = sorted({ln for c in crates for ln in def_lines(texts[c])})
            sl = def_lines(stext)
            if ml != sl:
                only_m = [x for x in ml if x not in sl][:3]
                only_s = [x for x in sl if x not in ml][:3]
                res["violations"].append({"kind": "definitions-differ-from-single-file", "only_folder": only_m, "only_single": only_s})
    uniq = {}
    for v in res["violations"]:
        uniq.setdefault(v["kind"], v)
    res["violations"] = list(uniq.values())
    return finish_case(I, res)


# ---- find_crate_name / output_file_name kernels ------------------------------------------------------------------
def case_crate_name(case):
    """path = comps joined by '/', the crate directory's name has symbolic chars in [a-z0-9_-]"""
    shape, nlen = case
    P = prog()
    I = new_interp(P)
    res = {"paths": 0, "violations": [], "case": [list(shape), nlen]}
    cs = [z3.BitVec("d%d" % i, 32) for i in range(nlen)]

    def entry(I):
        for c in cs:
            I.assume(z3.Or(z3.And(z3.UGE(c, 97), z3.ULE(c, 122)), c == 45, c == 95, z3.And(z3.UGE(c, 48), z3.ULE(c, 57))))
        if nlen == 3:
            I.assume(z3.Not(z3.And(cs[0] == ord("s"), cs[1] == ord("r"), cs[2] == ord("c"))))   # a crate directory itself named `src`: outside the claim
        chars = []
        for k, comp in enumerate(shape):
            if k:
                chars.append(47)
            chars.extend(cs if comp == "<crate>" else [ord(x) for x in comp])
        r = I.call_static("language::CrateName::find_crate_name", [Ref([RPath(RString(chars))], 0)])
        return r

    # oracle: the directory right above the innermost `src`
    idx = [k for k, comp in enumerate(shape) if comp == "src"]
    for kind, out, pc in I.explore(entry, max_paths=400):
        res["paths"] += 1
        if kind == "panic":
            res["violations"].append({"kind": "panic", "msg": out.msg}); continue
        r = out
        want_comp = shape[idx[-1] - 1] if idx and idx[-1] >= 1 else None
        if want_comp is None:
            if r.variant != 0:
                res["violations"].append({"kind": "crate-name-without-src", "got": repr(r)})
            continue
        if r.variant == 0:
            m = I.sat_model(z3.BoolVal(True))
            res["violations"].append({"kind": "no-crate-name", "n": "".join(chr(m.eval(c, model_completion=True).as_long()) for c in cs)}); continue
        got = r.fields[0].fields[0].chars
        if want_comp == "<crate>":
            want = [z3.If(c == 45, z3.BitVecVal(95, 32), c) for c in cs]
        else:
            want = [ord(x) for x in want_comp.replace("-", "_")]
        c = seq_eq(I, got, want)
        m = model_of(I, z3.Not(c) if not isinstance(c, bool) else (not c))
        if m is not None:
            dn = "".join(chr(m.eval(x, model_completion=True).as_long()) for x in cs)
            res["violations"].append({"kind": "wrong-crate-name", "dir": dn, "shape": list(shape),
                                      "got": "".join(chr(x if isinstance(x, int) else m.eval(x, model_completion=True).as_long()) for x in got)})
    return finish_case(I, res)


def case_file_name(case):
    lang, nlen = case
    P = prog()
    I = new_interp(P)
    res = {"paths": 0, "violations": [], "case": list(case)}
    cs = [z3.BitVec("k%d" % i, 32) for i in range(nlen)]

    def entry(I):
        for c in cs:
            I.assume(z3.Or(z3.And(z3.UGE(c, 97), z3.ULE(c, 122)), c == 95))
        I.assume(cs[0] != 95)
        cn = Agg("language::CrateName", [RString(list(cs))])
        return I.call_static("parse::output_file_name", [lang_enum(I, lang), Ref([cn], 0)])

    for kind, out, pc in I.explore(entry, max_paths=2000):
        res["paths"] += 1
        if kind == "panic":
            res["violations"].append({"kind": "panic", "msg": out.msg}); continue
        got = out.chars
        m = I.sat_model(z3.BoolVal(True))
        # per path the case pattern of the name is fixed by the branch decisions: compare against the python oracle on a model,
        # then ask the solver whether any other assignment on this path disagrees with the same construction
        name = "".join(chr(m.eval(c, model_completion=True).as_long()) for c in cs)
        want = out_name(lang, name)
        gots = "".join(chr(x if isinstance(x, int) else m.eval(x, model_completion=True).as_long()) for x in got)
        if gots != want:
            res["violations"].append({"kind": "wrong-file-name", "crate": name, "got": gots, "want": want}); continue
        if lang != "swift":
            c = seq_eq(I, got, list(cs) + [ord(x) for x in "." + EXT[lang]])
            m2 = model_of(I, z3.Not(c) if not isinstance(c, bool) else (not c))
            if m2 is not None:
                name = "".join(chr(m2.eval(c, model_completion=True).as_long()) for c in cs)
                res["violations"].append({"kind": "wrong-file-name", "crate": name, "want": out_name(lang, name)})
    return finish_case(I, res)


def run(rep, tier, only=None):
    prog()
    t0 = time.time()
    forms = [f for f in FORMS if f not in ("same-name-both-imported", "same-name-two-modules", "same-name-two-modules-renamed", "reexport-two-candidates")]   # that one imports the name from two crates on purpose (C06 hash-ws)
    poss = list(POSITIONS)
    icases = []
    for lang in ("typescript", "kotlin"):
        for form in forms:
            for pos in poss:
                if tier == "quick" and not (pos in ("field", "generic-first-arg", "enum-struct", "alias") or form == "single"):
                    continue
                depth = "module" if (forms.index(form) + poss.index(pos)) % 3 else ("deep" if poss.index(pos) % 2 else "lib")
                if form in ("super-path",):
                    depth = "module"
                if form in ("self-path",):
                    depth = "lib"
                icases.append((lang, form, pos, depth))
    pcases = []
    for lang in LANGS:
        for form in ("single", "qualified", "serde-renamed", "crate-path", "same-name-c", "dash-crate", "glob-and-name"):
            for pos in (("field", "generic-first-arg", "enum-tuple", "alias") if tier == "thorough" else ("field", "enum-tuple")):
                pcases.append((lang, form, pos, "module"))
    shapes = [("ws", "<crate>", "src", "lib.rs"), ("<crate>", "src", "a", "b", "m.rs"), ("ws", "crates", "<crate>", "src", "x", "m.rs"), ("<crate>", "lib.rs"),
              ("src", "lib.rs"), ("ws", "<crate>", "tests", "t.rs"), ("my-ws", "<crate>", "src", "m.rs"), ("/", "<crate>", "src", "bin", "main.rs"),
              ("home", "src", "ws", "<crate>", "src", "lib.rs"), ("/", "usr", "local", "src", "<crate>", "src", "a", "m.rs"), ("<crate>", "src", "inner-x", "src", "y.rs")]
    ccases = [(s, n) for s in shapes for n in ((1, 2, 3) if tier == "quick" else (1, 2, 3, 4, 5))]
    fcases = [(l, n) for l in LANGS for n in ((1, 2, 3) if tier == "quick" else (1, 2, 3, 4))]
    rep.bounds = {"imports": "workspaces of 2-3 crates (user a, providers b / c / d-e); use forms %s; reference positions %s; user file at src/lib.rs, src/models/m.rs or src/x/y/z/m.rs; the foreign type's name is F + a symbolic char [a-z0-9]; TypeScript and Kotlin" % (forms, poss),
                  "partition": "the same workspaces with concrete names, six languages, folder mode vs single-file mode",
                  "find_crate_name": "path shapes %s with the crate directory's name symbolic over [a-z0-9_-], length 1..%d" % (shapes, 3 if tier == "quick" else 5),
                  "output_file_name": "crate names symbolic over [a-z_] (first char a letter), length 1..%d, six languages" % (3 if tier == "quick" else 4)}
    rep.outside = ["`use ... as ...` renames (the property's quantifier does not list them)", "5-crate workspaces (2-3 crates are executed)",
                   "Swift/Scala/Go/Python emit no imports: partition and file names only"]
    rep.assumptions = ["source files are parsed by the real syn (astdump) and the AST is handed to the visitor; the walker/collector deliver per-file results in path order"]
    groups = [("imports", "case_imports", icases), ("partition", "case_partition", pcases), ("find_crate_name", "case_crate_name", ccases), ("output_file_name", "case_file_name", fcases)]
    for gname, fn, cs in groups:
        if only and gname not in only:
            continue
        rep.harnesses[gname] = len(cs)
        confirmed = {}
        for st, case, r in pmap(("checks.c14", fn), cs):
            rep.obligations += 1
            if st != "ok":
                rep.inconc("%s %s: %s" % (gname, case, r)); continue
            account(rep, r); rep.discharged += 1
            if not r["violations"]:
                if len(rep.samples) < 10 and hash(str(case)) % 31 == 0:
                    rep.sample({"group": gname, "case": str(case), "paths": r["paths"], "verdict": "holds (unsat otherwise)"})
                continue
            for v in r["violations"]:
                if gname in ("imports", "partition"):
                    sig = {"group": gname, "kind": v["kind"], "lang": case[0], "form": case[1], "position": case[2]}
                else:
                    sig = {"group": gname, "kind": v["kind"]}
                ok, why, payload = native(gname, case, v)
                rep.validated += 1
                if ok:
                    rep.violation(sig, why, payload)
                elif ok is None:
                    rep.inconc("replay failed for %s %s: %s (%s)" % (gname, case, why, v))
                else:
                    rep.inconc("engine mismatch %s %s: %s; %s" % (gname, case, v, why))
    rep.extra["explore_s"] = round(time.time() - t0, 1)


# ---- native replay with the real binary -------------------------------------------------------------------------
_DRV = None


def drv():
    global _DRV
    if _DRV is None:
        from vlib.harness import CliDriver
        _DRV = CliDriver()
    return _DRV


def real_run(d, lang, files, name, multi, tag):
    import os, shutil
    src = os.path.join(d, "ws-" + tag)
    shutil.rmtree(src, ignore_errors=True)
    for crate, path, text in files:
        p = os.path.join(src, path)
        os.makedirs(os.path.dirname(p), exist_ok=True)
        open(p, "w").write(text.replace("PLACEN", name))
    open(os.path.join(src, "typeshare.toml"), "w").write('[typescript.type_mappings]\nMapped = "string"\n[kotlin]\npackage = "com.agilebits.onepassword"\n[kotlin.type_mappings]\nMapped = "String"\n'
                                                         '[swift.type_mappings]\nMapped = "String"\n[scala]\npackage = "com.agilebits.onepassword"\n[scala.type_mappings]\nMapped = "String"\n[go]\npackage = "proto"\n[go.type_mappings]\nMapped = "string"\n[python.type_mappings]\nMapped = "str"\n')
    out = os.path.join(d, "out-" + tag)
    shutil.rmtree(out, ignore_errors=True)
    os.makedirs(out)
    argv = [src, "--lang", lang, "-c", os.path.join(src, "typeshare.toml")] + (["-d", out] if multi else ["-o", os.path.join(out, "single." + EXT[lang])])
    rc, so, se = drv().cli(argv, d)
    r = {}
    for root, _, fs in os.walk(out):
        for f in fs:
            r[os.path.relpath(os.path.join(root, f), out)] = open(os.path.join(root, f)).read()
    return rc, r, se


def native(gname, case, v):
    import os, shutil, tempfile
    d = tempfile.mkdtemp(prefix="c14-")
    try:
        if gname == "imports":
            return native_imports(d, case, v)
        if gname == "partition":
            return native_partition(d, case, v)
        if gname == "find_crate_name":
            shape, nlen = case
            dn = v.get("dir") or v.get("n") or "x"
            comps = [dn if c == "<crate>" else c for c in shape if c != "/"]
            files = [("?", "/".join(comps), "#[typeshare]\npub struct Probe { pub a: u32 }\n")]
            rc, outs, se = real_run(d, "typescript", files, "Fx", True, "c")
            idx = [k for k, comp in enumerate(shape) if comp == "src"]
            want = (dn if shape[idx[-1] - 1] == "<crate>" else shape[idx[-1] - 1]).replace("-", "_") + ".ts" if idx and idx[-1] >= 1 else None
            payload = {"op": "find_crate_name", "shape": list(shape), "dir": dn}
            if (want is None and outs) or (want is not None and sorted(outs) != [want]):
                return True, "a typeshared file at %s is written to %s, expected %s" % ("/".join(comps), sorted(outs), want), payload
            return False, "real binary writes %s" % sorted(outs), None
        if gname == "output_file_name":
            lang, nlen = case
            crate = v.get("crate", "ab")
            files = [(crate, "%s/src/lib.rs" % crate, "#[typeshare]\npub struct Probe { pub a: u32 }\n")]
            rc, outs, se = real_run(d, lang, files, "Fx", True, "f")
            want = out_name(lang, crate)
            got = sorted(o for o in outs if o != "Codable.swift")
            if got != [want]:
                return True, "crate %s with --lang %s is written to %s, expected %s" % (crate, lang, got, want), {"op": "output_file_name", "lang": lang, "crate": crate}
            return False, "real binary writes %s" % got, None
        return None, "no replay for " + gname, None
    finally:
        shutil.rmtree(d, ignore_errors=True)


def real_imports(lang, text):
    sk = Skel([ord(c) for c in text])
    imps = ts_imports(sk) if lang == "typescript" else kt_imports(sk)
    return [(sk.str(s), mo) for s, mo in imps]


def native_imports(d, case, v):
    lang, form, pos, depth = case
    files, expect = workspace(form, pos, depth)
    name = "F" + (v.get("n") or "x")
    rc, outs, se = real_run(d, lang, files, name, True, "i")
    afile = out_name(lang, "a")
    payload = {"op": "imports", "lang": lang, "form": form, "position": pos, "depth": depth, "n": v.get("n") or "x", "kind": v["kind"]}
    if afile not in outs:
        return None, "real binary wrote %s (stderr %s)" % (sorted(outs), se[-300:]), None
    imps = real_imports(lang, outs[afile])
    where = "typeshare --lang %s -d: crate a (%s) with `%s` and a reference to %s at %s" % (lang, DEPTHS[depth], FORMS[form][0] or "no use", FORMS[form][1].replace("PLACEN", name), pos)
    kind = v["kind"]
    if kind == "missing-import":
        crate = expect[1]
        nm = name if expect[2] == "N" else expect[2]
        if (nm, crate) not in imps:
            return True, "%s: %s uses %s, defined in module %s, but imports only %s" % (where, afile, nm, out_name(lang, crate), imps), payload
        return False, "real output imports %s" % imps, None
    if kind in ("import-of-undefined-name", "import-from-unknown-module", "import-from-wrong-module", "unexpected-import"):
        bad = []
        for nm, mo in imps:
            mf = out_name(lang, mo)
            if mf not in outs:
                bad.append((nm, mo, "no such module"))
                continue
            sk = Skel([ord(c) for c in outs[mf]])
            if nm not in [sk.str(s) for s in DEFINED[lang](sk)]:
                bad.append((nm, mo, "not defined there"))
        if expect[0] == "none" and imps:
            bad = bad or [(nm, mo, "same-crate or mapped type imported") for nm, mo in imps]
        if expect[0] == "import":
            nm = name if expect[2] == "N" else expect[2]
            bad += [(n2, mo, "imported from the wrong module") for n2, mo in imps if n2 == nm and mo != expect[1]]
        if bad:
            return True, "%s: %s has imports %s" % (where, afile, bad), payload
        return False, "real output imports %s" % imps, None
    if kind == "reference-keeps-rust-name":
        rust_name = FORMS[form][1].split("::")[-1].split("<")[0]
        body = "\n".join(l for l in outs[afile].split("\n") if not HEADER.match(l) or rust_name in l and not l.lstrip().startswith(("import", "from", "//", "/*", "*")))
        hit = [l for l in body.split("\n") if re.search(r"(?<![\w])%s(?![\w])" % re.escape(rust_name), l)]
        if hit:
            return True, "%s: %s still refers to the foreign type by its Rust name `%s` (it is defined as `%s` in %s): `%s`" % (where, afile, rust_name, expect[2], out_name(lang, expect[1]), hit[0].strip()[:120]), payload
        return False, "real output does not mention %s" % rust_name, None
    return None, "no replay for kind " + kind, None


def native_partition(d, case, v):
    lang, form, pos, depth = case
    files, expect = workspace(form, pos, depth)
    rc, multi, se = real_run(d, lang, files, "Fx", True, "pm")
    rc2, single, se2 = real_run(d, lang, files, "Fx", False, "ps")
    payload = {"op": "partition", "lang": lang, "form": form, "position": pos, "depth": depth, "kind": v["kind"]}
    crates = sorted({c for c, _, _ in files})
    want_files = sorted(out_name(lang, c) for c in crates)
    got_files = sorted(f for f in multi if f != "Codable.swift")
    if got_files != want_files:
        return True, "typeshare --lang %s -d on crates %s writes %s, expected %s" % (lang, crates, got_files, want_files), payload
    probs = []
    want_home = {}
    for c, path, src in files:
        for rust_name, out_nm in declared(src):
            want_home.setdefault(out_nm, []).append(c)
    for c in crates:
        sk = Skel([ord(x) for x in multi[out_name(lang, c)]])
        for nm in [sk.str(s) for s in DEFINED[lang](sk)]:
            if nm in want_home and c not in want_home[nm]:
                probs.append("%s defined in module of crate %s, its source is in %s" % (nm, c, want_home[nm]))
    for nm, homes in want_home.items():
        for c in homes:
            sk = Skel([ord(x) for x in multi[out_name(lang, c)]])
            if nm not in [sk.str(s) for s in DEFINED[lang](sk)]:
                probs.append("%s missing from the module of crate %s" % (nm, c))
    if not form.startswith("same-name") and single:
        ml = sorted({ln for f in got_files for ln in def_lines(multi[f])})
        sl = def_lines(list(single.values())[0])
        if ml != sl:
            probs.append("definition lines differ from the single-file run: only in folder mode %s, only in single-file mode %s" % ([x for x in ml if x not in sl][:3], [x for x in sl if x not in ml][:3]))
    if probs:
        return True, "typeshare --lang %s -d (%s, %s): %s" % (lang, form, pos, probs[0]), payload
    return False, "real binary: partition, file names and definitions as expected", None


def replay(body):
    import shutil, tempfile
    c = body["case"]
    d = tempfile.mkdtemp(prefix="c14-")
    try:
        if c["op"] == "imports":
            ok, why, _ = native_imports(d, (c["lang"], c["form"], c["position"], c["depth"]), {"kind": c["kind"], "n": c["n"]})
        elif c["op"] == "partition":
            ok, why, _ = native_partition(d, (c["lang"], c["form"], c["position"], c["depth"]), {"kind": c["kind"]})
        elif c["op"] == "find_crate_name":
            ok, why, _ = native("find_crate_name", (tuple(c["shape"]), len(c["dir"])), {"dir": c["dir"]})
        else:
            ok, why, _ = native("output_file_name", (c["lang"], len(c["crate"])), {"crate": c["crate"]})
        print(why)
        return 1 if ok else 0
    finally:
        shutil.rmtree(d, ignore_errors=True)
