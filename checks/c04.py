"""C04 - a generated field is optional iff the Rust field is Option<T> or carries bare serde(default).

P half (parser, from MIR): `has_default` <=> a bare `default` word occurs in some serde(...) list - the word
and the attribute name are symbolic strings, arrangements enumerated; `ty` is Option(..) exactly when the
type, after erasing references and serde-transparent pointers, is Option<_>.
B half (six back ends, from MIR): a struct / struct-variant / newtype-variant / alias whose member has
type T, Option<T>, Option<Option<T>> and a symbolic `has_default` flag; the optional marker recovered
from the generated text must be present iff is_optional or has_default, and the type text with the
marker removed must equal format_type of the unwrapped type.
"""
import itertools
import time

import z3

from vlib.common import Inconclusive, seed
from vlib.harness import Replayer, pmap
from vlib.mirsym.engine import new_interp
from vlib.mirsym.selftest import parser_selftest, backend_selftest
from vlib.mirsym.ir import IR
from vlib.mirsym import bharness
from vlib.mirsym.values import *  # noqa
from vlib.mirsym.models_core import seq_eq
from vlib import extract
from checks.pcommon import prog, explore_source, account, finish_case

LANGS = ["typescript", "kotlin", "swift", "scala", "go", "python"]

# ------------------------------------------------------------------------------- P half
ARRANGEMENTS = {
    "alone": "#[serde(Qword)]",
    "first": '#[serde(Qword, rename = "x")]',
    "last": '#[serde(rename = "x", Qword)]',
    "middle": '#[serde(alias = "y", Qword, rename = "x")]',
    "second_attr": '#[serde(rename = "x")] #[serde(Qword)]',
    "after_doc": '#[doc = "d"] #[serde(Qword)]',
    "with_value": '#[serde(Qword = "path")]',
    "typeshare_attr": "#[typeshare(Qword)]",
    "other_attr_name": "#[Qattr(default)]",
    "skip_serializing_if": '#[serde(skip_serializing_if = "Option::is_none", Qword)]',
    "after_bare_word": "#[serde(skip_serializing, Qword)]",
    "before_bare_word": "#[serde(Qword, skip_serializing)]",
    "between_bare_words": '#[serde(skip_deserializing, rename = "x", Qword, skip_serializing)]',
    "second_attr_after_bare": "#[serde(skip_serializing)] #[serde(Qword)]",
}
TYPES_P = [("u32", False), ("Option<u32>", True), ("Option<Option<u32>>", True), ("Box<Option<u32>>", True), ("Option<Box<u32>>", True),
           ("&'static Option<String>", True), ("Arc<Option<Foo>>", True), ("Vec<Option<u32>>", False), ("std::option::Option<u32>", True),
           ("core::option::Option<u32>", True), ("::core::option::Option<String>", True), ("option::Option<u32>", True), ("alloc::boxed::Box<core::option::Option<u8>>", True),
           ("Cow<'static, Option<u8>>", True), ("HashMap<String, Option<u32>>", False), ("Mutex<RefCell<Option<T>>>", True), ("Foo<Option<u32>>", False)]


def case_p(case):
    arr, container, (tytext, is_opt) = case
    attr = ARRANGEMENTS[arr]
    if container == "struct":
        src = "#[typeshare]\npub struct S<T> { pub keep: T, %s pub f: %s }\n" % (attr, tytext)
    else:
        src = '#[typeshare]\n#[serde(tag = "t", content = "c")]\npub enum S<T> { Keep(T), V { keep: u32, %s f: %s } }\n' % (attr, tytext)
    res = {"paths": 0, "violations": [], "src": src}
    I = None

    def syms():
        if arr == "other_attr_name":
            return "Qattr", [z3.BitVec("w%d" % i, 32) for i in range(5)], "serde"
        return "Qword", [z3.BitVec("w%d" % i, 32) for i in range(7)], "default"

    def plant(I):
        key, cs, _ = syms()
        for c in cs:
            I.assume(z3.Or(z3.And(z3.UGE(c, 97), z3.ULE(c, 122)), c == 95))
        return {key: cs}
    for I, k, pd, pc in explore_source(src, plant):
        res["paths"] += 1
        key, cs, target = syms()
        hit = z3.And([c == ord(x) for c, x in zip(cs, target)])
        if arr in ("with_value", "typeshare_attr"):
            should = z3.BoolVal(False)
        else:
            should = hit
        if k == "panic":
            res["violations"].append({"kind": "panic", "msg": pd.msg}); continue
        L = I.prog.layout
        pdn = L.structs["ParsedData"]
        g = lambda n: pd.fields[pdn.index(n)]
        if pd is None or len(g("errors").items):
            # `flatten`/`skip` as the symbolic word legitimately change the outcome: only those two words may
            word_is = lambda w: z3.And([c == ord(x) for c, x in zip(cs, w)] + ([cs[len(w)] == 95] if False else []))
            m = I.sat_model()
            word = "".join(chr(m.eval(c, model_completion=True).as_long()) for c in cs)
            if not (word.startswith("flatten") or word.startswith("skip")):
                res["violations"].append({"kind": "unexpected-error", "word": word})
            continue
        if container == "struct":
            s = g("structs").items[0]
            fields = s.fields[L.structs["RustStruct"].index("fields")].items
        else:
            e = g("enums").items[0]
            sh = e.fields[L.enum_fields[("RustEnum", "Algebraic")].index("shared")]
            v = sh.fields[L.structs["RustEnumShared"].index("variants")].items[1]
            fields = v.fields[L.enum_fields[("RustEnumVariant", "AnonymousStruct")].index("fields")].items
        f = [x for x in fields if pystr(x.fields[L.structs["RustField"].index("id")].fields[0]) == "f"]
        if not f:
            m = I.sat_model()
            word = "".join(chr(m.eval(c, model_completion=True).as_long()) for c in cs)
            if word != "skip___"[:len(word)] and not (len(cs) == 7 and False):
                # the member may only disappear when the word is `skip`
                if not word.startswith("skip"):
                    res["violations"].append({"kind": "member-missing", "word": word})
            continue
        f = f[0]
        hd = f.fields[L.structs["RustField"].index("has_default")]
        ty = f.fields[L.structs["RustField"].index("ty")]
        got_opt = (L.enums["RustType"][ty.variant] == "Special" and L.enums["SpecialRustType"][ty.fields[0].variant] == "Option")
        bad = z3.Or((hd if is_sym(hd) else z3.BoolVal(bool(hd))) != should, z3.BoolVal(got_opt != is_opt))
        m = I.sat_model(bad)
        if m is not None:
            word = "".join(chr(m.eval(c, model_completion=True).as_long()) for c in cs)
            res["violations"].append({"kind": "has_default/is_optional", "word": word, "has_default": bool(hd) if not is_sym(hd) else str(m.eval(hd)), "is_optional": got_opt, "want_optional": is_opt})
    return finish_case(I, res) if I else res


# ------------------------------------------------------------------------------- B half
def base_types(ir):
    return {"u32": ir.special("U32"), "string": ir.special("String"), "bytes": ir.vec(ir.special("U8")), "map": ir.hashmap(ir.special("String"), ir.simple("Other")),
            "user": ir.simple("Other"), "generic": ir.simple("T"), "bool": ir.special("Bool"), "vec_user": ir.vec(ir.simple("Other")),
            "datetime": ir.special("DateTime")}


SHAPES = ["plain", "option", "double_option"]
CONTAINERS = ["struct", "struct_variant", "newtype_variant", "alias"]


def helper_struct_name(lang, enum_name, variant):
    return {"typescript": None}.get(lang, enum_name + variant + "Inner")


def case_b(case):
    lang, container, base, shape, cfgname = case
    P = prog()
    ir = IR(P.layout)
    I = new_interp(P)
    res = {"paths": 0, "violations": [], "case": list(case)}
    cfg = {"plain": {}, "no_pointer_slice": {"no_pointer_slice": True}, "prefix": {"prefix": "OP"}, "override": {}, "override_readonly": {}, "keyword_field": {},
           "py_bytes": {"type_mappings": {"Vec<u8>": "bytes"}}}[cfgname]
    overridden = cfgname.startswith("override")
    # (round n) a member whose Rust name is a keyword of target languages (Swift escapes it in the property, not in the initialiser)
    fname = "default" if cfgname == "keyword_field" else "f"

    def decorators():
        if not overridden:
            return None
        L = P.layout
        lv = {"typescript": "TypeScript", "kotlin": "Kotlin", "swift": "Swift", "scala": "Scala", "go": "Go", "python": "Python"}[lang]
        key = EnumV("language::SupportedLanguage", L.enums["SupportedLanguage"].index(lv), [])
        decs = [[L.make_adt("rust_types::FieldDecorator::NameValue", [S("type"), S("Ovr")], None), UNIT]]
        if cfgname == "override_readonly":
            decs.insert(0, [L.make_adt("rust_types::FieldDecorator::Word", [S("readonly")], None), UNIT])
        return RMap("HashMap", [[key, RMap("BTreeSet", decs)]])

    def mk(I):
        inner = base_types(ir)[base]
        ty = inner
        if shape in ("option", "double_option"):
            ty = ir.option(ty)
        if shape == "double_option":
            ty = ir.option(ty)
        return inner, ty

    def entry(I):
        hd = z3.Bool("hd")
        inner, ty = mk(I)
        lg = bharness.make_lang(I, lang, cfg)
        generics = ["T"] if base == "generic" else []
        if container == "struct":
            pd = ir.parsed_data(structs=[ir.struct("S", [ir.field("keep", ir.special("Bool")), ir.field(fname, ty, has_default=hd, decorators=decorators())], generics=generics)])
        elif container == "struct_variant":
            pd = ir.parsed_data(enums=[ir.enum_alg("E", [ir.v_unit("U"), ir.v_anon("V", [ir.field("keep", ir.special("Bool")), ir.field(fname, ty, has_default=hd, decorators=decorators())])], generics=generics)])
        elif container == "newtype_variant":
            pd = ir.parsed_data(enums=[ir.enum_alg("E", [ir.v_unit("U"), ir.v_tuple("V", ty)], generics=generics)])
        else:
            pd = ir.parsed_data(aliases=[ir.alias("A", ty, generics=generics)])
        ok, w, _ = bharness.generate(I, lang, pd, lang_value=lg)
        # the translated type of the unwrapped member, by the same back end
        unwrapped = ir.option(inner) if shape == "double_option" else inner
        ft = bharness.format_type(I, lang, lg, unwrapped, generics)
        ft_full = bharness.format_type(I, lang, lg, ty, generics)
        return hd, ok, w, ft, ft_full

    for kind, out, pc in I.explore(entry, max_paths=2000):
        res["paths"] += 1
        if kind == "panic":
            res["violations"].append({"kind": "panic", "msg": out.msg}); continue
        hd, ok, w, ft, ft_full = out
        if not ok or ft.variant != 0:
            res["violations"].append({"kind": "io-error"}); continue
        sk = extract.Skel(w.chars)
        want_type = pystr(ft.fields[0])
        full_type = pystr(ft_full.fields[0])
        is_opt = shape != "plain"
        m = I.sat_model()
        hdv = z3.is_true(m.eval(hd, model_completion=True))
        # does this path depend on hd at all?  (containers without a has_default notion never branch on it)
        if container in ("struct", "struct_variant"):
            name = "S" if container == "struct" else None
            fields = None
            pre = cfg.get("prefix", "") if lang in ("swift", "kotlin") else ""
            if container == "struct":
                fields = extract.struct_fields(lang, sk, pre + "S")
            else:
                for cand in (pre + "EVInner", "EVInner", "V"):
                    fields = extract.struct_fields(lang, sk, cand)
                    if fields:
                        break
                if not fields and lang == "typescript":
                    fields = ts_variant_fields(sk)
            if not fields:
                res.setdefault("inconclusive", []).append("could not extract the member list from: %r" % sk.text[:300]); continue
            f = [x for x in fields if sk.str(x.ident) in (fname, fname.capitalize())]
            if not f:
                res["violations"].append({"kind": "member-missing", "text": sk.text[:400]}); continue
            f = f[0]
            want_marker = is_opt or hdv
            got_marker = f.optional or (lang == "go" and f.omitempty)
            tt = sk.str(f.type)
            problems = []
            if got_marker != want_marker:
                problems.append("marker %s, expected %s" % (got_marker, want_marker))
            if lang == "swift":
                # the initialiser takes the member with the same optional marker as the property ("? suffix in property and init")
                import re as _re
                inits = [mm.group(1) for mm in _re.finditer(r"^\tpublic init\(([^\n]*)\) \{$", sk.text, _re.M)]
                pars = [q for ps in inits for q in _re.split(r", (?=`?\w+`?: )", ps) if _re.match(r"`?%s`?: " % fname, q)]
                if not pars:
                    problems.append("no initialiser parameter for the member")
                for q in pars:
                    if q.endswith("?") != want_marker:
                        problems.append("initialiser parameter `%s`, expected marker %s" % (q, want_marker))
                        res.setdefault("init_param", q)
            if lang == "go":
                if f.omitempty != want_marker:
                    problems.append("omitempty %s" % f.omitempty)
            if lang == "typescript" and f.null_union != (shape == "double_option"):
                problems.append("`| null` %s" % f.null_union)
            if lang in ("kotlin", "python") and want_marker and f.default is None:
                problems.append("optional without a default value")
            if lang == "scala" and ((f.default == "None") != want_marker):
                problems.append("default %r" % f.default)
            exp_t = want_type
            if lang == "typescript" and shape == "double_option":
                exp_t = pystr(bharness.format_type(I, lang, bharness.make_lang(I, lang, cfg), mk(I)[0], ["T"] if base == "generic" else []).fields[0])
            if overridden:
                if "Ovr" not in tt:
                    problems.append("type override `Ovr` not used: %r" % tt)
            elif tt != exp_t and not (lang == "go" and tt == exp_t.lstrip("*")):
                problems.append("type text %r, format_type gives %r" % (tt, exp_t))
            if problems:
                res["violations"].append({"kind": "field", "has_default": hdv, "problems": problems, "line": f.raw, "init_param": res.pop("init_param", None)})
        else:
            # newtype payload / alias: the full translated type must occur; optional payloads must carry the marker of format_type
            if full_type not in sk.text:
                res["violations"].append({"kind": "payload", "want": full_type, "text": sk.text[:300]})
    return finish_case(I, res)


def ts_variant_fields(sk):
    import re
    t = sk.text
    m = re.search(r'\| \{ type: "V", content: \{\n', t)
    if not m:
        return None
    e = t.index("}", m.end())
    out = []
    for ls, le in extract.lines_in(t, (m.end(), e)):
        line = t[ls:le]
        mm = re.match(r'^\t(?:"([^"\n]*)"|([^\s:?"]+))(\?)?: (.*);$', line)
        if not mm:
            continue
        f = extract.Field(raw=line)
        g = 1 if mm.group(1) is not None else 2
        f.ident = (ls + mm.start(g), ls + mm.end(g))
        f.optional = mm.group(3) is not None
        ts, te = ls + mm.start(4), ls + mm.end(4)
        if mm.group(4).endswith(" | null"):
            f.null_union = True
            te -= len(" | null")
        f.type = (ts, te)
        out.append(f)
    return out


def render_b(case, hd):
    lang, container, base, shape, cfgname = case
    t = {"u32": "u32", "string": "String", "bytes": "Vec<u8>", "map": "HashMap<String, Other>", "user": "Other", "generic": "T", "bool": "bool", "vec_user": "Vec<Other>", "datetime": "OffsetDateTime"}[base]
    if shape != "plain":
        t = "Option<%s>" % t
    if shape == "double_option":
        t = "Option<%s>" % t
    g = "<T>" if base == "generic" else ""
    d = "#[serde(default)] " if hd else ""
    if cfgname.startswith("override"):
        d += '#[typeshare(%s(%stype = "Ovr"))] ' % (lang, "readonly, " if cfgname == "override_readonly" else "")
    other = "#[typeshare]\npub struct Other { pub x: u32 }\n"
    fn = "default" if cfgname == "keyword_field" else "f"
    if container == "struct":
        return other + "#[typeshare]\npub struct S%s { pub keep: bool, %spub %s: %s }\n" % (g, d, fn, t)
    if container == "struct_variant":
        return other + '#[typeshare]\n#[serde(tag = "type", content = "content")]\npub enum E%s { U, V { keep: bool, %s%s: %s } }\n' % (g, d, fn, t)
    if container == "newtype_variant":
        return other + '#[typeshare]\n#[serde(tag = "type", content = "content")]\npub enum E%s { U, V(%s) }\n' % (g, t)
    return other + "#[typeshare]\npub type A%s = %s;\n" % (g, t)


def run(rep, tier, only=None):
    P = prog()
    nat = Replayer()
    t0 = time.time()
    rep.validated += parser_selftest(P, nat)
    rep.validated += backend_selftest(P, nat, limit=None if tier == "thorough" else 12, configs=False)
    sd = seed()
    p_cases = [(a, c, t) for a in ARRANGEMENTS for c in ("struct", "struct_variant") for t in (TYPES_P if tier == "thorough" else TYPES_P[:3] + [TYPES_P[(sd + k) % len(TYPES_P)] for k in range(3)])]
    p_cases += [("alone", "struct", t) for t in TYPES_P]
    bases = ["u32", "string", "bytes", "map", "user", "generic", "bool", "vec_user"]
    b_cases = []
    for lang in LANGS:
        for cont in CONTAINERS:
            for base in bases:
                for shape in SHAPES:
                    b_cases.append((lang, cont, base, shape, "plain"))
        for base in ("bytes", "vec_user", "u32"):
            for shape in SHAPES:
                if lang == "go":
                    b_cases.append((lang, "struct", base, shape, "no_pointer_slice"))
                if lang in ("swift", "kotlin"):
                    b_cases.append((lang, "struct", "user", shape, "prefix"))
        for shape in SHAPES:
            for cont in ("struct", "struct_variant"):
                b_cases.append((lang, cont, "bool", shape, "keyword_field"))
        if lang == "python":
            # types with a custom (de)serialiser: the Optional marker lives inside Annotated[..]
            for shape in SHAPES:
                for cont in ("struct", "struct_variant"):
                    b_cases.append((lang, cont, "datetime", shape, "plain"))
                    b_cases.append((lang, cont, "bytes", shape, "py_bytes"))
        if lang != "python":
            for shape in SHAPES:
                for cont in ("struct", "struct_variant"):
                    b_cases.append((lang, cont, "string", shape, "override"))
            if lang == "typescript":
                b_cases += [(lang, "struct", "string", shape, "override_readonly") for shape in SHAPES]
    rep.bounds = {"parser": "the word `default` (7 symbolic chars) and the attribute name (5 symbolic chars) in %d attribute arrangements x struct / struct variant x %d type shapes" % (len(ARRANGEMENTS), len(TYPES_P)),
                  "back ends": "6 languages x {struct, struct variant, newtype variant, alias} x 8 base types x {T, Option<T>, Option<Option<T>>} x symbolic has_default; plus Go no_pointer_slice, Swift/Kotlin prefix and per-language type overrides on the field; a member named `default` (keyword of Swift / Go); Swift: the initialiser parameter carries the same marker as the property"}
    rep.outside = ["serde(default = \"path\") (documented as not making the field optional)", "the text of a decorator-driven type override (only the optional marker of an overridden field is checked)"]
    rep.assumptions = ["the translated type of the unwrapped member is taken from the same back end's format_type (consistency oracle); the marker rule is independent"]
    reported = set()
    if not only or "p" in only:
        for st, case, r in pmap(("checks.c04", "case_p"), p_cases):
            rep.obligations += 1
            if st != "ok":
                rep.inconc("P %s: %s" % (case, r)); continue
            account(rep, r); rep.discharged += 1
            if not r["violations"]:
                if len(rep.samples) < 5:
                    rep.sample({"half": "parser", "arrangement": ARRANGEMENTS[case[0]], "type": case[2][0], "paths": r["paths"], "verdict": "has_default <=> word == `default`; Option detected exactly"})
                continue
            v = r["violations"][0]
            src = r["src"].replace("Qword", v.get("word", "default")).replace("Qattr", v.get("word", "serde"))
            real = nat.ask({"op": "parse", "source": src})
            rep.validated += 1
            sig = {"half": "parser", "kind": v["kind"], "arrangement": case[0], "container": case[1]}
            ok = None
            try:
                d = real["ok"]
                if case[1] == "struct":
                    ff = [x for x in d["structs"][0]["fields"] if x["id"]["original"] == "f"][0]
                else:
                    e = d["enums"][0]
                    ff = [x for x in e["shared"]["variants"][1]["fields"] if x["id"]["original"] == "f"][0]
                real_hd = ff["has_default"]
                real_opt = ff["ty"]["$"] == "RustType::Special" and ff["ty"]["0"]["$"] == "SpecialRustType::Option"
                want_hd = (v.get("word") in ("default", "serde")) and case[0] not in ("with_value", "typeshare_attr")
                ok = (real_hd != want_hd) or (real_opt != case[2][1])
                desc = "`%s`: has_default=%s (expected %s), Option detected=%s (expected %s)" % (src.strip().replace("\n", " "), real_hd, want_hd, real_opt, case[2][1])
            except Exception as e:  # noqa
                desc = "`%s`: %s" % (src.strip().replace("\n", " "), str(real)[:200])
                ok = v["kind"] in ("panic", "unexpected-error", "member-missing")
            if ok:
                rep.violation(sig, desc, {"source": src, "half": "parser"})
            else:
                rep.inconc("engine mismatch (parser half) %s: %s vs %s" % (case, v, desc))
        rep.harnesses["parser cases"] = len(p_cases)
    if not only or "b" in only:
        for st, case, r in pmap(("checks.c04", "case_b"), b_cases):
            rep.obligations += 1
            if st != "ok":
                rep.inconc("B %s: %s" % (case, r)); continue
            account(rep, r); rep.discharged += 1
            for msg in r.get("inconclusive", [])[:1]:
                rep.inconc("B %s: %s" % (case, msg))
            if not r["violations"]:
                if len(rep.samples) < 12 and case[1] == "struct" and case[3] == "option":
                    rep.sample({"half": "back end", "lang": case[0], "member": "%s %s in %s" % (case[3], case[2], case[1]), "paths": r["paths"], "verdict": "marker <=> Option or has_default on every path"})
                continue
            for v in r["violations"][:2]:
                sig = {"half": "backend", "lang": case[0], "container": case[1], "kind": v["kind"], "shape": case[3],
                       "has_default": v.get("has_default"), "problem": (v.get("problems") or [""])[0].split(",")[0][:40], "config": case[4]}
                key = (case[0], case[1], v["kind"], case[3], v.get("has_default"), sig["problem"])
                if key in reported:
                    continue
                # native replay through the real library on the rendered source
                src = render_b(case, bool(v.get("has_default")))
                cfg = dict(bharness.DEFAULT_CFG.get(case[0], {}))
                cfg.update({"plain": {}, "no_pointer_slice": {"no_pointer_slice": True}, "prefix": {"prefix": "OP"}, "py_bytes": {"type_mappings": {"Vec<u8>": "bytes"}}}.get(case[4], {}))
                real = nat.ask({"op": "generate", "lang": case[0], "files": [{"source": src}], "config": cfg})
                rep.validated += 1
                line = v.get("line")
                import re as _re
                init_ok = v.get("init_param") is None or _re.search(r"public init\([^\n]*%s(?:, |\))" % _re.escape(v["init_param"]), real.get("out", {}).get("", "")) is not None
                if "out" in real and (line is None or line in real["out"].get("", "")) and init_ok:
                    reported.add(key)
                    rep.violation(sig, "%s %s member `%s %s`%s: %s -> %s" % (case[0], case[1], case[3], case[2], " with serde(default)" if v.get("has_default") else "",
                                                                      "; ".join(v.get("problems", [v["kind"]])), (line or "").strip()),
                                  {"source": src, "lang": case[0], "config": cfg, "line": line, "half": "backend", "init_param": v.get("init_param")})
                elif "out" not in real:
                    reported.add(key)
                    rep.violation(dict(sig, native="no-output"), "%s: real library fails on `%s`: %s" % (case[0], src.replace("\n", " "), str(real)[:200]), {"source": src, "lang": case[0], "config": cfg, "half": "backend"})
                else:
                    rep.inconc("engine mismatch (back end) %s: line %r not in real output" % (case, line))
        rep.harnesses["back-end cases"] = len(b_cases)
    nat.close()
    rep.extra["explore_s"] = round(time.time() - t0, 1)


def replay(case):
    c = case["case"]
    rep = Replayer()
    if c.get("half") == "parser":
        r = rep.ask({"op": "parse", "source": c["source"]})
        print(str(r)[:600])
        rep.close()
        return 1
    r = rep.ask({"op": "generate", "lang": c["lang"], "files": [{"source": c["source"]}], "config": c.get("config", {})})
    rep.close()
    out = r.get("out", {}).get("", "")
    print(out[:800] if out else r)
    import re as _re
    if c.get("init_param") and not _re.search(r"public init\([^\n]*%s(?:, |\))" % _re.escape(c["init_param"]), out):
        return 0
    return 1 if (c.get("line") is None or c["line"] in out) else 0
