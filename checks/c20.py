"""C20 - CLI options override typeshare.toml; generated config files never overwrite an existing file.

Engine M on the MIR of typeshare-cli (--features go,python): `override_configuration`, `language()`,
`config::store_config` (file-system model, OpenOptions::create_new) and `config::find_configuration_file`
(symbolic presence of typeshare.toml in every ancestor directory).  For each option that exists on the
command line and in the file the CLI value is present or absent (both explored), and CLI and file values
are symbolic strings of symbolic length 0..2; the effective value used for generation must be the CLI
value when given, else the file value; file-only tables must reach the back-end struct unchanged.
"""
import itertools
import time

import z3

from vlib.common import Inconclusive, seed
from vlib.harness import pmap
from vlib.mirsym.engine import load_program, new_interp
from vlib.mirsym.models_fs import Fs, AnyErr
from vlib.mirsym.models_misc import RPath
from vlib.mirsym.models_core import seq_eq
from vlib.mirsym.values import *  # noqa
from checks.pcommon import account, finish_case

_PROG = None
# option on the command line -> (section, field) in the file, and the back-end struct field it must end up in
OPTIONS = [("swift_prefix", "swift", "prefix", "Swift", "prefix"), ("kotlin_prefix", "kotlin", "prefix", "Kotlin", "prefix"),
           ("java_package", "kotlin", "package", "Kotlin", "package"), ("kotlin_module_name", "kotlin", "module_name", "Kotlin", "module_name"),
           ("scala_package", "scala", "package", "Scala", "package"), ("scala_module_name", "scala", "module_name", "Scala", "module_name"),
           ("go_package", "go", "package", "Go", "package")]
LANG_OF = {"Swift": "Swift", "Kotlin": "Kotlin", "Scala": "Scala", "Go": "Go", "TypeScript": "Typescript", "Python": "Python"}
PARAMS = {"swift": "SwiftParams", "kotlin": "KotlinParams", "scala": "ScalaParams", "go": "GoParams", "typescript": "TypeScriptParams", "python": "PythonParams"}


def prog():
    global _PROG
    if _PROG is None:
        _PROG = load_program(("core", "cli"))
    return _PROG


def sym_str(I, name, n):
    cs = [z3.BitVec("%s%d" % (name, i), 32) for i in range(n)]
    for c in cs:
        I.assume(z3.Or(z3.And(z3.UGE(c, 97), z3.ULE(c, 122)), z3.And(z3.UGE(c, 65), z3.ULE(c, 90)), c == 46))
    return cs


def mk_config(I, L, file_vals, tables):
    cfg = I.call_static("<config::Config as std::default::Default>::default", [])
    cn = L.structs["Config"]
    for sec, fld, chars in file_vals:
        p = cfg.fields[cn.index(sec)]
        p.fields[L.structs[PARAMS[sec]].index(fld)] = RString(list(chars))
    for sec, fld, val in tables:
        p = cfg.fields[cn.index(sec)]
        p.fields[L.structs[PARAMS[sec]].index(fld)] = val
    return cfg


def mk_args(I, L, cli_vals, lang, target_os=None):
    an = L.structs["Args"]
    vals = {n: NONE() for n in an}
    vals["language"] = SOME(EnumV("args::AvailableLanguage", L.enums["AvailableLanguage"].index(lang), [])) if lang else NONE()
    out = L.make_adt("args::Output", [SOME(RPath(S("out.x"))), NONE(), False], ["file", "folder", "generate_config"])
    vals["output"] = out
    vals["follow_links"] = False
    vals["directories"] = RVec([RPath(S("src"))])
    vals["target_os"] = SOME(RVec([S(t) for t in target_os])) if target_os is not None else NONE()
    for opt, chars in cli_vals.items():
        vals[opt] = SOME(RString(list(chars))) if chars is not None else NONE()
    return L.make_adt("args::Args", [vals[n] for n in an], list(an))


def case_override(case):
    lang, present, cli_len, file_len = case
    P = prog()
    L = P.layout
    I = new_interp(P)
    res = {"paths": 0, "violations": [], "case": [lang, list(present), cli_len, file_len]}

    def syms():
        cli = {o[0]: sym_syms("c" + str(k), cli_len) for k, o in enumerate(OPTIONS)}
        fil = {o[0]: sym_syms("f" + str(k), file_len) for k, o in enumerate(OPTIONS)}
        return cli, fil

    def sym_syms(name, n):
        return [z3.BitVec("%s_%d" % (name, i), 32) for i in range(n)]

    def entry(I):
        cli, fil = syms()
        for d in (cli, fil):
            for cs in d.values():
                for c in cs:
                    I.assume(z3.Or(z3.And(z3.UGE(c, 97), z3.ULE(c, 122)), z3.And(z3.UGE(c, 65), z3.ULE(c, 90)), c == 46))
        tm = RMap("HashMap", [[S("Url"), S("string")]])
        decs = RVec([S("Equatable")])
        acr = RVec([S("ID")])
        tables = [("swift", "type_mappings", tm), ("swift", "default_decorators", decs), ("kotlin", "type_mappings", RMap("HashMap", [[S("A"), S("B")]])),
                  ("go", "uppercase_acronyms", acr), ("go", "no_pointer_slice", True), ("typescript", "type_mappings", RMap("HashMap", [[S("D"), S("Date")]]))]
        cfg = mk_config(I, L, [(o[1], o[2], fil[o[0]]) for o in OPTIONS], tables)
        args = mk_args(I, L, {o[0]: (cli[o[0]] if p else None) for o, p in zip(OPTIONS, present)}, lang, target_os=["ios"])
        r = I.call_static("override_configuration", [cfg, Ref([args], 0)])
        if r.variant != 0:
            return ("err", r.fields[0], None)
        newcfg = r.fields[0]
        # language(): the back-end value built from the effective configuration
        sl = EnumV("typeshare_core::language::SupportedLanguage", L.enums["SupportedLanguage"].index({"Typescript": "TypeScript"}.get(lang, lang)), [])
        from vlib.mirsym.models_core import clone_val
        lg = I.call_static("language", [sl, clone_val(I, newcfg), False])
        return ("ok", newcfg, lg)

    for kind, out, pc in I.explore(entry, max_paths=500):
        res["paths"] += 1
        cli, fil = syms()
        if kind == "panic":
            res["violations"].append({"kind": "panic", "msg": out.msg}); continue
        st, newcfg, lg = out
        go_idx = [k for k, o in enumerate(OPTIONS) if o[0] == "go_package"][0]
        eff_go = cli["go_package"] if present[go_idx] else fil["go_package"]
        if st == "err":
            # only allowed: --lang go with an empty effective go package
            if not (lang == "Go" and len(eff_go) == 0):
                res["violations"].append({"kind": "unexpected-error", "msg": repr(newcfg)})
            continue
        if lang == "Go" and len(eff_go) == 0:
            res["violations"].append({"kind": "missing-go-package-not-reported"}); continue
        cn = L.structs["Config"]
        conds = []
        names = []
        for (opt, sec, fld, bk, bfld), p in zip(OPTIONS, present):
            want = cli[opt] if p else fil[opt]
            got = newcfg.fields[cn.index(sec)].fields[L.structs[PARAMS[sec]].index(fld)].chars
            conds.append(seq_eq(I, got, list(want)))
            names.append("%s.%s" % (sec, fld))
        # file-only tables are untouched
        tm = newcfg.fields[cn.index("swift")].fields[L.structs["SwiftParams"].index("type_mappings")]
        if [pystr(e[0]) for e in tm.entries] != ["Url"]:
            res["violations"].append({"kind": "table-changed", "what": "swift.type_mappings"})
        tos = newcfg.fields[cn.index("target_os")]
        if [pystr(x) for x in tos.items] != ["ios"]:
            res["violations"].append({"kind": "target-os", "got": [pystr(x) for x in tos.items]})
        # back-end struct
        lgv = unbox(lg)
        lt = lgv.ty.split("::")[-1]
        for (opt, sec, fld, bk, bfld), p in zip(OPTIONS, present):
            if bk != lt or "%s{%s}" % (bk, bfld) not in VISIBLE:
                continue   # module_name reaches no generated text: unobservable, not part of the claim
            want = cli[opt] if p else fil[opt]
            got = lgv.fields[L.structs[bk].index(bfld)].chars
            conds.append(seq_eq(I, got, list(want)))
            names.append("%s{%s}" % (bk, bfld))
        if lt == "Swift":
            if [pystr(e[0]) for e in lgv.fields[L.structs["Swift"].index("type_mappings")].entries] != ["Url"] or [pystr(x) for x in lgv.fields[L.structs["Swift"].index("default_decorators")].items] != ["Equatable"]:
                res["violations"].append({"kind": "table-changed", "what": "Swift back-end tables"})
        if lt == "Go":
            if [pystr(x) for x in lgv.fields[L.structs["Go"].index("uppercase_acronyms")].items] != ["ID"] or lgv.fields[L.structs["Go"].index("no_pointer_slice")] is not True:
                res["violations"].append({"kind": "table-changed", "what": "Go back-end tables"})
        for nm, c in zip(names, conds):
            bad = z3.BoolVal(not c) if isinstance(c, bool) else z3.Not(c)
            m = I.sat_model(bad)
            if m is not None:
                ev = lambda cs: "".join(chr(x if isinstance(x, int) else m.eval(x, model_completion=True).as_long()) for x in cs)
                res["violations"].append({"kind": "wrong-effective-value", "setting": nm, "cli": {o: ev(v) for o, v in cli.items()}, "file": {o: ev(v) for o, v in fil.items()}})
                break
    return finish_case(I, res)


TABLES = {  # language struct -> [(config section, config field, back-end field)]
    "Swift": [("swift", "type_mappings", "type_mappings"), ("swift", "default_decorators", "default_decorators"), ("swift", "codablevoid_constraints", "codablevoid_constraints"),
              ("swift", "default_generic_constraints", "default_generic_constraints")],
    "Kotlin": [("kotlin", "type_mappings", "type_mappings")],
    "Scala": [("scala", "type_mappings", "type_mappings")],
    "TypeScript": [("typescript", "type_mappings", "type_mappings")],
    "Go": [("go", "type_mappings", "type_mappings"), ("go", "uppercase_acronyms", "uppercase_acronyms"), ("go", "no_pointer_slice", "no_pointer_slice")],
    "Python": [("python", "type_mappings", "type_mappings")],
}


def case_tables(case):
    """file-only settings reach the back-end value of their own language unchanged (symbolic table contents)"""
    lang, multi, flag = case
    from checks.c06 import eqf
    from vlib.mirsym.models_core import clone_val
    P = prog()
    L = P.layout
    I = new_interp(P)
    res = {"paths": 0, "violations": [], "case": list(case)}
    secs = ["swift", "kotlin", "scala", "typescript", "go", "python"]

    def entry(I):
        vals = {}
        tables = []
        for k, sec in enumerate(secs):
            a, b = z3.BitVec("k_%s" % sec, 32), z3.BitVec("v_%s" % sec, 32)
            for c in (a, b):
                I.assume(z3.And(z3.UGE(c, 65), z3.ULE(c, 90)))
            tm = RMap("HashMap", [[RString([ord("K"), a]), RString([ord("V"), b])]])
            tables.append((sec, "type_mappings", tm))
        d1, d2, d3, d4 = [z3.BitVec("d%d" % i, 32) for i in range(4)]
        for c in (d1, d2, d3, d4):
            I.assume(z3.And(z3.UGE(c, 65), z3.ULE(c, 90)))
        tables += [("swift", "default_decorators", RVec([RString([ord("D"), d1]), S("Equatable")])),
                   ("swift", "codablevoid_constraints", RVec([RString([ord("C"), d2])])),
                   ("swift", "default_generic_constraints", RVec([RString([ord("G"), d3]), S("Sendable")])),
                   ("go", "uppercase_acronyms", RVec([RString([ord("A"), d4]), S("ID")])),
                   ("go", "no_pointer_slice", flag)]
        cfg = mk_config(I, L, [], tables)
        snapshot = clone_val(I, cfg)
        sl = EnumV("typeshare_core::language::SupportedLanguage", L.enums["SupportedLanguage"].index(lang), [])
        lg = I.call_static("language", [sl, cfg, multi])
        want_gc = I.call_static("language::GenericConstraints::from_config", [clone_val(I, snapshot.fields[L.structs["Config"].index("swift")].fields[L.structs["SwiftParams"].index("default_generic_constraints")])])
        return snapshot, lg, want_gc

    for kind, out, pc in I.explore(entry, max_paths=100):
        res["paths"] += 1
        if kind == "panic":
            res["violations"].append({"kind": "panic", "msg": out.msg}); continue
        cfg, lg, want_gc = out
        lgv = unbox(lg)
        lt = lgv.ty.split("::")[-1]
        if lt != lang:
            res["violations"].append({"kind": "wrong-back-end", "got": lt}); continue
        cn = L.structs["Config"]
        for sec, fld, bfld in TABLES[lang]:
            have = lgv.fields[L.structs[lang].index(bfld)]
            want = cfg.fields[cn.index(sec)].fields[L.structs[PARAMS[sec]].index(fld)]
            if fld == "default_generic_constraints":
                want = want_gc
            e = eqf(have, want)
            m = None
            if e is False:
                m = I.sat_model(z3.BoolVal(True))
            elif e is not True:
                m = I.sat_model(z3.Not(e))
            if m is not None:
                res["violations"].append({"kind": "file-only-setting-changed", "setting": "%s.%s" % (sec, fld), "lang": lang})
        if lang == "Swift" and lgv.fields[L.structs["Swift"].index("multi_file")] is not multi:
            res["violations"].append({"kind": "file-only-setting-changed", "setting": "multi_file", "lang": lang})
    return finish_case(I, res)


def case_store(case):
    exists, given = case
    P = prog()
    L = P.layout
    I = new_interp(P)
    res = {"paths": 0, "violations": [], "case": list(case)}

    def entry(I):
        fs = Fs()
        fs.add_dir("/work")
        I.env["fs"] = fs
        I.env["cwd"] = "/work"
        path = "/work/my.toml" if given else "typeshare.toml"
        if exists:
            fs.add_file(path, [ord(c) for c in "old"], mtime=0)
        cfg = I.call_static("<config::Config as std::default::Default>::default", [])
        arg = SOME(RPath(S(path))) if given else NONE()
        r = I.call_static("config::store_config", [Ref([cfg], 0), arg])
        return r.variant, fs, path

    for kind, out, pc in I.explore(entry, max_paths=50):
        res["paths"] += 1
        if kind == "panic":
            res["violations"].append({"kind": "panic", "msg": out.msg}); continue
        rv, fs, path = out
        node = fs.nodes.get(path)
        if exists:
            if rv == 0 or node is None or "".join(chr(c) for c in node.data) != "old" or any(op in ("write", "create", "truncate") and p == path for op, p in fs.log):
                res["violations"].append({"kind": "existing-config-overwritten", "log": fs.log, "result": rv})
        else:
            if rv != 0 or node is None or not node.data:
                res["violations"].append({"kind": "config-not-written", "log": fs.log, "result": rv})
    return finish_case(I, res)


def case_load(case):
    """config::load_config: an explicit -c path always wins over the ancestor search; without -c the nearest typeshare.toml is
    loaded, else the defaults.  toml::from_str is a stub that tags the returned Config with the file's text."""
    depth, explicit = case
    P = prog()
    L = P.layout
    I = new_interp(P)
    res = {"paths": 0, "violations": [], "case": list(case)}
    dirs = ["/" + "/".join("d%d" % i for i in range(1, k + 1)) for k in range(0, depth + 1)]
    dirs[0] = "/"

    def entry(I):
        fs = Fs()
        for d in dirs:
            fs.add_dir(d)
        fs.add_dir("/cfg")
        pres = [z3.Bool("p%d" % k) for k in range(len(dirs))]
        fs.symbolic_files = {}
        for k, d in enumerate(dirs):
            path = d.rstrip("/") + "/typeshare.toml"
            fs.symbolic_files[path] = pres[k]
            fs.symbolic_content[path] = [ord(c) for c in "L%d" % k]
        fs.add_file("/cfg/explicit.toml", [ord(c) for c in "EX"])
        I.env["fs"] = fs
        I.env["cwd"] = dirs[-1]

        def from_str(I, text):
            cfg = I.call_static("<config::Config as std::default::Default>::default", [])
            cfg.fields[L.structs["Config"].index("swift")].fields[L.structs["SwiftParams"].index("prefix")] = RString(list(unbox(text).chars))
            return OK(cfg)
        I.env["toml_from_str"] = from_str
        arg = SOME(Ref([RPath(S("/cfg/explicit.toml"))], 0)) if explicit else NONE()
        r = I.call_static("config::load_config", [arg])
        return pres, r

    for kind, out, pc in I.explore(entry, max_paths=200):
        res["paths"] += 1
        if kind == "panic":
            res["violations"].append({"kind": "panic", "msg": out.msg}); continue
        pres, r = out
        if r.variant != 0:
            res["violations"].append({"kind": "load-error", "msg": repr(r.fields[0])}); continue
        got = pystr(r.fields[0].fields[L.structs["Config"].index("swift")].fields[L.structs["SwiftParams"].index("prefix")])
        if explicit:
            okc = z3.BoolVal(got == "EX")
        elif got == "":
            okc = z3.Not(z3.Or(pres))
        else:
            k = int(got[1:]) if got.startswith("L") and got[1:].isdigit() else None
            if k is None:
                res["violations"].append({"kind": "wrong-config-file", "got": got}); continue
            okc = z3.And([pres[k]] + [z3.Not(pres[j]) for j in range(k + 1, len(dirs))])
        m = I.sat_model(z3.Not(okc))
        if m is not None:
            res["violations"].append({"kind": "wrong-config-file", "got": got, "explicit": explicit, "present": [bool(z3.is_true(m.eval(p, model_completion=True))) for p in pres]})
    return finish_case(I, res)


def case_find(depth):
    """cwd = /d1/../d<depth>; typeshare.toml present in ancestor k <=> symbolic Bool p_k"""
    P = prog()
    I = new_interp(P)
    res = {"paths": 0, "violations": [], "case": depth}
    dirs = ["/" + "/".join("d%d" % i for i in range(1, k + 1)) for k in range(0, depth + 1)]
    dirs[0] = "/"

    def entry(I):
        fs = Fs()
        for d in dirs:
            fs.add_dir(d)
        pres = [z3.Bool("p%d" % k) for k in range(len(dirs))]
        fs.symbolic_files = {(d.rstrip("/") + "/typeshare.toml"): pres[k] for k, d in enumerate(dirs)}
        I.env["fs"] = fs
        I.env["cwd"] = dirs[-1]
        r = I.call_static("config::find_configuration_file", [])
        return pres, r

    for kind, out, pc in I.explore(entry, max_paths=200):
        res["paths"] += 1
        if kind == "panic":
            res["violations"].append({"kind": "panic", "msg": out.msg}); continue
        pres, r = out
        got = None if r.variant == 0 else pystr(unbox(r.fields[0]).s)
        # oracle: the nearest ancestor (deepest first) that has the file
        conds = []
        if got is None:
            okc = z3.Not(z3.Or(pres))
        else:
            k = [i for i, d in enumerate(dirs) if d.rstrip("/") + "/typeshare.toml" == got]
            if not k:
                res["violations"].append({"kind": "unexpected-path", "got": got}); continue
            k = k[0]
            okc = z3.And(pres[k], z3.Not(z3.Or([pres[j] for j in range(k + 1, len(dirs))])) if k + 1 < len(dirs) else z3.BoolVal(True))
        m = I.sat_model(z3.Not(okc))
        if m is not None:
            res["violations"].append({"kind": "wrong-config-file", "got": got, "present": [bool(z3.is_true(m.eval(p, model_completion=True))) for p in pres]})
    return finish_case(I, res)


def cross_check(rep):
    """translator validation: concrete configurations through the interpreter and through the real code"""
    P = prog()
    L = P.layout
    n = 0
    for k, lang in enumerate(["Swift", "Kotlin", "Scala", "Go", "Typescript", "Python"]):
        present = tuple(((k + j) % 3) != 0 for j in range(len(OPTIONS)))
        cli = {o[0]: "C%d%s" % (j, "" if (j + k) % 4 else ".x") for j, o in enumerate(OPTIONS)}
        fil = {o[0]: "f%d" % j for j, o in enumerate(OPTIONS)}
        if k == 1:
            cli["kotlin_prefix"] = ""
        I = new_interp(P)

        def entry(I):
            cfg = mk_config(I, L, [(o[1], o[2], [ord(c) for c in fil[o[0]]]) for o in OPTIONS], [])
            args = mk_args(I, L, {o[0]: ([ord(c) for c in cli[o[0]]] if p else None) for o, p in zip(OPTIONS, present)}, lang)
            return I.call_static("override_configuration", [cfg, Ref([args], 0)])
        outs = list(I.explore(entry, max_paths=5))
        real = real_effective(lang, present, cli, fil)
        if len(outs) != 1 or outs[0][0] != "ok" or outs[0][1].variant != 0 or "ok" not in real:
            raise Inconclusive("C20 cross-check: %s: interpreter %r vs real %r" % (lang, outs, real))
        cfg = outs[0][1].fields[0]
        cn = L.structs["Config"]
        for (opt, sec, fld, bk, bfld) in OPTIONS:
            mine = pystr(cfg.fields[cn.index(sec)].fields[L.structs[PARAMS[sec]].index(fld)])
            if mine != real["ok"][sec][fld]:
                raise Inconclusive("C20 cross-check: %s %s.%s: interpreter %r, real code %r" % (lang, sec, fld, mine, real["ok"][sec][fld]))
            n += 1
    # concrete probe of the -g round trip through the real store_config / load_config (toml is not encoded symbolically)
    import shutil, tempfile
    full = ('[swift]\nprefix = "P"\ndefault_decorators = ["Sendable", "Equatable"]\ndefault_generic_constraints = ["Sendable"]\ncodablevoid_constraints = ["Equatable"]\n[swift.type_mappings]\nUrl = "URL"\n'
            '[typescript.type_mappings]\nDateTime = "Date"\n"Vec<u8>" = "Uint8Array"\n[kotlin]\npackage = "com.k"\nmodule_name = "m"\nprefix = "K"\n[kotlin.type_mappings]\nA = "B"\n'
            '[scala]\npackage = "com.s"\nmodule_name = "sm"\n[scala.type_mappings]\nC = "D"\n[python.type_mappings]\nE = "F"\n[go]\npackage = "gp"\nuppercase_acronyms = ["ID", "URL"]\nno_pointer_slice = true\n[go.type_mappings]\nG = "H"\n')
    for text in (full, "", '[swift]\nprefix = ""\n[go]\npackage = "x"\n'):
        d = tempfile.mkdtemp(prefix="c20-rt-")
        try:
            r = drv().ask({"op": "roundtrip", "toml": text, "dir": d})
        finally:
            shutil.rmtree(d, ignore_errors=True)
        if "ok" not in r:
            raise Inconclusive("C20 round-trip probe could not run: %s" % (str(r)[:300],))
        if not r["ok"]["same"]:
            diff = {k: (r["ok"]["before"][k], r["ok"]["after"].get(k)) for k in r["ok"]["before"] if r["ok"]["before"][k] != r["ok"]["after"].get(k)}
            rep.violation({"group": "roundtrip", "kind": "generated-config-does-not-reload"}, "a configuration written by store_config reloads differently: %s" % (str(diff)[:400],), {"op": "roundtrip", "toml": text})
    rep.extra["roundtrip_probe"] = "3 concrete configurations through the real store_config + load_config reload equal (concrete probe, not a solver verdict)"
    rep.extra["cross_check"] = "%d effective values equal between the MIR interpreter and the real toml+clap+override_configuration" % n


def run(rep, tier, only=None):
    prog()
    cross_check(rep)
    t0 = time.time()
    langs = ["Swift", "Kotlin", "Scala", "Go", "Typescript", "Python"]
    cases = []
    n = len(OPTIONS)
    sd = seed()
    for lang in langs:
        masks = list(itertools.product([False, True], repeat=n))
        for m in masks:
            for cl, fl in (((0, 0), (0, 1), (1, 0), (1, 1), (2, 2), (0, 2), (2, 0), (1, 2), (2, 1)) if tier == "thorough" else ((0, 1), (1, 1), (1, 0))):
                cases.append((lang, m, cl, fl))
    rep.bounds = {"options": [o[0] for o in OPTIONS], "presence": "every subset of the seven options on the command line (all 128, both tiers)",
                  "values": "CLI and file values symbolic strings over [A-Za-z.]; (CLI length, file length) in quick: (0,1),(1,1),(1,0); thorough: all of {0,1,2}^2", "languages": langs,
                  "store_config": "existing / missing target, explicit / default path", "find_configuration_file": "cwd depth 0..4, presence in every ancestor symbolic", "load_config": "cwd depth 0..3, presence in every ancestor symbolic, with and without an explicit -c file (toml::from_str stubbed: the returned Config is tagged with the text of the file that was read)"}
    rep.outside = ["TOML serialisation / deserialisation (toml crate) is not encoded: the -g round trip is only probed concretely (three configurations through the real store_config + load_config on every run)", "clap's argument parsing"]
    rep.assumptions = ["toml::to_string_pretty is a stub returning an opaque non-empty text", "Config / Args values are built directly (clap and toml are not executed)"]
    tcases = [(l, m, f) for l in ("Swift", "Kotlin", "Scala", "TypeScript", "Go", "Python") for m in (False, True) for f in (False, True)]
    rep.bounds["tables"] = "type_mappings of all six sections, Swift default_decorators / codablevoid_constraints / default_generic_constraints, Go uppercase_acronyms / no_pointer_slice with symbolic entries: each reaches the back-end value of its own language unchanged; multi_file reaches Swift"
    groups = [("override", "case_override", cases), ("tables", "case_tables", tcases), ("store_config", "case_store", [(e, g) for e in (False, True) for g in (False, True)]), ("find_config", "case_find", list(range(0, 5))),
              ("load_config", "case_load", [(d, e) for d in range(0, 4) for e in (False, True)])]
    for gname, fn, cs in groups:
        if only and gname not in only:
            continue
        rep.harnesses[gname] = len(cs)
        for st, case, r in pmap(("checks.c20", fn), cs):
            rep.obligations += 1
            if st != "ok":
                rep.inconc("%s %s: %s" % (gname, case, r)); continue
            account(rep, r); rep.discharged += 1
            if not r["violations"]:
                if len(rep.samples) < 10 and hash(str(case)) % 17 == 0:
                    rep.sample({"group": gname, "case": str(case), "paths": r["paths"], "verdict": "effective value == CLI value if given else file value (unsat otherwise)" if gname == "override" else "holds"})
                continue
            v = r["violations"][0]
            sig = {"group": gname, "kind": v["kind"], "setting": v.get("setting")}
            # native confirmation: run the real binary on the concrete configuration
            ok, why, payload = native_cli(gname, case, v)
            rep.validated += 1
            if ok:
                rep.violation(sig, why, payload)
            elif ok is None:
                rep.inconc("replay failed for %s %s: %s" % (gname, case, why))
            else:
                rep.inconc("engine mismatch %s %s: %s; %s" % (gname, case, v, why))
    rep.extra["explore_s"] = round(time.time() - t0, 1)


FLAGS = {"swift_prefix": "--swift-prefix", "kotlin_prefix": "--kotlin-prefix", "java_package": "--java-package", "kotlin_module_name": "--module-name",
         "scala_package": "--scala-package", "scala_module_name": "--scala-module-name", "go_package": "--go-package"}
VISIBLE = {"Swift{prefix}": "struct %sFoo", "Kotlin{prefix}": "class %sFoo", "Kotlin{package}": "package %s", "Scala{package}": "package %s", "Go{package}": "package %s"}
_DRV = None


def drv():
    global _DRV
    if _DRV is None:
        from vlib.harness import CliDriver
        _DRV = CliDriver()
    return _DRV


def toml_of(fil, tables=False):
    q = lambda s: '"%s"' % s
    t = {"swift": "", "kotlin": "", "go": "", "ts": ""}
    if tables:   # the file-only settings case_override puts into the configuration
        t = {"swift": 'default_decorators = ["Equatable"]\ntype_mappings = { Url = "string" }\n', "kotlin": 'type_mappings = { A = "B" }\n',
             "go": 'uppercase_acronyms = ["ID"]\nno_pointer_slice = true\n', "ts": '[typescript]\ntype_mappings = { D = "Date" }\n'}
    return ("[swift]\nprefix = %s\n" + t["swift"] + "[kotlin]\nprefix = %s\npackage = %s\nmodule_name = %s\n" + t["kotlin"] + "[scala]\npackage = %s\nmodule_name = %s\n[go]\npackage = %s\n" + t["go"] + t["ts"]) % tuple(
        q(fil[k]) for k in ("swift_prefix", "kotlin_prefix", "java_package", "kotlin_module_name", "scala_package", "scala_module_name", "go_package"))


FILE_ONLY = [("swift", "type_mappings", {"Url": "string"}), ("swift", "default_decorators", ["Equatable"]), ("kotlin", "type_mappings", {"A": "B"}),
             ("go", "uppercase_acronyms", ["ID"]), ("go", "no_pointer_slice", True), ("typescript", "type_mappings", {"D": "Date"})]


def argv_of(lang, present, cli):
    argv = ["typeshare", "src", "--lang", lang.lower(), "-o", "out.txt", "-c", "typeshare.toml"]
    for (opt, *_), p in zip(OPTIONS, present):
        if p:
            argv.append("%s=%s" % (FLAGS[opt], cli[opt]))
    return argv


def real_effective(lang, present, cli, fil):
    """effective configuration according to the real code (toml::from_str + clap + override_configuration)"""
    return drv().ask({"op": "override", "toml": toml_of(fil), "argv": argv_of(lang, present, cli)})


def native_cli(gname, case, v):
    """replay against the real CLI code in a scratch directory; (True, why, payload) = reproduces, (False, ..) = does not"""
    import os, shutil, tempfile
    d = tempfile.mkdtemp(prefix="c20-")
    try:
        if gname == "override":
            lang, present, cl, fl = case
            if v["kind"] != "wrong-effective-value":
                cli = {o[0]: "" if cl == 0 else "c" * cl for o in OPTIONS}
                fil = {o[0]: "" if fl == 0 else "f" * fl for o in OPTIONS}
                if v["kind"] == "table-changed":
                    r = drv().ask({"op": "override", "toml": toml_of(fil, tables=True), "argv": argv_of(lang, present, cli)})
                    payload = {"op": "override-tables", "lang": lang, "present": list(present), "cli": cli, "file": fil}
                    if "ok" not in r:
                        return False, "real code answers %s" % (str(r)[:200],), None
                    lost = [(sec, fld, r["ok"].get(sec, {}).get(fld)) for sec, fld, want in FILE_ONLY if r["ok"].get(sec, {}).get(fld) != want]
                    if lost:
                        return True, "typeshare %s with file-only settings in typeshare.toml: %s no longer as written in the file (effective: %s)" % (" ".join(argv_of(lang, present, cli)[1:]), ["%s.%s" % (a, b) for a, b, _ in lost], [c for _, _, c in lost]), payload
                    return False, "real code keeps the file-only tables", None
                r = real_effective(lang, present, cli, fil)
                eff_go = cli["go_package"] if present[-1] else fil["go_package"]
                should_reject = lang == "Go" and eff_go == ""
                payload = {"op": "override", "lang": lang, "present": list(present), "cli": cli, "file": fil, "expect": "rejected" if should_reject else "ok"}
                if ("rejected" in r) != should_reject or "panic" in r or "crash" in r:
                    return True, "%s: typeshare %s with %s answers %s" % (v["kind"], " ".join(argv_of(lang, present, cli)[1:]), toml_of(fil).replace("\n", " "), str(r)[:200]), payload
                return False, "real code answers %s" % (str(r)[:200],), None
            cli, fil = v["cli"], v["file"]
            setting = v["setting"]
            want = None
            for (opt, sec, fld, bk, bfld), p in zip(OPTIONS, present):
                if setting in ("%s.%s" % (sec, fld), "%s{%s}" % (bk, bfld)):
                    want = cli[opt] if p else fil[opt]
            payload = {"op": "override", "lang": lang, "present": list(present), "cli": cli, "file": fil, "setting": setting, "want": want}
            desc = "typeshare %s with typeshare.toml `%s`: %s must be %r" % (" ".join(argv_of(lang, present, cli)[1:]), toml_of(fil).replace("\n", " "), setting, want)
            if "{" not in setting:
                r = real_effective(lang, present, cli, fil)
                sec, fld = setting.split(".")
                got = r.get("ok", {}).get(sec, {}).get(fld) if "ok" in r else r
                if got != want:
                    return True, desc + " but the effective configuration has %r" % (got,), payload
                return False, "real override_configuration gives %r" % (got,), None
            pat = VISIBLE.get(setting)
            if pat is None:
                return None, "setting %s is not observable in generated code" % setting, None
            out = real_generate(d, lang, present, cli, fil)
            if (pat % want) not in out:
                return True, desc + " but the generated code has no `%s`" % (pat % want), payload
            return False, "generated code contains `%s`" % (pat % want), None
        if gname == "tables":
            lang, multi, flag = case
            sec, fld = v["setting"].split(".") if "." in v["setting"] else ("swift", v["setting"])
            payload = {"op": "tables", "lang": lang, "multi": multi, "flag": flag, "setting": v["setting"]}
            ok, why = real_tables(d, lang, sec, fld)
            return ok, why, (payload if ok else None)
        if gname == "store_config":
            exists, given = case
            path = os.path.join(d, "my.toml") if given else None
            target = path or os.path.join(d, "typeshare.toml")
            if exists:
                open(target, "w").write("old")
            r = drv().ask({"op": "store_config", "cwd": d, "path": path})
            now = open(target).read() if os.path.exists(target) else None
            payload = {"op": "store_config", "exists": exists, "given": given}
            if exists and (now != "old" or "ok" in r):
                return True, "store_config on an existing %s: file now %r, result %s" % ("explicit path" if given else "typeshare.toml", now, r), payload
            if not exists and (not now or "ok" not in r):
                return True, "store_config did not write a missing config file: %s" % (r,), payload
            return False, "real store_config behaves (%s, content %r)" % (r, now), None
        if gname == "load_config":
            depth, explicit = case
            present = v.get("present") or [True] * (depth + 1)
            payload = {"op": "load_config", "depth": depth, "explicit": explicit, "present": present}
            ok, why = real_find(d, depth, present, explicit=explicit)
            return (True, why, payload) if not ok else (False, why, None)
        if gname == "find_config":
            depth = case
            present = v["present"]
            payload = {"op": "find_config", "depth": depth, "present": present}
            ok, why = real_find(d, depth, present)
            return (True, why, payload) if not ok else (False, why, None)
        return None, "no native replay for group " + gname, None
    finally:
        shutil.rmtree(d, ignore_errors=True)


def real_generate(d, lang, present, cli, fil):
    import os
    open(os.path.join(d, "typeshare.toml"), "w").write(toml_of(fil))
    os.makedirs(os.path.join(d, "src"), exist_ok=True)
    open(os.path.join(d, "src", "lib.rs"), "w").write("#[typeshare]\npub struct Foo { pub a: u32 }\n")
    drv().cli(argv_of(lang, present, cli)[1:], d)
    p = os.path.join(d, "out.txt")
    return open(p).read() if os.path.exists(p) else ""


TABLE_TOML = {"type_mappings": '[%s.type_mappings]\nKx = "Vy"\n', "default_decorators": '[swift]\ndefault_decorators = ["Dx", "Equatable"]\n',
              "codablevoid_constraints": '[swift]\ncodablevoid_constraints = ["Cx"]\n', "default_generic_constraints": '[swift]\ndefault_generic_constraints = ["Gx", "Sendable"]\n',
              "uppercase_acronyms": '[go]\nuppercase_acronyms = ["AB", "ID"]\n', "no_pointer_slice": '[go]\nno_pointer_slice = true\n'}


def real_tables(d, lang, sec, fld):
    """the real binary with and without the file-only setting: the generated code must differ (the template uses every setting)"""
    import os
    if fld == "multi_file":
        return None, "multi_file is not a file setting"
    os.makedirs(os.path.join(d, "src"), exist_ok=True)
    open(os.path.join(d, "src", "lib.rs"), "w").write("#[typeshare]\npub struct Foo<T> { pub a: Kx, pub ab_id: T, pub u: (), pub v: Option<Vec<u32>> }\n#[typeshare]\npub struct Kx { pub k: u32 }\n")
    base = '[go]\npackage = "proto"\n[scala]\npackage = "com.x"\n' if fld not in ("uppercase_acronyms", "no_pointer_slice") else '[scala]\npackage = "com.x"\n'
    body = TABLE_TOML[fld] % sec if "%s" in TABLE_TOML[fld] else TABLE_TOML[fld]
    if fld in ("uppercase_acronyms", "no_pointer_slice"):
        body = body.replace("[go]\n", '[go]\npackage = "proto"\n')
        base_wo = base + '[go]\npackage = "proto"\n'
    else:
        base_wo = base
    outs = []
    for tag, toml in (("with", base + body), ("without", base_wo)):
        open(os.path.join(d, "typeshare.toml"), "w").write(toml)
        out = os.path.join(d, "out-%s.txt" % tag)
        rc, so, se = drv().cli(["src", "--lang", lang.lower(), "-o", out, "-c", "typeshare.toml"], d)
        outs.append(open(out).read() if os.path.exists(out) else "<no output: %s>" % se[-200:])
    if outs[0] == outs[1]:
        return True, "--lang %s: `%s` in typeshare.toml changes nothing in the generated code (file-only setting %s.%s is not applied)" % (lang.lower(), body.strip().replace("\n", " "), sec, fld)
    return False, "the real binary's output changes with %s.%s" % (sec, fld)


def real_find(d, depth, present, explicit=False):
    """ancestors d/ (level 0) .. d/d1/../d<depth>; only levels >= 1 are under our control"""
    import os
    cur = d
    dirs = [d]
    for k in range(1, depth + 1):
        cur = os.path.join(cur, "d%d" % k)
        os.makedirs(cur, exist_ok=True)
        dirs.append(cur)
    # the scratch root stands for "/": it always gets a sentinel file unless present[0] says so, to stop the search there
    for k, dd in enumerate(dirs):
        if present[k] or k == 0:
            open(os.path.join(dd, "typeshare.toml"), "w").write('[swift]\nprefix = "L%d%s"\n' % (k, "" if present[k] else "sentinel"))
    req = {"op": "load_config", "cwd": dirs[-1]}
    if explicit:
        ex = os.path.join(d, "explicit.toml")
        # (outside the ancestor chain of cwd only when depth > 0; the file name differs from typeshare.toml anyway)
        open(ex, "w").write('[swift]\nprefix = "EX"\n')
        req["path"] = ex
    r = drv().ask(req)
    got = r.get("ok", {}).get("swift", {}).get("prefix") if "ok" in r else str(r)
    if explicit:
        return got == "EX", "cwd %d levels deep, typeshare.toml present at levels %s, -c explicit.toml given: the real load_config loads %r, expected the explicit file" % (depth, [k for k, p in enumerate(present) if p], got)
    want = None
    for k in range(len(dirs) - 1, -1, -1):
        if present[k]:
            want = "L%d" % k
            break
    if want is None:
        want = "L0sentinel"
    return got == want, "cwd %d levels deep, typeshare.toml present at levels %s: the real search loads %r, nearest is %r" % (depth, [k for k, p in enumerate(present) if p], got, want)


def replay(body):
    c = body["case"]
    import shutil, tempfile
    d = tempfile.mkdtemp(prefix="c20-")
    try:
        if c["op"] == "override":
            case = (c["lang"], tuple(c["present"]), 0, 0)
            if "setting" in c:
                ok, why, _ = native_cli("override", case, {"kind": "wrong-effective-value", "setting": c["setting"], "cli": c["cli"], "file": c["file"]})
            else:
                r = real_effective(c["lang"], c["present"], c["cli"], c["file"])
                ok, why = (("rejected" in r) != (c["expect"] == "rejected")), str(r)
        elif c["op"] == "override-tables":
            cl = len(next(iter(c["cli"].values()))); fl = len(next(iter(c["file"].values())))
            ok, why, _ = native_cli("override", (c["lang"], tuple(c["present"]), cl, fl), {"kind": "table-changed"})
        elif c["op"] == "roundtrip":
            r = drv().ask({"op": "roundtrip", "toml": c["toml"], "dir": d})
            ok, why = ("ok" in r and not r["ok"]["same"]), str(r)[:400]
        elif c["op"] == "tables":
            ok, why, _ = native_cli("tables", (c["lang"], c["multi"], c["flag"]), {"setting": c["setting"]})
        elif c["op"] == "store_config":
            ok, why, _ = native_cli("store_config", (c["exists"], c["given"]), {})
        elif c["op"] == "load_config":
            ok, why, _ = native_cli("load_config", (c["depth"], c["explicit"]), {"present": c["present"]})
        else:
            ok, why, _ = native_cli("find_config", c["depth"], {"present": c["present"]})
        print(why)
        return 1 if ok else 0
    finally:
        shutil.rmtree(d, ignore_errors=True)
