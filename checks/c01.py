"""C01 - field wire names in generated types equal serde's JSON keys.

P half (parser from MIR): struct fields and struct-variant fields with a symbolic snake_case identifier
(optionally raw / a target-language keyword), an optional serde(rename = KEY) with symbolic KEY in every
attribute arrangement, every rename_all rule on the container / variant / enum; oracle = serde_derive's
apply_to_field (restated over symbolic chars) / the rename literal / the identifier.
B half (six back ends from MIR): structs and struct variants whose fields carry symbolic `renamed` keys
over [A-Za-z0-9_-] and symbolic / keyword `original` identifiers; the wire key recovered from the
generated text (quoted property, @SerialName, CodingKeys raw value, json tag, pydantic alias, or the
identifier itself) must equal `renamed` - a z3 equality over the output positions.
"""
import itertools
import time

import z3

from vlib.common import Inconclusive, seed
from vlib.harness import Replayer, pmap
from vlib.mirsym.engine import new_interp
from vlib.mirsym.selftest import parser_selftest, backend_selftest
from vlib.mirsym.ir import IR
from vlib.mirsym import bharness
from vlib.mirsym.values import *  # noqa
from vlib.mirsym.models_core import seq_eq
from vlib import extract
from checks.pcommon import prog, explore_source, account, finish_case
from checks.c16 import serde_field

LANGS = ["typescript", "kotlin", "swift", "scala", "go", "python"]
RULES = [None, "lowercase", "UPPERCASE", "PascalCase", "camelCase", "snake_case", "SCREAMING_SNAKE_CASE", "kebab-case", "SCREAMING-KEBAB-CASE", "Bogus"]
KEYWORDS = ["type", "class", "default", "in", "is", "as", "self_", "super_", "async", "match", "enum", "struct", "fn", "let", "None_", "from", "import", "pass", "lambda", "func", "var", "val", "object", "package", "interface", "switch", "case", "protocol", "extension", "internal", "go", "chan", "def"]
ARR = {
    "none": ("", False),
    "own": ('#[serde(rename = "Qkey")]', True),
    "merged_default": ('#[serde(default, rename = "Qkey")]', True),
    "after_doc": ('#[doc = "d"] #[serde(rename = "Qkey")]', True),
    "two_serde": ('#[serde(default)] #[serde(rename = "Qkey")]', True),
    "typeshare_between": ('#[serde(default)] #[typeshare(skip_not)] #[serde(rename = "Qkey")]', True),
    "alias_only": ('#[serde(alias = "Qkey")]', False),
    "typeshare_rename": ('#[typeshare(rename = "Qkey")]', False),
    "rename_first_of_two": ('#[serde(rename = "Qkey")] #[serde(default)]', True),
    "list_before": ('#[serde(bound(deserialize = "T: X"), rename = "Qkey")]', True),
    "list_after": ('#[serde(rename = "Qkey", bound(deserialize = "T: X"))]', True),
    # the container's rename_all attribute in other spellings (the member has no attribute of its own)
    "ra_list_before": ("", False), "ra_list_after": ("", False), "ra_bare_before": ("", False), "ra_second_attr": ("", False), "ra_value_before": ("", False),
}
RA_FORM = {"ra_list_before": '#[serde(bound(deserialize = "T: X"), rename_all = "%s")]', "ra_list_after": '#[serde(rename_all = "%s", bound(deserialize = "T: X"))]',
           "ra_bare_before": '#[serde(deny_unknown_fields, rename_all = "%s")]', "ra_second_attr": '#[serde(deny_unknown_fields)] #[derive(Debug)] #[serde(rename_all = "%s")]',
           "ra_value_before": '#[serde(crate = "serde", rename_all = "%s")]'}
RAW = {"self_": None, "super_": None, "None_": None}


def ident_alphabet(I, cs):
    for i, c in enumerate(cs):
        lo = z3.Or(z3.And(z3.UGE(c, 97), z3.ULE(c, 122)), c == 95)
        I.assume(lo if i == 0 else z3.Or(lo, z3.And(z3.UGE(c, 48), z3.ULE(c, 57))))
    # conventionally named: not made of underscores only (`_` alone is not even an identifier; `__` is C07's business)
    I.assume(z3.Or([c != 95 for c in cs]))


def key_alphabet(I, cs):
    for i, c in enumerate(cs):
        alpha = z3.Or(z3.And(z3.UGE(c, 97), z3.ULE(c, 122)), z3.And(z3.UGE(c, 65), z3.ULE(c, 90)), c == 95)
        I.assume(alpha if i == 0 else z3.Or(alpha, z3.And(z3.UGE(c, 48), z3.ULE(c, 57)), c == 45))


def case_p(case):
    container, rule, where, arr, ident_kind, n, kn = case
    attr, has_rename = ARR[arr]
    ra = RA_FORM.get(arr, '#[serde(rename_all = "%s")]') % rule if rule else ""
    ident_txt = "Qidn" if ident_kind == "sym" else ("r#%s" % ident_kind if ident_kind in ("type", "match", "enum", "struct", "fn", "let", "in", "as", "async") else ident_kind.rstrip("_"))
    if ident_kind in ("self_", "super_"):
        ident_txt = ident_kind
    if container == "struct":
        src = "#[typeshare]\n%s\npub struct S { pub keep_me: u32, %s pub %s: u32 }\n" % (ra if where == "container" else "", attr, ident_txt)
    else:
        enum_ra = ra if where == "enum" else ""
        var_ra = ra if where == "container" else ""
        src = '#[typeshare]\n#[serde(tag = "t", content = "c")]\n%s\npub enum S { Keep(u32), %s V { keep_me: u32, %s %s: u32 } }\n' % (enum_ra, var_ra, attr, ident_txt)
    res = {"paths": 0, "violations": [], "src": src}
    I = None

    def syms():
        return [z3.BitVec("i%d" % k, 32) for k in range(n)], [z3.BitVec("k%d" % k, 32) for k in range(kn)]

    def plant(I):
        idn, key = syms()
        m = {}
        if ident_kind == "sym":
            ident_alphabet(I, idn)
            m["Qidn"] = idn
        if has_rename or "Qkey" in attr:
            key_alphabet(I, key)
            m["Qkey"] = key
        return m
    eff_rule = rule if ((container == "struct" and where == "container") or (container == "variant" and where == "container")) else None
    for I, k, pd, pc in explore_source(src, plant):
        res["paths"] += 1
        idn, key = syms()
        ident = idn if ident_kind == "sym" else [ord(c) for c in (ident_kind if ident_kind in ("self_", "super_") else ident_kind.rstrip("_"))]
        if k == "panic":
            # serde_derive itself panics (at compile time) on the same identifier -> the program is not in the quantifier
            try:
                if not has_rename and eff_rule not in (None, "Bogus"):
                    serde_field(I, eff_rule, list(ident))
                serde_panics = False
            except Panic:
                serde_panics = True
            if serde_panics:
                res["outside"] = res.get("outside", 0) + 1
                continue
            m = I.sat_model()
            res["violations"].append({"kind": "panic", "msg": pd.msg, "ident": "".join(chr(c if isinstance(c, int) else m.eval(c, model_completion=True).as_long()) for c in ident)})
            continue
        L = I.prog.layout
        pdn = L.structs["ParsedData"]
        g = lambda nme: pd.fields[pdn.index(nme)]
        if pd is None or len(g("errors").items):
            res["violations"].append({"kind": "rejected"}); continue
        if container == "struct":
            fields = g("structs").items[0].fields[L.structs["RustStruct"].index("fields")].items
        else:
            e = g("enums").items[0]
            sh = e.fields[L.enum_fields[("RustEnum", "Algebraic")].index("shared")]
            v = sh.fields[L.structs["RustEnumShared"].index("variants")].items[1]
            fields = v.fields[L.enum_fields[("RustEnumVariant", "AnonymousStruct")].index("fields")].items
        f = fields[1]
        idv = f.fields[L.structs["RustField"].index("id")]
        orig = idv.fields[L.structs["Id"].index("original")].chars
        ren = idv.fields[L.structs["Id"].index("renamed")].chars
        # oracle (may fork on `_` in symbolic identifiers exactly like serde's own loop)
        try:
            if has_rename:
                want = list(key)
            elif eff_rule in (None, "Bogus"):
                want = list(ident)
            else:
                want = serde_field(I, eff_rule, list(ident))
            want_kind = "ok"
        except Panic as p:
            want_kind = "panic"
        if want_kind == "panic":
            res["violations"].append({"kind": "serde-panics-typeshare-does-not"}); continue
        c1 = seq_eq(I, ren, want)
        c2 = seq_eq(I, orig, ident)
        bad = z3.Not(z3.And(c1 if is_sym(c1) else z3.BoolVal(c1), c2 if is_sym(c2) else z3.BoolVal(c2)))
        m = I.sat_model(bad)
        if m is not None:
            ev = lambda cs: "".join(chr(c if isinstance(c, int) else m.eval(c, model_completion=True).as_long()) for c in cs)
            res["violations"].append({"kind": "wrong-key", "ident": ev(ident), "key": ev(key) if has_rename or "Qkey" in attr else None, "renamed": ev(ren), "want": ev(want), "original": ev(orig)})
    return finish_case(I, res) if I else res


# ------------------------------------------------------------------------------- B half
def case_b(case):
    lang, container, orig_kind, kn, on, cfgname = case
    P = prog()
    ir = IR(P.layout)
    I = new_interp(P)
    res = {"paths": 0, "violations": [], "case": list(case)}
    cfg = {"plain": {}, "prefix": {"prefix": "OP"}, "pkg": {"package": "com.a.b"}, "acronyms": {"uppercase_acronyms": ["AB", "K"]}}[cfgname]

    def syms():
        return [z3.BitVec("o%d" % k, 32) for k in range(on)], [z3.BitVec("k%d" % k, 32) for k in range(kn)]

    def entry(I):
        og, key = syms()
        if orig_kind == "sym":
            ident_alphabet(I, og)
            I.assume(og[0] != 95)          # conventionally named fields start with a letter
            orig = RString(list(og))
        elif orig_kind == "same":
            orig = None
        else:
            orig = S(orig_kind)
        key_alphabet(I, key)
        if orig_kind == "same":
            I.assume(key[0] != 95)
        if lang == "scala":
            for c in key:
                I.assume(c != 45)     # Scala carries no key binding: keys without '-' only
        ren = RString(list(key))
        if orig is None:
            orig = RString(list(key))
        f1 = ir.field("first", ir.special("U32"))
        f2 = ir.field(orig, ir.special("String"), renamed=ren, serde_rename=False)
        f3 = ir.field("last_one", ir.special("Bool"), renamed="lastOne")
        lg = bharness.make_lang(I, lang, cfg)
        if container == "struct":
            pd = ir.parsed_data(structs=[ir.struct("S", [f1, f2, f3])])
        else:
            pd = ir.parsed_data(enums=[ir.enum_alg("E", [ir.v_unit("U"), ir.v_anon("V", [f1, f2, f3])])])
        ok, w, _ = bharness.generate(I, lang, pd, lang_value=lg)
        return og, key, ok, w

    for kind, out, pc in I.explore(entry, max_paths=20000):
        res["paths"] += 1
        og, key = syms()
        if kind == "panic":
            m = I.sat_model()
            ev = lambda cs: "".join(chr(m.eval(c, model_completion=True).as_long()) for c in cs)
            res["violations"].append({"kind": "panic", "msg": out.msg, "key": ev(key), "orig": ev(og) if orig_kind == "sym" else orig_kind})
            continue
        _, _, ok, w = out
        if not ok:
            res["violations"].append({"kind": "io-error"}); continue
        sk = extract.Skel(w.chars)
        pre = cfg.get("prefix", "") if lang in ("swift", "kotlin") else ""
        if container == "struct":
            fields = extract.struct_fields(lang, sk, pre + "S")
        else:
            fields = None
            for cand in (pre + "EVInner", "EVInner"):
                fields = extract.struct_fields(lang, sk, cand)
                if fields:
                    break
            if not fields and lang == "typescript":
                from checks.c04 import ts_variant_fields
                fields = ts_variant_fields(sk)
        if not fields or len(fields) != 3:
            res.setdefault("inconclusive", []).append("could not extract three members from %r" % sk.text[:400])
            continue
        f = fields[1]
        got = sk.terms(f.wire_key())
        eq = seq_eq(I, got, list(key))
        bad = z3.BoolVal(not eq) if isinstance(eq, bool) else z3.Not(eq)
        m = I.sat_model(bad)
        if m is not None:
            ev = lambda cs: "".join(chr(c if isinstance(c, int) else m.eval(c, model_completion=True).as_long()) for c in cs)
            res["violations"].append({"kind": "wrong-binding", "key": ev(key), "orig": ev(og) if orig_kind == "sym" else (ev(key) if orig_kind == "same" else orig_kind),
                                      "bound": ev(got), "line": ev(sk.chars[f.ident[0] - 8 if f.ident[0] > 8 else 0:f.type[1] + 30])})
        # (round n) TypeScript: a key that is not an identifier must be carried as a *quoted* property
        if lang == "typescript" and f.key is None and sk.text[f.ident[0] - 1:f.ident[0]] != '"':   # (the variant-body extractor reports a quoted key as ident)
            it = sk.terms(f.ident)
            dash = [c == 45 for c in it if not isinstance(c, int)] + ([z3.BoolVal(True)] if any(isinstance(c, int) and c == 45 for c in it) else [])
            m2 = I.sat_model(z3.Or(dash)) if dash else None
            if m2 is not None:
                ev2 = lambda cs: "".join(chr(c if isinstance(c, int) else m2.eval(c, model_completion=True).as_long()) for c in cs)
                res["violations"].append({"kind": "unquoted-non-identifier", "key": ev2(key), "orig": ev2(og) if orig_kind == "sym" else (ev2(key) if orig_kind == "same" else orig_kind), "bound": ev2(it)})
        # the neighbours must be untouched
        n1 = "".join(chr(c) if isinstance(c, int) else "?" for c in sk.terms(fields[0].wire_key()))
        n3 = "".join(chr(c) if isinstance(c, int) else "?" for c in sk.terms(fields[2].wire_key()))
        if n1 != "first" or n3 != "lastOne":
            res["violations"].append({"kind": "neighbour-key", "got": [n1, n3]})
    return finish_case(I, res)


def render_b(case, v):
    lang, container, orig_kind, kn, on, cfgname = case
    orig = v["orig"]
    raw = "r#" + orig if orig in ("type", "match", "enum", "struct", "fn", "let", "in", "as", "async", "self", "super") else orig
    fld = '#[serde(rename = "%s")] pub %s: String' % (v["key"], raw)
    if container == "struct":
        return '#[typeshare]\npub struct S { pub first: u32, %s, #[serde(rename = "lastOne")] pub last_one: bool }\n' % fld
    return '#[typeshare]\n#[serde(tag = "type", content = "content")]\npub enum E { U, V { first: u32, %s, #[serde(rename = "lastOne")] last_one: bool } }\n' % fld.replace("pub ", "")


def run(rep, tier, only=None):
    P = prog()
    nat = Replayer()
    t0 = time.time()
    rep.validated += parser_selftest(P, nat)
    rep.validated += backend_selftest(P, nat, limit=None if tier == "thorough" else 10, configs=(tier == "thorough"))
    sd = seed()
    maxn = 3 if tier == "quick" else 5
    p_cases = []
    arrs = list(ARR)
    for container in ("struct", "variant"):
        wheres = ["container"] if container == "struct" else ["container", "enum"]
        for where in wheres:
            for rule in RULES:
                for n in range(1, maxn + 1):
                    p_cases.append((container, rule, where, "none", "sym", n, 1))
                for ai, arr in enumerate(arrs):
                    if tier == "quick" and (ai + RULES.index(rule) + sd) % 3 != 0 and arr not in ("none", "own"):
                        continue
                    if arr.startswith("ra_"):
                        if rule is not None:
                            p_cases.append((container, rule, where, arr, "sym", 2, 1))
                        continue
                    for kn in ((1, 3) if tier == "quick" else (1, 2, 3)):
                        p_cases.append((container, rule, where, arr, "sym", 2, kn))
                for kw in (KEYWORDS if tier == "thorough" else KEYWORDS[sd % 3::3]):
                    p_cases.append((container, rule, where, "none", kw, 1, 1))
    b_cases = []
    for lang in LANGS:
        for container in ("struct", "variant"):
            for kn in ((1, 2, 3) if tier == "thorough" else (1, 3)):
                b_cases.append((lang, container, "same", kn, 1, "plain"))
                b_cases.append((lang, container, "sym", kn, 2, "plain"))
            for kw in (KEYWORDS if tier == "thorough" else KEYWORDS[sd % 2::2]):
                b_cases.append((lang, container, kw.rstrip("_") if kw not in ("self_", "super_") else kw, 2, 1, "plain"))
        if lang in ("swift", "kotlin"):
            b_cases.append((lang, "struct", "sym", 2, 2, "prefix"))
            b_cases.append((lang, "variant", "sym", 2, 2, "prefix"))
        if lang == "go":
            # upper-case acronyms change Go identifiers, never the JSON key: the symbolic key may contain `Ab` / `K`
            for kn in (1, 2, 3):
                b_cases.append((lang, "struct", "sym", kn, 2, "acronyms"))
                b_cases.append((lang, "variant", "same", kn, 1, "acronyms"))
    rep.bounds = {"parser": "identifier: %d symbolic chars over [a-z0-9_] (lengths 1..%d) or one of %d keywords (raw where Rust requires); rename key: <=3 symbolic chars over [A-Za-z0-9_-]; 10 rename_all settings on struct / variant / enum; %d attribute arrangements" % (maxn, maxn, len(KEYWORDS), len(ARR)),
                  "back ends": "6 languages x {struct, struct variant} x renamed key of 1..3 symbolic chars x original = same / symbolic / keyword; 3 members; prefix variants for Swift/Kotlin"}
    rep.outside = ["rename(serialize = .., deserialize = ..), rename_all_fields", "keys with characters outside [A-Za-z0-9_-]", "more than 3 members", "Scala keys containing '-' (Scala output carries no key binding)"]
    rep.assumptions = ["oracle: serde_derive apply_to_field restated over symbolic chars (checks/c16.py), counterexamples re-decided by the real case.rs / real library"]
    reported = set()
    if not only or "p" in only:
        rep.harnesses["parser cases"] = len(p_cases)
        for st, case, r in pmap(("checks.c01", "case_p"), p_cases):
            rep.obligations += 1
            if st != "ok":
                rep.inconc("P %s: %s" % (case, r)); continue
            account(rep, r); rep.discharged += 1
            if not r["violations"]:
                if len(rep.samples) < 6 and case[4] == "sym" and case[5] >= 3:
                    rep.sample({"half": "parser", "case": str(case), "paths": r["paths"], "verdict": "renamed == serde key and original == identifier for every identifier/key (unsat)"})
                continue
            v = r["violations"][0]
            src = r["src"].replace("Qidn", v.get("ident") or "x").replace("Qkey", v.get("key") or "k")
            real = nat.ask({"op": "parse", "source": src})
            rep.validated += 1
            sig = {"half": "parser", "kind": v["kind"], "container": case[0], "rule": case[1], "where": case[2], "arrangement": case[3], "ident_kind": case[4] if case[4] == "sym" else "keyword"}
            key = tuple(sorted((a, str(b)) for a, b in sig.items()))
            if key in reported:
                continue
            ok = None
            desc = ""
            try:
                if v["kind"] == "panic":
                    ok = "panic" in real or "crash" in real
                    desc = "`%s` panics: %s" % (src.strip().replace("\n", " "), real.get("panic"))
                else:
                    d = real["ok"]
                    if case[0] == "struct":
                        ff = d["structs"][0]["fields"][1]
                    else:
                        ff = d["enums"][0]["shared"]["variants"][1]["fields"][1]
                    ok = ff["id"]["renamed"] != v.get("want") or ff["id"]["original"] != v.get("ident")
                    desc = "`%s`: typeshare key %r (original %r), serde key %r" % (src.strip().replace("\n", " "), ff["id"]["renamed"], ff["id"]["original"], v.get("want"))
            except Exception as e:  # noqa
                desc = "%s: %s" % (src, str(real)[:200])
            if ok:
                reported.add(key)
                rep.violation(sig, desc, {"source": src, "half": "parser", "want": v.get("want")})
            else:
                rep.inconc("engine mismatch (parser) %s: %s; real: %s" % (case, v, desc))
    if not only or "b" in only:
        rep.harnesses["back-end cases"] = len(b_cases)
        for st, case, r in pmap(("checks.c01", "case_b"), b_cases):
            rep.obligations += 1
            if st != "ok":
                rep.inconc("B %s: %s" % (case, r)); continue
            account(rep, r); rep.discharged += 1
            for msg in r.get("inconclusive", [])[:1]:
                rep.inconc("B %s: %s" % (case, msg))
            if not r["violations"]:
                if len(rep.samples) < 12 and case[2] == "sym" and case[3] == 3:
                    rep.sample({"half": "back end", "case": str(case), "paths": r["paths"], "verdict": "wire key bound in the output == renamed for every key/identifier (unsat on every path)"})
                continue
            for v in r["violations"][:3]:
                kclass = "dash" if "-" in (v.get("key") or "") else ("upper" if any(ch.isupper() for ch in (v.get("key") or "")) else "plain")
                sig = {"half": "backend", "lang": case[0], "container": case[1], "kind": v["kind"], "orig": case[2] if case[2] in ("sym", "same") else "keyword:" + case[2], "key_class": kclass}
                key = tuple(sorted((a, str(b)) for a, b in sig.items()))
                if key in reported:
                    continue
                if v["kind"] not in ("wrong-binding", "panic", "unquoted-non-identifier"):
                    rep.inconc("B %s: %s" % (case, v)); continue
                src = render_b(case, v)
                cfg = dict(bharness.DEFAULT_CFG.get(case[0], {}))
                cfg.update({"plain": {}, "prefix": {"prefix": "OP"}, "pkg": {"package": "com.a.b"}, "acronyms": {"uppercase_acronyms": ["AB", "K"]}}[case[5]])
                real = nat.ask({"op": "generate", "lang": case[0], "files": [{"source": src}], "config": cfg})
                rep.validated += 1
                out = real.get("out", {}).get("", None)
                if v["kind"] == "panic":
                    if "panic" in real or "crash" in real:
                        reported.add(key)
                        rep.violation(sig, "%s panics on `%s`: %s" % (case[0], src.replace("\n", " "), real.get("panic")), {"source": src, "lang": case[0], "config": cfg, "half": "backend"})
                    else:
                        rep.inconc("engine mismatch (back end panic) %s %s" % (case, v))
                    continue
                if out is None:
                    rep.inconc("replay gave no output for %s: %s" % (src, str(real)[:200])); continue
                # re-extract from the real text
                sk = extract.Skel([ord(c) for c in out])
                pre = cfg.get("prefix", "") if case[0] in ("swift", "kotlin") else ""
                fields = extract.struct_fields(case[0], sk, pre + "S") if case[1] == "struct" else (extract.struct_fields(case[0], sk, pre + "EVInner") or extract.struct_fields(case[0], sk, "EVInner"))
                if not fields and case[0] == "typescript":
                    from checks.c04 import ts_variant_fields
                    fields = ts_variant_fields(sk)
                if v["kind"] == "unquoted-non-identifier":
                    import re as _re
                    if "-" in v["key"] and _re.search(r"^\s*%s\??: " % _re.escape(v["key"]), out, _re.M) and ('"%s"' % v["key"]) not in out:
                        reported.add(key)
                        rep.violation(sig, "typescript writes the key %r as an unquoted property: %s" % (v["key"], [l.strip() for l in out.split("\n") if v["key"] in l][:1]),
                                      {"source": src, "lang": case[0], "config": cfg, "half": "backend", "key": v["key"], "unquoted": True})
                    else:
                        rep.inconc("engine mismatch (unquoted key) %s: %s; real text %r" % (case, v, out[:300]))
                    continue
                if fields and len(fields) == 3 and sk.str(fields[1].wire_key()) != v["key"]:
                    reported.add(key)
                    rep.violation(sig, "%s binds the field `%s` (serde key %r) to %r: %s" % (case[0], v["orig"], v["key"], sk.str(fields[1].wire_key()), (fields[1].raw or "").strip()),
                                  {"source": src, "lang": case[0], "config": cfg, "half": "backend", "key": v["key"]})
                else:
                    rep.inconc("engine mismatch (back end) %s: %s; real text %r" % (case, v, out[:300]))
    nat.close()
    rep.extra["explore_s"] = round(time.time() - t0, 1)


def replay(case):
    c = case["case"]
    rep = Replayer()
    if c.get("half") == "parser":
        print(str(rep.ask({"op": "parse", "source": c["source"]}))[:800])
        rep.close()
        return 1
    r = rep.ask({"op": "generate", "lang": c["lang"], "files": [{"source": c["source"]}], "config": c.get("config", {})})
    rep.close()
    print(r.get("out", {}).get("", r))
    return 1
