"""C19 - #[typeshare] is transparent: only the typeshare helper attributes are removed.

Engine M on the MIR of typeshare-annotation: `strip_configuration_attribute` (with
remove_configuration_from_attributes / _from_fields and the retain closure) is executed on DeriveInput values
built from real-syn ASTs of item templates (structs: named/tuple/unit, generics, lifetimes, where clauses;
enums with unit/tuple/struct variants and discriminants; unions) whose member attributes have SYMBOLIC path
names (9 chars, so that `typeshare` itself is one of the values) next to concrete serde/doc/cfg/derive
attributes.  z3 decides on every path that, at every member position, exactly the attributes whose path is
`typeshare` were removed, order kept, and that nothing else of the item changed (item-level attributes,
visibility, names, types, generics, discriminants, member count and order).
The attribute macro's wrapper, the re-tokenisation of the DeriveInput and what rustc / serde do with the
result are outside the reach of the solver (see `outside`).
"""
import time

import z3

from vlib.common import Inconclusive
from vlib.harness import pmap
from vlib.mirsym.engine import load_program, new_interp
from vlib.mirsym import synast
from vlib.mirsym.models_core import seq_eq
from vlib.mirsym.values import *  # noqa
from checks.pcommon import account, finish_case
from checks.c06 import eqf

_PROG = None
TS = "typeshare"
# %A0.. are attribute slots `#[PLAi(arg)]` with a symbolic path name
TEMPLATES = {
    "struct-named": "#[derive(Debug)]\n#[PLA9]\npub struct T { #[PLA0(skip)] #[serde(rename = \"x\")] pub a: u32, #[doc = \"d\"] #[PLA1(serialized_as = \"String\")] pub(crate) b: Vec<String>, #[typeshare(skip)] #[typeshare(redacted)] #[typeshare::skip] #[my::typeshare] c: bool }",
    "struct-generic": "#[serde(rename_all = \"camelCase\")]\npub struct T<'a, G: Clone, const N: usize> where G: Default { #[PLA0] pub a: &'a G, #[cfg(any())] #[PLA1(lang = \"x\")] #[PLA2] pub b: [u8; N] }",
    "struct-tuple": "pub struct T(#[PLA0] pub u32, #[PLA1(skip)] #[typeshare(skip)] String, #[serde(skip)] bool);",
    "struct-unit": "#[PLA0]\n#[typeshare(swift = \"Equatable\")]\npub struct T;",
    "enum-mixed": "#[derive(Clone)]\n#[serde(tag = \"t\", content = \"c\")]\npub enum T { #[PLA0(skip)] A, #[serde(rename = \"bee\")] #[PLA1] B(#[PLA2] u32), C { #[PLA3(serialized_as = \"String\")] x: u8, #[doc = \"y\"] y: u8 }, #[typeshare(skip)] D = 7 }",
    "enum-struct-variants": "pub enum T<G> { A { #[PLA0] a: G, #[PLA1] b: G }, #[PLA2] B { #[typeshare(skip)] #[PLA3] c: u8 }, C(#[typeshare(skip)] G, #[PLA4] u8) }",
    "enum-variant-then-fields": "pub enum T { #[typeshare(skip)] A { #[typeshare(skip)] a: u8, #[PLA0] b: u8 }, #[PLA1] B { #[PLA2] c: u8 }, C }",
    "union": "#[repr(C)]\npub union T { #[PLA0] a: u32, #[doc = \"b\"] #[PLA1(skip)] b: f32, #[typeshare(skip)] #[typeshare_x] #[typeshare(skip)] c: u8 }",
}
NSLOTS = {k: max([int(x[0]) for x in v.split("PLA")[1:] if x[0] != "9"] + [-1]) + 1 for k, v in TEMPLATES.items()}


def prog():
    global _PROG
    if _PROG is None:
        _PROG = load_program(("annotation",))
    return _PROG


def derive_input(P, item):
    """syn::Item::{Struct,Enum,Union} -> syn::DeriveInput value (what syn::parse::<DeriveInput> builds)"""
    L = P.layout
    kind = L.syn_enums["Item"][item.variant]
    it = item.fields[0]
    names = L.syn_structs[it.ty.split("::")[-1]]
    g = lambda n: it.fields[names.index(n)]
    if kind == "Struct":
        data = EnumV("syn::Data", L.syn_enums["Data"].index("Struct"), [Agg("syn::DataStruct", [g("struct_token"), g("fields"), g("semi_token")])])
    elif kind == "Enum":
        data = EnumV("syn::Data", L.syn_enums["Data"].index("Enum"), [Agg("syn::DataEnum", [g("enum_token"), g("brace_token"), g("variants")])])
    elif kind == "Union":
        data = EnumV("syn::Data", L.syn_enums["Data"].index("Union"), [Agg("syn::DataUnion", [g("union_token"), g("fields")])])
    else:
        raise Unsupported("not a derive input: " + kind)
    return Agg("syn::DeriveInput", [g("attrs"), g("vis"), g("ident"), g("generics"), data])


def members(P, di):
    """[(where, holder Agg, attrs index)] for every member position the macro must clean, plus the item itself"""
    L = P.layout
    out = []
    data = di.fields[4]
    kind = L.syn_enums["Data"][data.variant]
    d = data.fields[0]

    def fields_of(fs, where):
        fk = L.syn_enums["Fields"][fs.variant]
        if fk == "Unit":
            return
        inner = fs.fields[0]
        lst = inner.fields[L.syn_structs["FieldsNamed" if fk == "Named" else "FieldsUnnamed"].index("named" if fk == "Named" else "unnamed")]
        for k, f in enumerate(punct_items(lst)):
            out.append(("%s.field%d" % (where, k), f))
    if kind == "Struct":
        fields_of(d.fields[1], "struct")
    elif kind == "Enum":
        for k, v in enumerate(punct_items(d.fields[2])):
            out.append(("variant%d" % k, v))
            fields_of(v.fields[L.syn_structs["Variant"].index("fields")], "variant%d" % k)
    else:
        named = d.fields[1]
        for k, f in enumerate(punct_items(named.fields[L.syn_structs["FieldsNamed"].index("named")])):
            out.append(("union.field%d" % k, f))
    return out


def punct_items(p):
    p = unbox(p)
    if isinstance(p, RVec):
        return list(p.items)
    if hasattr(p, "items"):
        return list(p.items)
    raise Unsupported("punctuated %r" % (p,))


def attr_name_is_ts(I, P, attr):
    """formula: the attribute's path prints as `typeshare`"""
    L = P.layout
    meta = attr.fields[L.syn_structs["Attribute"].index("meta")]
    mk = L.syn_enums["Meta"][meta.variant]
    path = meta.fields[0] if mk == "Path" else meta.fields[0].fields[0]
    pn = L.syn_structs["Path"]
    if path.fields[pn.index("leading_colon")].variant != 0:
        return False
    segs = punct_items(path.fields[pn.index("segments")])
    if len(segs) != 1:
        return False
    ident = segs[0].fields[0]
    return seq_eq(I, list(ident.s.chars), [ord(c) for c in TS])


def case_strip(case):
    tname, preset = case
    P = prog()
    L = P.layout
    I = new_interp(P)
    res = {"paths": 0, "violations": [], "case": list(case)}
    n = NSLOTS[tname]
    src = TEMPLATES[tname]

    slot_len = preset or len(TS)

    def slot_chars(i):
        return [z3.BitVec("a%d_%d" % (i, j), 32) for j in range(slot_len)]

    def entry(I):
        f = synast.parse_source(P, src)
        mapping = {"PLA9": [ord(c) for c in TS]}
        for i in range(n):
            cs = slot_chars(i)
            for c in cs:
                I.assume(z3.Or(z3.And(z3.UGE(c, 97), z3.ULE(c, 122)), c == 95))
            mapping["PLA%d" % i] = cs
        synast.plant(f, mapping)
        item = synast.file_items(P, f)[0]
        di = derive_input(P, item)
        before = [(w, h, list(h.fields[0].items)) for w, h in members(P, di)]
        item_attrs = list(di.fields[0].items)
        import copy
        snapshot = copy.deepcopy(di)
        cell = [di]
        I.call_static("strip_configuration_attribute", [Ref(cell, 0)])
        return cell[0], before, item_attrs, snapshot

    for kind, out, pc in I.explore(entry, max_paths=3000):
        res["paths"] += 1
        if kind == "panic":
            res["violations"].append({"kind": "panic", "msg": out.msg}); continue
        di, before, item_attrs, snap = out

        def names(m):
            return ["".join(chr(m.eval(c, model_completion=True).as_long()) for c in slot_chars(i)) for i in range(n)]
        # item level untouched
        if [id(a) for a in di.fields[0].items] != [id(a) for a in item_attrs]:
            m = I.sat_model(z3.BoolVal(True))
            res["violations"].append({"kind": "item-attributes-changed", "names": names(m)})
        after = members(P, di)
        if [w for w, _ in after] != [w for w, _, _ in before]:
            m = I.sat_model(z3.BoolVal(True))
            res["violations"].append({"kind": "members-changed", "names": names(m)}); continue
        for (w, h, orig), (_, h2) in zip(before, after):
            now = list(h2.fields[0].items)
            ids = [id(a) for a in now]
            # order kept, nothing invented
            pos = [k for k, a in enumerate(orig) if id(a) in ids]
            if len(pos) != len(now) or [id(orig[k]) for k in pos] != ids:
                m = I.sat_model(z3.BoolVal(True))
                res["violations"].append({"kind": "attributes-reordered-or-invented", "where": w, "names": names(m)}); continue
            for k, a in enumerate(orig):
                kept = id(a) in ids
                is_ts = attr_name_is_ts(I, P, a)
                # kept <=> not typeshare
                bad = is_ts if kept else (z3.Not(is_ts) if not isinstance(is_ts, bool) else (not is_ts))
                m = (I.sat_model(z3.BoolVal(True)) if bad else None) if isinstance(bad, bool) else I.sat_model(bad)
                if m is not None:
                    res["violations"].append({"kind": "typeshare-attribute-kept" if kept else "other-attribute-removed", "where": w, "index": k, "names": names(m)})
        # everything else equal to the snapshot
        strip_attrs(P, di); strip_attrs(P, snap)
        e = eqf(di, snap)
        if e is not True:
            m = I.sat_model(z3.Not(e)) if not isinstance(e, bool) else I.sat_model(z3.BoolVal(True))
            if m is not None:
                res["violations"].append({"kind": "item-changed-beyond-attributes", "names": names(m)})
    uniq = {}
    for v in res["violations"]:
        uniq.setdefault((v["kind"], v.get("where")), v)
    res["violations"] = list(uniq.values())
    return finish_case(I, res)


# ---- the macro's wrapper function, with proc_macro::TokenStream modelled as an opaque value carrying the item's AST ----------
class ItemTokens:
    """proc_macro::TokenStream of one item: carries the syn::Item value syn::parse would see"""
    type_name = "TokenStream"

    def __init__(self, item):
        self.item = item

    def clone(self, I):
        import copy
        return ItemTokens(copy.deepcopy(self.item))


_WRAPPER_MODELS = False


def install_wrapper_models():
    """models that only this harness needs; they take precedence over the generic ToTokens / clone models"""
    global _WRAPPER_MODELS
    if _WRAPPER_MODELS:
        return
    _WRAPPER_MODELS = True
    from vlib.mirsym.models_core import model, MODELS
    import copy
    n0 = len(MODELS)

    @model(r"^syn::parse$")
    def syn_parse_derive(I, a, n):
        if "DeriveInput" not in n:
            raise Unsupported("syn::parse of " + n)
        ts = unbox(a[0])
        L = I.prog.layout
        kind = L.syn_enums["Item"][ts.item.variant]
        if kind not in ("Struct", "Enum", "Union"):
            return ERR(Opaque("syn::Error", "expected one of: `struct`, `enum`, `union`"))
        return OK(derive_input(I.prog, copy.deepcopy(ts.item)))

    @model(r"^<proc_macro::TokenStream as std::clone::Clone>::clone$")
    def ts_clone(I, a, n):
        v = unbox(a[0])
        return v.clone(I) if isinstance(v, ItemTokens) else v

    @model(r"^<syn::DeriveInput as quote::ToTokens>::(to_token_stream|into_token_stream)$")
    def di_to_tokens(I, a, n):
        return Opaque("TokenStream2", copy.deepcopy(unbox(a[0])))

    @model(r"^<proc_macro::TokenStream as std::convert::From<proc_macro2::TokenStream>>::from$|^<proc_macro::TokenStream as std::convert::From>::from$|^<proc_macro2::TokenStream as std::convert::Into<proc_macro::TokenStream>>::into$|^<proc_macro2::TokenStream as std::convert::Into>::into$")
    def ts_from_ts2(I, a, n):
        return a[0]
    new = MODELS[n0:]
    del MODELS[n0:]
    MODELS[0:0] = new


WRAPPER_ITEMS = {
    "struct": TEMPLATES["struct-named"], "enum": TEMPLATES["enum-variant-then-fields"], "union": TEMPLATES["union"],
    "type-alias": "#[PLA0]\npub type T = Vec<u32>;", "const": "pub const T: u32 = 1;", "fn": "pub fn t() {}",
}


def case_wrapper(case):
    """`typeshare(attr, item)`: for struct/enum/union the returned tokens are the stripped DeriveInput; every other item is handed back untouched"""
    kind, slot_len = case
    P = prog()
    L = P.layout
    I = new_interp(P)
    install_wrapper_models()
    res = {"paths": 0, "violations": [], "case": list(case)}
    src = WRAPPER_ITEMS[kind]
    n = max([int(x[0]) for x in src.split("PLA")[1:] if x[0] != "9"] + [-1]) + 1

    def slot_chars(i):
        return [z3.BitVec("a%d_%d" % (i, j), 32) for j in range(slot_len)]

    def entry(I):
        f = synast.parse_source(P, src)
        mapping = {"PLA9": [ord(c) for c in TS]}
        for i in range(n):
            cs = slot_chars(i)
            for c in cs:
                I.assume(z3.Or(z3.And(z3.UGE(c, 97), z3.ULE(c, 122)), c == 95))
            mapping["PLA%d" % i] = cs
        synast.plant(f, mapping)
        item = synast.file_items(P, f)[0]
        tokens = ItemTokens(item)
        out = I.call_static("typeshare", [Opaque("TokenStream", "attr"), tokens])
        return tokens, out

    for kind_, out, pc in I.explore(entry, max_paths=3000):
        res["paths"] += 1
        if kind_ == "panic":
            res["violations"].append({"kind": "panic", "msg": out.msg}); continue
        tokens, ret = out
        ret = unbox(ret)
        derivable = kind in ("struct", "enum", "union")
        m0 = lambda: ["".join(chr(I.sat_model(z3.BoolVal(True)).eval(c, model_completion=True).as_long()) for c in slot_chars(i)) for i in range(n)]
        if not derivable:
            if ret is not tokens:
                res["violations"].append({"kind": "non-derive-item-not-passed-through", "names": m0()})
            continue
        if not (isinstance(ret, Opaque) and ret.what == "TokenStream2"):
            # the original tokens came back: fine only if there was nothing to strip on this path
            di = derive_input(P, tokens.item)
            anything = False
            for w, h in members(P, di):
                for a in h.fields[0].items:
                    c = attr_name_is_ts(I, P, a)
                    if c is True or (c is not False and I.sat_model(c) is not None):
                        anything = True
            if anything:
                res["violations"].append({"kind": "typeshare-attribute-kept", "where": "wrapper returned the input unchanged", "names": m0()})
            continue
        di = ret.data
        for w, h in members(P, di):
            for a in h.fields[0].items:
                c = attr_name_is_ts(I, P, a)
                m = I.sat_model(z3.BoolVal(True)) if c is True else (None if c is False else I.sat_model(c))
                if m is not None:
                    res["violations"].append({"kind": "typeshare-attribute-kept", "where": w, "names": ["".join(chr(m.eval(c2, model_completion=True).as_long()) for c2 in slot_chars(i)) for i in range(n)]})
        # nothing but typeshare attributes went missing: compare with the original
        orig = derive_input(P, tokens.item)
        for (w, h), (_, h0) in zip(members(P, di), members(P, orig)):
            kept = len(h.fields[0].items)
            total = len(h0.fields[0].items)
            ts_count = 0
            sym = []
            for a in h0.fields[0].items:
                c = attr_name_is_ts(I, P, a)
                if c is True:
                    ts_count += 1
                elif c is not False:
                    sym.append(c)
            # on this path every symbolic comparison has been decided by a branch: count the ones forced true
            forced = sum(1 for c in sym if I.sat_model(z3.Not(c)) is None)
            if kept != total - ts_count - forced:
                m = I.sat_model(z3.BoolVal(True))
                res["violations"].append({"kind": "other-attribute-removed", "where": w, "names": ["".join(chr(m.eval(c2, model_completion=True).as_long()) for c2 in slot_chars(i)) for i in range(n)]})
    uniq = {}
    for v in res["violations"]:
        uniq.setdefault((v["kind"], v.get("where")), v)
    res["violations"] = list(uniq.values())
    return finish_case(I, res)


def strip_attrs(P, di):
    for w, h in members(P, di):
        h.fields[0] = RVec([])


def run(rep, tier, only=None):
    prog()
    t0 = time.time()
    selftest(rep)
    cases = [(t, ln) for t in TEMPLATES for ln in ((9, 10) if tier == "quick" else (8, 9, 10, 11))]
    rep.bounds = {"templates": sorted(TEMPLATES), "attribute slots": "up to 5 per template, each with a symbolic path name over [a-z_] of length 9 and 10 (thorough: 8..11), so `typeshare`, every near miss, and every name that merely starts or ends with it is a value, next to concrete serde / doc / cfg / derive / typeshare attributes",
                  "positions": "struct fields (named, tuple), enum variants, tuple- and struct-variant fields, union fields, item level"}
    rep.outside = ["native replay of the proc-macro wrapper `typeshare` (proc_macro::TokenStream exists only inside rustc): the wrapper is executed from MIR with models for TokenStream / syn::parse / ToTokens, a finding that only the wrapper shows is reported INCONCLUSIVE",
                   "re-tokenisation of the DeriveInput by syn/quote, and what rustc and serde do with the result (compiles exactly when / same serialised form): the twin-program experiment of the property needs the compiler, not a solver",
                   "attribute paths with several segments are concrete only (typeshare::skip, my::typeshare, serde, doc, cfg)"]
    rep.assumptions = ["DeriveInput values are built from the real syn's Item AST of each template (same field content syn::parse::<DeriveInput> produces)",
                       "syn Path -> to_token_stream().to_string() model: single identifier prints as itself"]
    wcases = [(k, 9) for k in WRAPPER_ITEMS]
    rep.harnesses["wrapper"] = len(wcases)
    rep.bounds["wrapper"] = "the macro function `typeshare` itself on a struct, an enum, a union (stripped DeriveInput comes back) and on a type alias, a const and a fn (input handed back untouched); proc_macro::TokenStream, syn::parse::<DeriveInput> and ToTokens are models"
    for st, case, r in pmap(("checks.c19", "case_wrapper"), wcases):
        rep.obligations += 1
        if st != "ok":
            rep.inconc("wrapper %s: %s" % (case, r)); continue
        account(rep, r); rep.discharged += 1
        for v in r["violations"]:
            # the wrapper cannot be run outside rustc: a violation found only here is reported as inconclusive unless the kernel replay confirms it
            tn = {"struct": "struct-named", "enum": "enum-variant-then-fields", "union": "union"}.get(case[0])
            ok, why, payload = native(tn, v) if tn else (None, "the proc-macro wrapper cannot be replayed outside rustc", None)
            rep.validated += 1
            sig = {"group": "wrapper", "kind": v["kind"], "item": case[0]}
            if ok:
                rep.violation(sig, why, payload)
            else:
                rep.inconc("wrapper %s: %s - not reproducible through the stripping kernel (%s); the macro function itself cannot be replayed outside rustc" % (case, v, why))
    rep.harnesses["strip"] = len(cases)
    for st, case, r in pmap(("checks.c19", "case_strip"), cases):
        rep.obligations += 1
        if st != "ok":
            rep.inconc("strip %s: %s" % (case, r)); continue
        account(rep, r); rep.discharged += 1
        if not r["violations"]:
            rep.sample({"group": "strip", "case": case[0], "paths": r["paths"], "verdict": "exactly the typeshare attributes removed on every path (unsat otherwise)"})
            continue
        for v in r["violations"]:
            sig = {"group": "strip", "kind": v["kind"], "template": case[0], "where": v.get("where")}
            ok, why, payload = native(case[0], v)
            rep.validated += 1
            if ok:
                rep.violation(sig, why, payload)
            elif ok is None:
                rep.inconc("replay failed for %s: %s (%s)" % (case, why, v))
            else:
                rep.inconc("engine mismatch %s: %s; %s" % (case, v, why))
    rep.extra["explore_s"] = round(time.time() - t0, 1)


# ---- native: the real strip_configuration_attribute, compiled from /repo/annotation/src/lib.rs next to a driver --------
def build_anndrv():
    import os
    from vlib.common import CACHE, REPO, VERIF, run as sh
    src = os.path.join(CACHE, "anndrv-src")
    os.makedirs(os.path.join(src, "src"), exist_ok=True)
    text = open(os.path.join(REPO, "annotation", "src", "lib.rs")).read()
    if "#[proc_macro_attribute]" not in text or "fn strip_configuration_attribute" not in text:
        raise Inconclusive("annotation/src/lib.rs: expected items not found, the native driver cannot be composed")
    text = text.replace("#[proc_macro_attribute]", "#[allow(dead_code)]")
    text += '''

// ---- /verif replay driver: reads one Rust item per line (JSON string) and prints the stripped item ----
fn main() {
    use std::io::BufRead;
    for line in std::io::stdin().lock().lines() {
        let line = line.unwrap();
        let req: (String, bool) = serde_json::from_str(&line).unwrap();
        let (src, strip) = req;
        match syn::parse_str::<DeriveInput>(&src) {
            Ok(mut item) => {
                if strip {
                    strip_configuration_attribute(&mut item);
                }
                println!("{}", serde_json::to_string(&item.to_token_stream().to_string()).unwrap());
            }
            Err(e) => println!("{}", serde_json::to_string(&format!("ERR {e}")).unwrap()),
        }
    }
}
'''
    def put(path, t):
        old = open(path).read() if os.path.exists(path) else None
        if old != t:
            open(path, "w").write(t)
    put(os.path.join(src, "src", "main.rs"), text)
    put(os.path.join(src, "Cargo.toml"), '[package]\nname = "anndrv"\nversion = "0.0.0"\nedition = "2021"\npublish = false\n\n[workspace]\n\n[dependencies]\nsyn = { version = "2", features = ["parsing", "proc-macro", "derive", "printing", "full"] }\nquote = "1.0"\nproc-macro2 = "1"\nserde_json = "1"\n')
    put(os.path.join(src, "Cargo.lock"), open(os.path.join(REPO, "Cargo.lock")).read())
    tdir = os.path.join(CACHE, "anndrv")
    rc, out, _ = sh(["cargo", "build", "--offline", "--target-dir", tdir], cwd=src, timeout=1800)
    if rc != 0:
        raise Inconclusive("annotation driver build failed:\\n" + out[-3000:])
    return os.path.join(tdir, "debug", "anndrv")


def real_strip(srcs, strip=True):
    """strip=True: the real strip_configuration_attribute; strip=False: only parse + print with the same syn/quote"""
    import json, subprocess
    exe = build_anndrv()
    p = subprocess.run([exe], input="".join(json.dumps([s, strip]) + "\n" for s in srcs), capture_output=True, text=True, timeout=120)
    outs = [json.loads(l) for l in p.stdout.splitlines()]
    if len(outs) != len(srcs):
        raise Inconclusive("annotation driver died: " + p.stderr[-500:])
    return outs


def expected_text(src, names):
    """the item with exactly the member-level typeshare attributes removed, printed by the same syn (via the driver on a
    pre-stripped source would be circular): computed textually on the token string instead"""
    import re
    return None


def concrete_source(tname, names):
    src = TEMPLATES[tname].replace("PLA9", TS)
    for i, nm in enumerate(names):
        src = src.replace("PLA%d" % i, nm)
    return src


def split_attrs(text):
    """token string -> list of (attribute text) in order of appearance, and the text without attributes"""
    import re
    return re.findall(r"# \[[^\]]*\]", text)


def oracle_tokens(tname, names):
    """expected token string: print the ORIGINAL item through the same syn/quote (driver with a typeshare-free copy) and compare
    attribute lists: item-level attributes all kept; member-level attributes kept iff their path is not `typeshare`"""
    src = concrete_source(tname, names)
    # rename every member-level `typeshare` path to a sentinel that the driver keeps, print, then drop the sentinels textually
    head, sep, body = src.partition("{") if "{" in src else src.partition("(")
    if not sep:
        return src, None
    import re
    body2 = re.sub(r"#\[typeshare(?=[\](])", "#[zzsentinel", body)   # exactly the path `typeshare` (not typeshare::x, typeshare_x)
    return src, head + sep + body2


def native(tname, v):
    names = v.get("names") or []
    src, marked = oracle_tokens(tname, names)
    if marked is None:
        outs = real_strip([src, src.replace("#[" + TS, "#[zzkeep")])
        return (False, "unit struct: nothing to strip", None)
    got = real_strip([src])[0]
    ref = real_strip([marked], strip=False)[0]
    import re
    # reference: the marked item printed (NOT stripped) by the same syn/quote, with the sentinel attributes deleted
    want = re.sub(r"# \[zzsentinel[^\]]*\] ", "", ref)
    payload = {"template": tname, "names": names}
    if got != want:
        return True, "strip_configuration_attribute on `%s` gives `%s`, expected `%s`" % (src, got, want), payload
    return False, "the real strip_configuration_attribute removes exactly the typeshare attributes of `%s`" % src, None


def interp_attr_names(tname, names):
    """concrete run of the MIR interpreter: attribute path names left on the item, in document order"""
    P = prog()
    L = P.layout
    I = new_interp(P)

    def entry(I):
        f = synast.parse_source(P, concrete_source(tname, names))
        di = derive_input(P, synast.file_items(P, f)[0])
        cell = [di]
        I.call_static("strip_configuration_attribute", [Ref(cell, 0)])
        return cell[0]
    outs = list(I.explore(entry, max_paths=3))
    if len(outs) != 1 or outs[0][0] != "ok":
        raise Inconclusive("C19 selftest: concrete run of %s forked or panicked: %r" % (tname, outs))
    di = outs[0][1]

    def nm(attr):
        meta = attr.fields[L.syn_structs["Attribute"].index("meta")]
        mk = L.syn_enums["Meta"][meta.variant]
        path = meta.fields[0] if mk == "Path" else meta.fields[0].fields[0]
        return "::".join(pystr(sg.fields[0].s) for sg in punct_items(path.fields[L.syn_structs["Path"].index("segments")]))
    out = [nm(a) for a in di.fields[0].items]
    for w, h in members(P, di):
        out += [nm(a) for a in h.fields[0].items]
    return out


def selftest(rep):
    """translator validation: concrete items through the MIR interpreter and through the real function must leave the
    same attributes (a disagreement means the encoding is wrong: INCONCLUSIVE, never a verdict)"""
    import re
    n = 0
    jobs = []
    for tname in TEMPLATES:
        for names in ([TS] * NSLOTS[tname], ["serde_xyz"] * NSLOTS[tname], [TS if i % 2 else "typeshar_" for i in range(NSLOTS[tname])]):
            jobs.append((tname, names))
    reals = real_strip([concrete_source(t, nm) for t, nm in jobs])
    for (tname, names), real in zip(jobs, reals):
        mine = interp_attr_names(tname, names)
        theirs = [m.replace(" ", "") for m in re.findall(r"# \[([\w: ]+?) ?[\(\]=]", real)]
        if mine != theirs:
            raise Inconclusive("C19 selftest: %s with %s: interpreter leaves %s, the real function leaves %s" % (tname, names, mine, theirs))
        n += 1
    rep.extra["selftest"] = "%d concrete items: attributes left by the MIR interpreter == attributes left by the real strip_configuration_attribute" % n


def replay(body):
    c = body["case"]
    ok, why, _ = native(c["template"], {"names": c["names"]})
    print(why)
    return 1 if ok else 0
