"""C12 - every helper name typeshare introduces into a file is defined or imported there.

Engine M: generate_types (incl. begin_file / end_file / write_all_imports / write_unsigned_aliases /
add_import* / add_type_var / get_codable_contents) of the back ends is executed from MIR on one item
whose trigger type sits at a forked position under 0-2 wrappers; for Swift's folder mode two crates are
generated with one language value followed by post_generation on a file-system model.  User identifiers
are symbolic letters.  Oracle: use/def analysis of the output per language (CPython's `ast` for Python).
"""
import ast
import builtins
import itertools
import re
import time

import z3

from vlib.common import Inconclusive, seed
from vlib.harness import Replayer, pmap
from vlib.mirsym.engine import new_interp
from vlib.mirsym.selftest import parser_selftest, backend_selftest
from vlib.mirsym.ir import IR
from vlib.mirsym import bharness
from vlib.mirsym.models_fs import Fs
from vlib.mirsym.values import *  # noqa
from vlib import extract, lexers
from checks.pcommon import prog, account, finish_case

LANGS = ["swift", "scala", "python", "go", "typescript", "kotlin"]
TRIGGERS = ["unit", "u8", "u16", "u32", "U53", "i32", "option", "vec", "map", "datetime", "generic", "bytes", "string"]
POSITIONS = ["field", "field_default", "field_keyword", "field_foreign_override", "newtype", "alias", "generic_arg", "struct_variant_field", "generic_alias"]
WRAPS = [(), ("vec",), ("option",), ("map",), ("vec", "vec"), ("option", "vec"), ("vec", "option"), ("map", "vec"), ("array",), ("slice",), ("array", "vec"), ("mapkey",), ("vec", "mapkey"), ("map", "mapkey")]


def trig_type(ir, trig):
    return {"unit": lambda: ir.special("Unit"), "u8": lambda: ir.special("U8"), "u16": lambda: ir.special("U16"), "u32": lambda: ir.special("U32"),
            "U53": lambda: ir.special("U53"), "i32": lambda: ir.special("I32"), "option": lambda: ir.option(ir.special("String")),
            "vec": lambda: ir.vec(ir.special("String")), "map": lambda: ir.hashmap(ir.special("String"), ir.special("Bool")),
            "datetime": lambda: ir.special("DateTime"), "generic": lambda: ir.simple("T"), "bytes": lambda: ir.vec(ir.special("U8")),
            "mapped_date": lambda: ir.simple("DateTime"), "mapped_bytes_user": lambda: ir.simple("Bytes"), "string": lambda: ir.special("String"), "user": lambda: ir.simple("Other")}[trig]()


def wrap(ir, t, ws):
    for w in reversed(ws):
        if w == "vec":
            t = ir.vec(t)
        elif w == "option":
            t = ir.option(t)
        elif w == "map":
            t = ir.hashmap(ir.special("String"), t)
        elif w == "mapkey":
            t = ir.hashmap(t, ir.special("String"))
        elif w == "array":
            t = ir.array(t, 2)
        elif w == "slice":
            t = ir.slice(t)
    return t


def build_pd(ir, trig, pos, ws, name_chars, crate="", file_name="", multi=False):
    pd = _build_pd(ir, trig, pos, ws, name_chars, crate, file_name)
    if multi:
        names = ir.L.structs["ParsedData"]
        pd.fields[names.index("multi_file")] = True
    return pd


def _build_pd(ir, trig, pos, ws, name_chars, crate="", file_name=""):
    ty = wrap(ir, trig_type(ir, trig), ws)
    gens = ["T"] if trig == "generic" else []
    nm = RString(list(name_chars))
    if pos == "field":
        return ir.parsed_data(structs=[ir.struct(nm, [ir.field("f", ty)], generics=gens)], crate=crate, file_name=file_name)
    if pos == "field_default":
        return ir.parsed_data(structs=[ir.struct(nm, [ir.field("f", ty, has_default=True)], generics=gens)], crate=crate, file_name=file_name)
    if pos == "field_keyword":
        # a field whose Rust name is a keyword of a target language (Python: `from` is written `from_` with an alias)
        return ir.parsed_data(structs=[ir.struct(nm, [ir.field("from", ty)], generics=gens)], crate=crate, file_name=file_name)
    if pos == "field_foreign_override":
        # a type override for ANOTHER language (Kotlin) leaves this language's field as it is
        L = ir.L
        decs = lambda lv: RMap("HashMap", [[EnumV("language::SupportedLanguage", L.enums["SupportedLanguage"].index(lv), []),
                                            RMap("BTreeSet", [[L.make_adt("rust_types::FieldDecorator::NameValue", [S("type"), S("Ovr")], None), UNIT]])]])
        return ir.parsed_data(structs=[ir.struct(nm, [ir.field("f", ty, decorators=decs("Kotlin"))], generics=gens)], crate=crate, file_name=file_name)
    if pos == "newtype":
        return ir.parsed_data(enums=[ir.enum_alg(nm, [ir.v_unit("U"), ir.v_tuple("N", ty)], generics=gens)], crate=crate, file_name=file_name)
    if pos == "alias":
        return ir.parsed_data(aliases=[ir.alias(nm, ty)], crate=crate, file_name=file_name)
    if pos == "generic_alias":
        return ir.parsed_data(aliases=[ir.alias(nm, ty, generics=gens or ["T"])], crate=crate, file_name=file_name)
    if pos == "generic_arg":
        return ir.parsed_data(structs=[ir.struct(nm, [ir.field("f", ir.generic("Wrap", [ty]))], generics=gens)], crate=crate, file_name=file_name)
    return ir.parsed_data(enums=[ir.enum_alg(nm, [ir.v_unit("U"), ir.v_anon("S", [ir.field("f", ty)])], generics=gens)], crate=crate, file_name=file_name)


def cfg_for(lang, trig):
    if trig == "mapped_date":
        return {"type_mappings": {"DateTime": {"typescript": "Date", "python": "datetime", "go": "time.Time", "swift": "Date", "kotlin": "Instant", "scala": "Instant"}[lang]}}
    if trig == "bytes" and lang == "typescript":
        return {"type_mappings": {"Vec<u8>": "Uint8Array"}}
    if trig == "mapped_bytes_user" and lang == "typescript":
        return {"type_mappings": {"Bytes": "Uint8Array"}}
    if trig == "bytes" and lang == "python":
        return {"type_mappings": {"Vec<u8>": "bytes"}}
    return {}


PY_BUILTINS = set(dir(builtins))
PY_HELPERS = {"List", "Dict", "Optional", "Literal", "Union", "Generic", "TypeVar", "Any", "Annotated", "Tuple", "Set", "BaseModel", "Field", "ConfigDict",
              "BeforeValidator", "PlainSerializer", "AfterValidator", "Enum", "datetime", "date", "annotations"}


def py_helper(nm):
    return nm in PY_HELPERS or nm.startswith(("serialize_", "deserialize_")) or (len(nm) == 1 and nm.isupper())


def python_problems(text):
    """names used eagerly before definition / names never defined or imported"""
    try:
        mod = ast.parse(text)
    except SyntaxError as e:
        return ["python output does not parse: %s" % e]
    defined = set()
    problems = []
    all_defs = set()
    for node in ast.walk(mod):
        if isinstance(node, (ast.ClassDef, ast.FunctionDef)):
            all_defs.add(node.name)
        elif isinstance(node, ast.Assign):
            for t in node.targets:
                for n in ast.walk(t):
                    if isinstance(n, ast.Name):
                        all_defs.add(n.id)
        elif isinstance(node, (ast.Import, ast.ImportFrom)):
            for a in node.names:
                all_defs.add((a.asname or a.name).split(".")[0])

    def eager_names(expr):
        return [n.id for n in ast.walk(expr) if isinstance(n, ast.Name) and isinstance(n.ctx, ast.Load)]
    for st in mod.body:
        if isinstance(st, (ast.Import, ast.ImportFrom)):
            for a in st.names:
                defined.add((a.asname or a.name).split(".")[0])
            continue
        eager = []
        if isinstance(st, ast.ClassDef):
            for b in st.bases + [k.value for k in st.keywords] + st.decorator_list:
                eager += eager_names(b)
            for inner in st.body:
                if isinstance(inner, ast.AnnAssign) and inner.value is not None:
                    eager += eager_names(inner.value)
                elif isinstance(inner, ast.Assign):
                    eager += eager_names(inner.value)
                # annotations are lazy (from __future__ import annotations) but must resolve somewhere in the module
                if isinstance(inner, ast.AnnAssign):
                    for nm in eager_names(inner.annotation):
                        if py_helper(nm) and nm not in all_defs and nm not in PY_BUILTINS:
                            problems.append("annotation name `%s` is never defined or imported" % nm)
        elif isinstance(st, ast.Assign):
            eager += eager_names(st.value)
            for t in st.targets:
                if not isinstance(t, ast.Name):
                    eager += [n.id for n in ast.walk(t) if isinstance(n, ast.Name)]
        elif isinstance(st, ast.FunctionDef):
            for d in st.decorator_list:
                eager += eager_names(d)
        elif isinstance(st, ast.Expr):
            eager += eager_names(st.value)
        for nm in eager:
            if py_helper(nm) and nm not in defined and nm not in PY_BUILTINS:
                problems.append("name `%s` is used at module load before it is defined or imported" % nm)
        if isinstance(st, (ast.ClassDef, ast.FunctionDef)):
            defined.add(st.name)
        elif isinstance(st, ast.Assign):
            for t in st.targets:
                if isinstance(t, ast.Name):
                    defined.add(t.id)
    return sorted(set(problems))


def problems_for(lang, text, extra_files=None):
    out = []
    if lang == "swift":
        body = re.sub(r"public struct CodableVoid[^\n]*", "", text)
        uses = "CodableVoid" in body
        defined = "public struct CodableVoid" in text or any("public struct CodableVoid" in t for t in (extra_files or {}).values())
        if uses and not defined:
            out.append("`CodableVoid` is used but not defined in the output")
    elif lang == "scala":
        code = lexers.strip_c_like(text, nested=True, backtick="ident")
        for al in ("UByte", "UShort", "UInt", "ULong"):
            used = re.search(r"(?<![\w.])%s(?!\w)" % al, re.sub(r"^type %s = \w+$" % al, "", code, flags=re.M))
            if used and not re.search(r"^type %s = \w+$" % al, code, re.M):
                out.append("`%s` is used but no alias is defined" % al)
    elif lang == "python":
        out += python_problems(text)
    elif lang == "go":
        code = lexers.strip_c_like(text, nested=False, backtick="raw")
        imports = set(re.findall(r'^import "([^"]+)"$', code, re.M))
        blk = re.search(r"^import \(\n((?:\t\"[^\"]+\"\n)*)\)", code, re.M)
        if blk:
            imports |= set(re.findall(r'"([^"]+)"', blk.group(1)))
        for pkg, path in (("time", "time"), ("json", "encoding/json")):
            if re.search(r"(?<![\w.\"])%s\.\w" % pkg, code) and path not in imports:
                out.append("package `%s` is used but \"%s\" is not imported" % (pkg, path))
    elif lang == "typescript":
        # the reviver/replacer helpers are offered to the user, generated code refers to them only in their own definition
        body = re.sub(r"export const (ReviverFunc|ReplacerFunc)\b", "", text)
        for h in ("ReviverFunc", "ReplacerFunc"):
            if re.search(r"\b%s\b" % h, lexers.strip_c_like(body, backtick="template")) and ("export const " + h) not in text:
                out.append("`%s` is used but not defined" % h)
        # a field whose type is one of the custom-translated types (registered by write_field) needs the helpers that translate it
        code = lexers.strip_c_like(text, backtick="template")
        fm = re.search(r"^\t(?:readonly )?[\w\"-]+\??: (Uint8Array|Date)(?: \| null)?;$", code, re.M)
        if fm:
            for h in ("ReviverFunc", "ReplacerFunc"):
                if ("export const " + h) not in text:
                    out.append("a field of type `%s` is generated but `%s` is not defined in the same output" % (fm.group(1), h))
    elif lang == "kotlin":
        for ann, imp in (("@Serializable", "kotlinx.serialization.Serializable"), ("@SerialName", "kotlinx.serialization.SerialName"), ("@JvmInline", "kotlin.jvm.JvmInline")):
            if ann in text and ("import " + imp) not in text:
                out.append("`%s` is used but `%s` is not imported" % (ann, imp))
    return out


def case_single(case):
    lang, trig, pos, ws = case
    P = prog()
    ir = IR(P.layout)
    I = new_interp(P)
    res = {"paths": 0, "violations": [], "case": [lang, trig, pos, list(ws)]}
    cfg = cfg_for(lang, trig)
    if lang == "kotlin":
        cfg = dict(cfg, package="com.a.b", no_version_header=False)

    def entry(I):
        nm = [z3.BitVec("n%d" % i, 32) for i in range(3)]
        I.assume(z3.And(z3.UGE(nm[0], 65), z3.ULE(nm[0], 90)))
        for c in nm[1:]:
            I.assume(z3.And(z3.UGE(c, 97), z3.ULE(c, 122)))
        pd = build_pd(ir, trig, pos, ws, nm)
        ok, w, _ = bharness.generate(I, lang, pd, cfg)
        return ok, w

    for kind, out, pc in I.explore(entry, max_paths=300):
        res["paths"] += 1
        if kind == "panic":
            res["violations"].append({"kind": "panic", "msg": out.msg}); continue
        ok, w = out
        if not ok:
            res.setdefault("skipped", []).append("format error reported to the user"); continue
        m = I.sat_model()
        text = "".join(chr(c) if isinstance(c, int) else chr(m.eval(c, model_completion=True).as_long()) for c in w.chars)
        for p in problems_for(lang, text):
            res["violations"].append({"kind": "undefined-helper", "problem": p, "text": text[:1500]})
    return finish_case(I, res)


def case_ts_folder(case):
    """TypeScript in folder mode (ParsedData.multi_file): the module that holds a custom-translated field defines the helpers"""
    trig, pos, ws, multi = case
    P = prog()
    ir = IR(P.layout)
    I = new_interp(P)
    res = {"paths": 0, "violations": [], "case": [trig, pos, list(ws), multi]}
    cfg = cfg_for("typescript", trig)

    def entry(I):
        pd = build_pd(ir, trig, pos, ws, [ord(c) for c in "Abc"], crate="app" if multi else "", file_name="app.ts" if multi else "", multi=multi)
        ok, w, _ = bharness.generate(I, "typescript", pd, cfg)
        return ok, bharness.concrete_text(w)

    for kind, out, pc in I.explore(entry, max_paths=50):
        res["paths"] += 1
        if kind == "panic":
            res["violations"].append({"kind": "panic", "msg": out.msg}); continue
        ok, text = out
        if not ok:
            continue
        if not re.search(r"\b(Uint8Array|Date)\b", text):
            res["violations"].append({"kind": "vacuous", "problem": "the mapped type does not occur in the output", "text": text[:400]}); continue
        for p in problems_for("typescript", text):
            res["violations"].append({"kind": "undefined-helper", "problem": p + (" (folder mode)" if multi else ""), "text": text[:800]})
    return finish_case(I, res)


def case_swift_multi(case):
    """folder mode: two crates generated with one Swift value, then post_generation"""
    trig, pos, ws, order = case
    P = prog()
    ir = IR(P.layout)
    I = new_interp(P)
    res = {"paths": 0, "violations": [], "case": [trig, pos, list(ws), order]}

    def entry(I):
        fs = Fs()
        fs.add_dir("/out")
        I.env["fs"] = fs
        lg = bharness.make_lang(I, "swift", {}, multi_file=True)
        a = build_pd(ir, trig, pos, ws, [ord(c) for c in "Abc"], crate="alpha", file_name="Alpha.swift")
        b = build_pd(ir, "string", "field", (), [ord(c) for c in "Bcd"], crate="beta", file_name="Beta.swift")
        pds = [a, b] if order == "trigger_first" else [b, a]
        texts = {}
        for k, pd in enumerate(pds):
            ok, w, _ = bharness.generate(I, "swift", pd, lang_value=lg)
            texts["file%d" % k] = bharness.concrete_text(w)
        r = I.call_static("<language::swift::Swift as language::Language>::post_generation", [Ref([lg], 0), S("/out")])
        extra = {p: "".join(chr(c) for c in n.data) for p, n in fs.nodes.items() if not n.is_dir}
        return texts, extra, r.variant

    for kind, out, pc in I.explore(entry, max_paths=50):
        res["paths"] += 1
        if kind == "panic":
            res["violations"].append({"kind": "panic", "msg": out.msg}); continue
        texts, extra, rv = out
        for name, text in texts.items():
            for p in problems_for("swift", text, extra):
                res["violations"].append({"kind": "undefined-helper", "problem": p + " (folder mode, %s)" % order, "text": text[:600]})
    return finish_case(I, res)


RUST_T = {"unit": "()", "u8": "u8", "u16": "u16", "u32": "u32", "U53": "U53", "i32": "i32", "option": "Option<String>", "vec": "Vec<String>", "map": "HashMap<String, bool>",
          "datetime": "OffsetDateTime", "generic": "T", "bytes": "Vec<u8>", "mapped_date": "DateTime", "mapped_bytes_user": "Bytes", "string": "String", "user": "Other"}


def render(trig, pos, ws, name="Abc"):
    t = RUST_T[trig]
    for w in reversed(ws):
        t = {"vec": "Vec<%s>", "option": "Option<%s>", "map": "HashMap<String, %s>", "mapkey": "HashMap<%s, String>", "array": "[%s; 2]", "slice": "&'static [%s]"}[w] % t
    g = "<T>" if trig == "generic" else ""
    if pos == "field":
        return "#[typeshare]\npub struct %s%s { pub f: %s }\n" % (name, g, t)
    if pos == "field_default":
        return "#[typeshare]\npub struct %s%s { #[serde(default)] pub f: %s }\n" % (name, g, t)
    if pos == "field_keyword":
        return "#[typeshare]\npub struct %s%s { pub from: %s }\n" % (name, g, t)
    if pos == "field_foreign_override":
        return '#[typeshare]\npub struct %s%s { #[typeshare(kotlin(type = "Ovr"))] pub f: %s }\n' % (name, g, t)
    if pos == "newtype":
        return '#[typeshare]\n#[serde(tag = "type", content = "content")]\npub enum %s%s { U, N(%s) }\n' % (name, g, t)
    if pos == "alias":
        return "#[typeshare]\npub type %s = %s;\n" % (name, t)
    if pos == "generic_alias":
        return "#[typeshare]\npub type %s<T> = %s;\n" % (name, t)
    if pos == "generic_arg":
        return "#[typeshare]\npub struct %s%s { pub f: Wrap<%s> }\n" % (name, g, t)
    return '#[typeshare]\n#[serde(tag = "type", content = "content")]\npub enum %s%s { U, S { f: %s } }\n' % (name, g, t)


def run(rep, tier, only=None):
    P = prog()
    nat = Replayer()
    t0 = time.time()
    rep.validated += parser_selftest(P, nat, limit=10)
    rep.validated += backend_selftest(P, nat, limit=None if tier == "thorough" else 10, configs=False)
    sd = seed()
    cases = []
    for lang in LANGS:
        for trig in TRIGGERS:
            for pi, pos in enumerate(POSITIONS):
                if pos == "generic_alias" and trig not in ("generic", "vec", "option"):
                    continue
                for wi, ws in enumerate(WRAPS):
                    if tier == "quick" and len(ws) == 2 and (wi + pi + sd) % 3:
                        continue
                    if trig == "generic" and pos == "alias":
                        continue
                    cases.append((lang, trig, pos, ws))
    multi = [(trig, pos, ws, order) for trig in ("unit", "string", "u32") for pos in ("field", "newtype", "alias", "struct_variant_field") for ws in WRAPS[:6]
             for order in ("trigger_first", "trigger_last")]
    rep.bounds = {"triggers": TRIGGERS, "positions": POSITIONS, "wrappers": "0-2 of vec/option/map/array/slice (quick: a seed-rotated third of the depth-2 chains)", "languages": LANGS,
                  "swift folder mode": "two crates with one language value, both generation orders, then post_generation on a file-system model"}
    rep.outside = ["unused imports (well-formedness, C10)", "names introduced by user-supplied decorators / type mappings other than Date, Uint8Array, bytes, datetime, time.Time"]
    rep.assumptions = ["Python use/def is decided with CPython's ast on the concretised output (annotations are lazy, bases/defaults/assignments eager)",
                       "helper vocabularies per language are listed in checks/c12.py"]
    reported = set()
    tsf = [(trig, pos, ws, m) for trig in ("bytes", "mapped_date", "mapped_bytes_user") for pos in ("field", "field_default", "struct_variant_field") for ws in ((), ("option",)) for m in (False, True)]
    rep.bounds["typescript custom translations"] = "a field / serde(default) field / struct-variant field of a type mapped to Uint8Array or Date (special-type mapping and user-type mapping), bare or under Option, single-file and folder mode: ReviverFunc and ReplacerFunc are defined in the same output"
    for gname, fn, cs in (("single-file", "case_single", cases), ("swift-folder", "case_swift_multi", multi), ("ts-folder", "case_ts_folder", tsf)):
        if only and gname not in only:
            continue
        rep.harnesses[gname] = len(cs)
        for st, case, r in pmap(("checks.c12", fn), cs):
            rep.obligations += 1
            if st != "ok":
                rep.inconc("%s %s: %s" % (gname, case, r)); continue
            account(rep, r); rep.discharged += 1
            if not r["violations"]:
                if len(rep.samples) < 12 and hash(str(case)) % 29 == 0:
                    rep.sample({"group": gname, "case": str(case), "verdict": r.get("skipped", ["every helper name used is defined/imported"])[0]})
                continue
            v = r["violations"][0]
            if gname == "single-file":
                lang, trig, pos, ws = case
                sig = {"lang": lang, "kind": v["kind"], "trigger": trig, "position": pos, "depth": len(ws), "eff_depth": len(ws) + (1 if trig == "bytes" else 0), "outer": ws[0] if ws else "-", "problem": re.sub(r"`[^`]*`", "`..`", v.get("problem", ""))[:60]}
                key = (lang, trig, v.get("problem", "")[:40], len(ws) > 0, ws[:1], pos in ("alias", "generic_alias"))
                if key in reported:
                    continue
                src = render(trig, pos, ws) + ("#[typeshare]\npub struct Other { pub x: u32 }\n" if trig == "user" else "")
                cfg = dict(bharness.DEFAULT_CFG.get(lang, {}))
                cfg.update(cfg_for(lang, trig))
                if lang == "kotlin":
                    cfg.update(package="com.a.b", no_version_header=False)
                real = nat.ask({"op": "generate", "lang": lang, "files": [{"source": src}], "config": cfg})
                rep.validated += 1
                out = real.get("out", {}).get("", None)
                if v["kind"] == "panic":
                    if "panic" in real or "crash" in real:
                        reported.add(key)
                        rep.violation(sig, "%s panics on `%s`" % (lang, src.replace("\n", " ")), {"source": src, "lang": lang, "config": cfg})
                    else:
                        rep.inconc("engine mismatch (panic) %s" % (case,))
                    continue
                if out is None:
                    rep.inconc("no native output for %s: %s" % (case, str(real)[:200])); continue
                probs = problems_for(lang, out)
                if probs:
                    reported.add(key)
                    rep.violation(sig, "%s on `%s`: %s" % (lang, src.strip().replace("\n", " "), probs[0]), {"source": src, "lang": lang, "config": cfg})
                else:
                    rep.inconc("engine mismatch %s: interpreter output has %r, real output is fine" % (case, v.get("problem")))
            elif gname == "ts-folder":
                trig, pos, ws, multi = case
                if v["kind"] == "vacuous":
                    rep.inconc("ts-folder %s: %s" % (case, v["problem"])); continue
                sig = {"lang": "typescript", "kind": v["kind"], "mode": "folder" if multi else "file", "trigger": trig, "position": pos}
                key = ("ts-folder", trig, multi, pos)
                if key in reported:
                    continue
                src = render(trig, pos, ws)
                cfg = cfg_for("typescript", trig)
                f = {"source": src, "crate_name": "app" if multi else "", "file_name": "app.ts" if multi else "", "file_path": "app/src/lib.rs"}
                real = nat.ask({"op": "generate", "lang": "typescript", "multi_file": multi, "files": [f], "config": cfg})
                rep.validated += 1
                out = (real.get("out") or {}).get("app" if multi else "", None)
                if out is None:
                    rep.inconc("ts-folder replay failed: %s" % str(real)[:200]); continue
                probs = problems_for("typescript", out)
                if probs:
                    reported.add(key)
                    rep.violation(sig, "typescript (%s) on `%s` with type_mappings %s: %s" % ("folder mode" if multi else "single file", src.strip().replace("\n", " "), cfg.get("type_mappings"), probs[0]),
                                  {"ts_folder": True, "file": f, "multi": multi, "config": cfg})
                else:
                    rep.inconc("engine mismatch (ts-folder %s): interpreter %r, real library fine" % (case, v.get("problem")))
            else:
                trig, pos, ws, order = case
                sig = {"lang": "swift", "kind": v["kind"], "mode": "folder", "order": order, "trigger": trig}
                key = ("swift-folder", trig, order)
                if key in reported:
                    continue
                # native replay: the same two crates through the real library in folder mode + post_generation
                import os
                from vlib.common import CACHE
                fa = {"source": render(trig, pos, ws, "Abc"), "crate_name": "alpha", "file_name": "Alpha.swift", "file_path": "alpha/src/lib.rs"}
                fb = {"source": render("string", "field", (), "Bcd"), "crate_name": "beta", "file_name": "Beta.swift", "file_path": "beta/src/lib.rs"}
                if order == "trigger_last":
                    fa["crate_name"], fb["crate_name"] = "zeta", "beta"
                d = os.path.join(CACHE, "tmp", "c12-post-%d" % os.getpid())
                real = nat.ask({"op": "generate", "lang": "swift", "multi_file": True, "files": [fa, fb], "config": {}, "post_generation_dir": d})
                rep.validated += 1
                outs = real.get("out")
                if outs is None:
                    rep.inconc("folder-mode replay failed: %s" % str(real)[:200]); continue
                extra = real.get("post_generation_files", {})
                probs = []
                for nm, text in outs.items():
                    probs += problems_for("swift", text, extra)
                if probs:
                    reported.add(key)
                    rep.violation(sig, "swift folder mode (crates generated in order %s): %s" % (sorted(outs), probs[0]), {"files": [fa, fb], "lang": "swift", "folder": True})
                else:
                    rep.inconc("engine mismatch (swift folder mode %s): interpreter %r, real library fine" % (case, v.get("problem")))
    nat.close()
    rep.extra["explore_s"] = round(time.time() - t0, 1)


def replay(case):
    c = case["case"]
    if c.get("ts_folder"):
        rep = Replayer()
        real = rep.ask({"op": "generate", "lang": "typescript", "multi_file": c["multi"], "files": [c["file"]], "config": c["config"]})
        rep.close()
        out = (real.get("out") or {}).get("app" if c["multi"] else "", "")
        print(out)
        return 1 if problems_for("typescript", out) else 0
    if c.get("folder"):
        import os
        from vlib.common import CACHE
        rep = Replayer()
        real = rep.ask({"op": "generate", "lang": "swift", "multi_file": True, "files": c["files"], "config": {}, "post_generation_dir": os.path.join(CACHE, "tmp", "c12-replay")})
        rep.close()
        print(real.get("out"), real.get("post_generation_files"))
        probs = []
        for nm, text in (real.get("out") or {}).items():
            probs += problems_for("swift", text, real.get("post_generation_files", {}))
        return 1 if probs else 0
    rep = Replayer()
    r = rep.ask({"op": "generate", "lang": c["lang"], "files": [{"source": c["source"]}], "config": c.get("config", {})})
    rep.close()
    out = r.get("out", {}).get("", "")
    print(out or r)
    return 1 if problems_for(c["lang"], out) else 0
