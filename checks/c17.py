"""C17 - re-running is idempotent; output depends only on the latest inputs.

Engine M on the MIR of typeshare-cli + typeshare-core with std::fs replaced by a file-system model
(path -> bytes + mtime token, every mutating operation logged).  The property over histories is decided
by ONE INDUCTIVE STEP from an arbitrary pre-state: the destination file is absent or holds arbitrary
(symbolic) bytes of any length within the bound, the freshly generated output is an arbitrary non-empty
symbolic byte string; after `check_write_file` / `Swift::write_codable_file`
   (i)  if the old content equals the new output: no mutating operation was issued, mtime token unchanged;
   (ii) otherwise the file holds exactly the new output (what a run into an empty location writes).
Because the post-state depends on nothing but the new output, runs of any length follow.
The composition (write_single_file / write_multiple_files / post_generation) is then run with the real back
ends on pairs of IR versions: run(v1); run(v2) must equal fresh run(v2) file by file, and run(v2) again
must issue no mutating operation.
"""
import time

import z3

from vlib.common import Inconclusive
from vlib.harness import pmap
from vlib.mirsym.engine import load_program, new_interp
from vlib.mirsym.models_fs import Fs
from vlib.mirsym.models_misc import RPath
from vlib.mirsym.ir import IR
from vlib.mirsym import bharness
from vlib.mirsym.values import *  # noqa
from checks.pcommon import account, finish_case

_PROG = None
MUT = ("write", "create", "truncate", "remove", "rename", "write-failed", "create-failed")
LANGS = ["typescript", "kotlin", "swift", "scala", "go", "python"]
EXT = {"typescript": "ts", "kotlin": "kt", "swift": "swift", "scala": "scala", "go": "go", "python": "py"}


def prog():
    global _PROG
    if _PROG is None:
        _PROG = load_program(("core", "cli"))
    return _PROG


def sym_bytes(name, n):
    return [z3.BitVec("%s%d" % (name, i), 8) for i in range(n)]


def bytes_eq(I, a, b):
    if len(a) != len(b):
        return False
    cs = []
    for x, y in zip(a, b):
        if isinstance(x, int) and isinstance(y, int):
            if x != y:
                return False
            continue
        xs = x if is_sym(x) else z3.BitVecVal(x, y.size())
        ys = y if is_sym(y) else z3.BitVecVal(y, xs.size())
        if xs.size() != ys.size():
            xs = z3.ZeroExt(32 - xs.size(), xs) if xs.size() < 32 else xs
            ys = z3.ZeroExt(32 - ys.size(), ys) if ys.size() < 32 else ys
        cs.append(xs == ys)
    return z3.And(cs) if cs else True


def decide(I, cond):
    """is `cond` valid on this path? -> None, or a model in which it fails"""
    if isinstance(cond, bool):
        return None if cond else I.sat_model(z3.BoolVal(True))
    return I.sat_model(z3.Not(cond))


def case_step(case):
    """one step of check_write_file from an arbitrary pre-state"""
    target, old_len, new_len, parent_exists = case
    P = prog()
    I = new_interp(P)
    res = {"paths": 0, "violations": [], "case": list(case)}
    path = "/out/gen/file.x"

    def entry(I):
        fs = Fs()
        fs.add_dir("/out")
        if parent_exists or old_len is not None:
            fs.add_dir("/out/gen")
        old = sym_bytes("o", old_len) if old_len is not None else None
        new = sym_bytes("n", new_len)
        if old is not None:
            fs.add_file(path, old, mtime=0)
        I.env["fs"] = fs
        if target == "check_write_file":
            r = I.call_static("writer::check_write_file", [Ref([RPath(S(path))], 0), RVec(list(new), text=True)])
        return fs, old, new, r

    for kind, out, pc in I.explore(entry, max_paths=200):
        res["paths"] += 1
        if kind == "panic":
            res["violations"].append({"kind": "panic", "msg": out.msg}); continue
        fs, old, new, r = out
        if r.variant != 0:
            res["violations"].append({"kind": "error", "msg": repr(r.fields[0])}); continue
        node = fs.nodes.get(path)
        muts = [op for op in fs.log if op[0] in MUT and op[1] == path]
        same = bytes_eq(I, old, new) if old is not None else False
        # which way did this path go?  (i) untouched  (ii) rewritten
        if not muts:
            # untouched is only right when old == new
            m = decide(I, same)
            if m is not None or node is None or node.mtime != 0:
                res["violations"].append(cex(I, m, "stale-content-kept", old, new, node))
            continue
        # touched: must not happen when old == new (mtime promise), and the content must be exactly `new`
        if old is not None:
            m = I.sat_model(same) if not isinstance(same, bool) else (I.sat_model(z3.BoolVal(True)) if same else None)
            if m is not None:
                res["violations"].append(cex(I, m, "rewritten-although-unchanged", old, new, node)); continue
        m = decide(I, bytes_eq(I, node.data, new)) if node is not None else I.sat_model(z3.BoolVal(True))
        if m is not None:
            res["violations"].append(cex(I, m, "content-differs-from-fresh-run", old, new, node))
    return finish_case(I, res)


def cex(I, m, kind, old, new, node):
    def ev(bs):
        if bs is None:
            return None
        out = []
        for b in bs:
            v = b if isinstance(b, int) else (m.eval(b, model_completion=True).as_long() if m is not None else 0)
            out.append(v)
        return out
    return {"kind": kind, "old": ev(old), "new": ev(new), "after": ev(node.data) if node is not None else None}


def case_codable(case):
    """Swift::write_codable_file from an arbitrary pre-state of <folder>/Codable.swift"""
    old_kind, decorators = case
    P = prog()
    I = new_interp(P)
    res = {"paths": 0, "violations": [], "case": list(case)}
    path = "/out/Codable.swift"

    def entry(I):
        # the content a fresh run writes
        fs0 = Fs(); fs0.add_dir("/out")
        I.env["fs"] = fs0
        lg = bharness.make_lang(I, "swift", {"default_decorators": list(decorators)}, multi_file=True)
        r0 = I.call_static("language::swift::Swift::write_codable_file", [Ref([lg], 0), S("/out")])
        fresh = list(fs0.nodes[path].data)
        fs = Fs(); fs.add_dir("/out")
        old = None
        if old_kind == "same":
            old = list(fresh)
        elif old_kind == "symbolic-same-length":
            old = sym_bytes("o", len(fresh))
        elif old_kind == "longer":
            old = list(fresh) + sym_bytes("o", 3)
        elif old_kind == "shorter":
            old = sym_bytes("o", max(len(fresh) - 5, 0))
        if old is not None:
            fs.add_file(path, old, mtime=0)
        I.env["fs"] = fs
        r = I.call_static("language::swift::Swift::write_codable_file", [Ref([lg], 0), S("/out")])
        return fs, old, fresh, r

    for kind, out, pc in I.explore(entry, max_paths=200):
        res["paths"] += 1
        if kind == "panic":
            res["violations"].append({"kind": "panic", "msg": out.msg}); continue
        fs, old, new, r = out
        if r.variant != 0:
            res["violations"].append({"kind": "error", "msg": repr(r.fields[0])}); continue
        node = fs.nodes.get(path)
        muts = [op for op in fs.log if op[0] in MUT and op[1] == path]
        same = bytes_eq(I, old, new) if old is not None else False
        if not muts:
            m = decide(I, same)
            if m is not None or node is None or node.mtime != 0:
                res["violations"].append(dict(cex(I, m, "stale-content-kept", old, new, node), file="Codable.swift"))
            continue
        if old is not None:
            m = I.sat_model(same) if not isinstance(same, bool) else (I.sat_model(z3.BoolVal(True)) if same else None)
            if m is not None:
                res["violations"].append(dict(cex(I, m, "rewritten-although-unchanged", old, new, node), file="Codable.swift")); continue
        m = decide(I, bytes_eq(I, node.data, new)) if node is not None else I.sat_model(z3.BoolVal(True))
        if m is not None:
            res["violations"].append(dict(cex(I, m, "content-differs-from-fresh-run", old, new, node), file="Codable.swift"))
    return finish_case(I, res)


# ---- composition: sequences of runs with the real back ends ----------------------------------------
def versions(ir):
    """source-tree versions as {crate: ParsedData builder}; v2 is shorter than v1 in crate a, a type moves a -> b in v3"""
    u32 = ir.special("U32")
    st = lambda name, *fields: ir.struct(name, [ir.field(f, u32) for f in fields])
    unit = ir.struct("WithUnit", [ir.field("u", ir.special("Unit"))])   # makes Swift emit CodableVoid / Codable.swift
    return {
        # (items in the order reconcile_aliases leaves them: sorted by name)
        "v1": {"a": [st("Extra", "y", "z"), st("Keep", "x"), st("Moved", "m")], "b": [st("Other", "o"), unit]},
        "v2": {"a": [st("Keep", "x")], "b": [st("Other", "o"), unit]},
        "v3": {"a": [st("Keep", "x")], "b": [st("Moved", "m"), st("Other", "o"), unit]},
        "v4": {"a": [st("Kept", "x")], "b": [st("Other", "o"), unit]},
    }


def run_once(I, fs, lang, multi, ver):
    P = I.prog
    ir = IR(P.layout)
    I.env["fs"] = fs
    lg = bharness.make_lang(I, lang, {"no_version_header": False}, multi_file=multi)
    vs = versions(ir)[ver]
    if multi:
        entries = []
        for crate in sorted(vs):
            fname = ("%s.%s" % (crate.capitalize() if lang == "swift" else crate, EXT[lang]))
            pd = ir.parsed_data(structs=vs[crate], crate=crate, file_name=fname, multi_file=True)
            entries.append([Agg("language::CrateName", [S(crate)]), pd])
        m = RMap("BTreeMap", entries)
        r = I.call_static("writer::write_multiple_files", [Ref([lg], 0), Ref([RPath(S("/out/gen"))], 0), m, RMap("HashMap")])
    else:
        allst = [s for crate in sorted(vs) for s in vs[crate]]
        pd = ir.parsed_data(structs=allst, crate="", file_name="", multi_file=False)
        m = RMap("BTreeMap", [[Agg("language::CrateName", [S("")]), pd]])
        r = I.call_static("writer::write_single_file", [Ref([lg], 0), Ref([RPath(S("/out/gen/types." + EXT[lang]))], 0), m])
    return r


PRE = ("absent", "same", "differs", "longer")


def case_folder_step(case):
    """one run of the writer from an ARBITRARY pre-state of the destination: every file the run is responsible for is,
    independently, absent / exactly what a fresh run writes / other bytes of the same length / longer.  After the run each
    file holds the fresh content; files that already held it were not touched."""
    lang, multi, pre = case
    P = prog()
    I = new_interp(P)
    res = {"paths": 0, "violations": [], "case": [lang, multi, list(pre)]}

    def entry(I):
        fresh_fs = Fs(); fresh_fs.add_dir("/out")
        r0 = run_once(I, fresh_fs, lang, multi, "v1")
        if r0.variant != 0:
            raise Unsupported("fresh run failed")
        fresh = {p: list(n.data) for p, n in fresh_fs.nodes.items() if not n.is_dir}
        names = sorted(fresh)
        if len(names) != len(pre):
            raise Unsupported("vacuity: expected %d files, fresh run wrote %s" % (len(pre), names))
        fs = Fs(); fs.add_dir("/out")
        olds = {}
        for k, (p, st) in enumerate(zip(names, pre)):
            data = fresh[p]
            if st == "absent":
                continue
            if st == "same":
                old = list(data)
            elif st == "differs":
                b = z3.BitVec("x%d" % k, 32)
                pos = len(data) // 2
                I.assume(b != data[pos]); I.assume(z3.ULE(b, 126)); I.assume(z3.UGE(b, 32))
                old = list(data); old[pos] = b
            else:
                old = list(data) + [z3.BitVec("t%d_%d" % (k, j), 32) for j in range(3)]
            fs.add_file(p, old, mtime=0)
            olds[p] = st
        n0 = len(fs.log)
        r = run_once(I, fs, lang, multi, "v1")
        return r, fs, fresh, olds

    for kind, out, pc in I.explore(entry, max_paths=50):
        res["paths"] += 1
        if kind == "panic":
            res["violations"].append({"kind": "panic", "msg": out.msg}); continue
        r, fs, fresh, olds = out
        if r.variant != 0:
            res["violations"].append({"kind": "error", "msg": repr(r.fields[0])}); continue
        for p, want in fresh.items():
            node = fs.nodes.get(p)
            st = olds.get(p, "absent")
            muts = [op for op in fs.log if op[0] in MUT and op[1] == p]
            if st == "same":
                if muts or node is None or node.mtime != 0:
                    res["violations"].append({"kind": "rewritten-although-unchanged", "file": p, "pre": list(pre)})
                continue
            e = bytes_eq(I, node.data, want) if node is not None else False
            m = decide(I, e)
            if m is not None:
                res["violations"].append({"kind": "content-differs-from-fresh-run", "file": p, "pre": list(pre), "state": st})
    uniq = {}
    for v in res["violations"]:
        uniq.setdefault((v["kind"], v.get("file")), v)
    res["violations"] = list(uniq.values())
    return finish_case(I, res)


def snapshot(fs):
    return {p: ("".join(chr(c) for c in n.data), n.mtime) for p, n in fs.nodes.items() if not n.is_dir}


def case_sequence(case):
    lang, multi, hist = case
    P = prog()
    I = new_interp(P)
    res = {"paths": 0, "violations": [], "case": [lang, multi, list(hist)]}

    def entry(I):
        fs = Fs(); fs.add_dir("/out")
        for ver in hist:
            r = run_once(I, fs, lang, multi, ver)
            if r.variant != 0:
                return ("err", repr(r.fields[0]), None, None)
        after = snapshot(fs)
        n0 = len(fs.log)
        r = run_once(I, fs, lang, multi, hist[-1])
        rerun_muts = [op for op in fs.log[n0:] if op[0] in MUT]
        again = snapshot(fs)
        fresh = Fs(); fresh.add_dir("/out")
        run_once(I, fresh, lang, multi, hist[-1])
        return ("ok", after, (rerun_muts, again), snapshot(fresh))

    for kind, out, pc in I.explore(entry, max_paths=20):
        res["paths"] += 1
        if kind == "panic":
            res["violations"].append({"kind": "panic", "msg": out.msg}); continue
        st, after, rr, fresh = out
        if st == "err":
            res["violations"].append({"kind": "error", "msg": after}); continue
        rerun_muts, again = rr
        want_files = (3 if lang == "swift" else 2) if multi else 1
        if len(fresh) != want_files:
            raise Unsupported("vacuity witness failed: fresh run wrote %r, expected %d files" % (sorted(fresh), want_files))
        for p, (txt, _) in fresh.items():
            if p not in after or after[p][0] != txt:
                res["violations"].append({"kind": "content-differs-from-fresh-run", "file": p, "got": (after.get(p) or ("<missing>",))[0][-120:], "fresh": txt[-120:]})
        if rerun_muts or again != after:
            res["violations"].append({"kind": "rewritten-although-unchanged", "ops": rerun_muts})
    return finish_case(I, res)


def run(rep, tier, only=None):
    prog()
    t0 = time.time()
    N = 4 if tier == "quick" else 6
    steps = []
    for new_len in range(1, N + 1):
        steps.append(("check_write_file", None, new_len, True))
        steps.append(("check_write_file", None, new_len, False))
        for old_len in range(0, N + 1):
            steps.append(("check_write_file", old_len, new_len, True))
    cod = [(k, d) for k in ("absent", "same", "symbolic-same-length", "longer", "shorter") for d in ((), ("Equatable",))]
    hists = [("v1", "v2"), ("v1", "v3"), ("v2", "v1"), ("v1", "v4"), ("v1", "v2", "v1", "v3")]
    if tier == "thorough":
        hists += [("v3", "v2", "v4"), ("v1", "v2", "v3", "v4", "v1", "v2"), ("v4", "v1"), ("v3", "v1", "v2")]
    seqs = [(l, m, h) for l in LANGS for m in (False, True) for h in hists]
    rep.bounds = {"step": "check_write_file: destination absent or holding 0..%d arbitrary bytes, new output 1..%d arbitrary bytes, parent directory present/absent" % (N, N),
                  "codable": "write_codable_file: Codable.swift absent / equal / arbitrary bytes of equal length / longer / shorter, two decorator configurations",
                  "sequences": "histories %s over four IR versions (types removed, moved between crates, renamed), single- and multi-file, six languages" % (hists,)}
    rep.outside = ["empty generated output (check_write_file skips it): unreachable from the CLI, every back end writes a version header and empty parse results are dropped before the writer",
                   "I/O failures (permission, disk full) and concurrent writers", "files of crates that no longer contain typeshared types (the last run is not responsible for them)"]
    rep.assumptions = ["std::fs is a model: read/write/File::create/OpenOptions::open/create_dir_all with POSIX truncation semantics; mtime is a token bumped by every mutating operation"]
    import itertools
    fsteps = []
    for l in LANGS:
        fsteps += [(l, False, pre) for pre in itertools.product(PRE, repeat=1)]
        nfiles = 3 if l == "swift" else 2
        fsteps += [(l, True, pre) for pre in itertools.product(PRE, repeat=nfiles)]
    rep.bounds["folder-step"] = "one run of write_single_file / write_multiple_files (+post_generation) from every pre-state of the destination: each file independently absent / fresh content / one (symbolic) byte different / 3 symbolic bytes longer; six languages"
    groups = [("step", "case_step", steps), ("codable", "case_codable", cod), ("folder-step", "case_folder_step", fsteps), ("sequence", "case_sequence", seqs)]
    for gname, fn, cs in groups:
        if only and gname not in only:
            continue
        rep.harnesses[gname] = len(cs)
        for st, case, r in pmap(("checks.c17", fn), cs):
            rep.obligations += 1
            if st != "ok":
                rep.inconc("%s %s: %s" % (gname, case, r)); continue
            account(rep, r); rep.discharged += 1
            if not r["violations"]:
                if len(rep.samples) < 10 and hash(str(case)) % 13 == 0:
                    rep.sample({"group": gname, "case": str(case), "paths": r["paths"], "verdict": "holds"})
                continue
            v = r["violations"][0]
            sig = {"group": gname, "kind": v["kind"]}
            ok, why, payload = native(gname, case, v)
            rep.validated += 1
            if ok:
                rep.violation(sig, why, payload)
            elif ok is None:
                rep.inconc("replay failed for %s %s: %s (%s)" % (gname, case, why, v))
            else:
                rep.inconc("engine mismatch %s %s: %s; %s" % (gname, case, v, why))
    rep.extra["explore_s"] = round(time.time() - t0, 1)


# ---- native replay through the real CLI code ---------------------------------------------------------
_DRV = None


def drv():
    global _DRV
    if _DRV is None:
        from vlib.harness import CliDriver
        _DRV = CliDriver()
    return _DRV


SRC = {"Keep": "#[typeshare]\npub struct Keep { pub x: u32 }\n", "Kept": "#[typeshare]\npub struct Kept { pub x: u32 }\n",
       "Extra": "#[typeshare]\npub struct Extra { pub y: u32, pub z: u32 }\n", "Moved": "#[typeshare]\npub struct Moved { pub m: u32 }\n",
       "Other": "#[typeshare]\npub struct Other { pub o: u32 }\n", "WithUnit": "#[typeshare]\npub struct WithUnit { pub u: () }\n"}
VERS = {"v1": {"a": ["Keep", "Extra", "Moved"], "b": ["Other", "WithUnit"]}, "v2": {"a": ["Keep"], "b": ["Other", "WithUnit"]},
        "v3": {"a": ["Keep"], "b": ["Other", "WithUnit", "Moved"]}, "v4": {"a": ["Kept"], "b": ["Other", "WithUnit"]}}


def real_run(d, lang, multi, ver, out):
    """one run of the real `typeshare` binary over a freshly written source tree"""
    import os, shutil
    src = os.path.join(d, "src-tree")
    shutil.rmtree(src, ignore_errors=True)
    for crate, names in VERS[ver].items():
        os.makedirs(os.path.join(src, crate, "src"))
        open(os.path.join(src, crate, "src", "lib.rs"), "w").write("".join(SRC[n] for n in names))
    argv = [src, "--lang", lang]
    if lang == "go":
        argv += ["--go-package", "proto"]
    if lang == "scala":
        argv += ["--scala-package", "com.x"]
    argv += (["-d", out] if multi else ["-o", os.path.join(out, "types." + EXT[lang])])
    if not multi:
        os.makedirs(out, exist_ok=True)
    return drv().cli(argv, d)


def tree(out):
    import os
    r = {}
    for root, _, files in os.walk(out):
        for f in files:
            p = os.path.join(root, f)
            r[os.path.relpath(p, out)] = (open(p, "rb").read(), os.stat(p).st_mtime_ns)
    return r


def native(gname, case, v):
    import os, shutil, tempfile
    d = tempfile.mkdtemp(prefix="c17-")
    try:
        if gname == "sequence":
            lang, multi, hist = case
            out = os.path.join(d, "out")
            for ver in hist:
                real_run(d, lang, multi, ver, out)
            after = tree(out)
            time.sleep(0.02)
            real_run(d, lang, multi, hist[-1], out)
            again = tree(out)
            fout = os.path.join(d, "fresh")
            real_run(d, lang, multi, hist[-1], fout)
            fresh = tree(fout)
            payload = {"op": "sequence", "lang": lang, "multi": multi, "hist": list(hist)}
            for p, (b, _) in fresh.items():
                if p not in after or after[p][0] != b:
                    return True, "typeshare --lang %s (%s) runs over versions %s: %s differs from what a run into an empty location writes (stale tail: %r)" % (
                        lang, "folder" if multi else "single file", "→".join(hist), p, (after.get(p) or (b"<missing>",))[0][-60:]), payload
            if again != after:
                ch = [p for p in again if again[p] != after.get(p)]
                return True, "re-running typeshare --lang %s with unchanged sources touched %s" % (lang, ch), payload
            return False, "real binary: outputs equal the fresh run and the re-run touched nothing", None
        if gname == "folder-step":
            lang, multi, pre = case
            out = os.path.join(d, "out")
            fout = os.path.join(d, "fresh")
            real_run(d, lang, multi, "v1", fout)
            fresh = tree(fout)
            names = sorted(fresh)
            if len(names) != len(pre):
                return None, "real fresh run wrote %s, the model expected %d files" % (names, len(pre)), None
            os.makedirs(out, exist_ok=True)
            for p, st in zip(names, pre):
                b = fresh[p][0]
                if st == "absent":
                    continue
                data = b if st == "same" else (bytes((c ^ 1) if i == len(b) // 2 else c for i, c in enumerate(b)) if st == "differs" else b + b"zzz")
                os.makedirs(os.path.dirname(os.path.join(out, p)) or out, exist_ok=True)
                open(os.path.join(out, p), "wb").write(data)
            before = tree(out)
            time.sleep(0.02)
            real_run(d, lang, multi, "v1", out)
            after = tree(out)
            payload = {"op": "folder-step", "lang": lang, "multi": multi, "pre": list(pre)}
            for p, st in zip(names, pre):
                if p not in after or after[p][0] != fresh[p][0]:
                    return True, "typeshare --lang %s (%s) into a destination where %s: %s holds %r... afterwards instead of the freshly generated content" % (
                        lang, "folder" if multi else "single file", dict(zip(names, pre)), p, (after.get(p) or (b"<missing>",))[0][-50:]), payload
                if st == "same" and after[p] != before[p]:
                    return True, "typeshare --lang %s re-wrote %s although it already held the generated bytes" % (lang, p), payload
            return False, "real binary: every file holds the fresh content, unchanged files untouched", None
        if gname in ("step", "codable"):
            # drive the real writer through the binary: pre-seed the destination with the counterexample's old bytes
            lang = "swift" if gname == "codable" else "typescript"
            multi = gname == "codable"
            out = os.path.join(d, "out")
            fout = os.path.join(d, "fresh")
            real_run(d, lang, multi, "v2", fout)
            fresh = tree(fout)
            name = "Codable.swift" if gname == "codable" else "types.ts"
            want = fresh[name][0]
            kind = v["kind"]
            os.makedirs(out, exist_ok=True)
            if kind == "rewritten-although-unchanged":
                open(os.path.join(out, name), "wb").write(want)
            else:
                old = v.get("old") or []
                new = v.get("new") or []
                # same relation between old and new as in the counterexample: longer / shorter / different
                pre = want + b"// stale tail\n" if len(old) > len(new) else (want[:-3] if len(old) < len(new) else bytes((c ^ 1) if i == len(want) - 2 else c for i, c in enumerate(want)))
                if len(old) == len(new) and sorted(old) == sorted(new) and old != new:
                    # the counterexample's old bytes are a rearrangement of the new ones: seed the file with the fresh output's lines in another order
                    lines = want.split(b"\n")
                    idx = [i for i, l in enumerate(lines) if l.strip()]
                    pairs = [(a, b) for a in idx for b in idx if a < b and lines[a] != lines[b]]
                    if pairs:
                        a, b = pairs[len(pairs) // 2]
                        lines[a], lines[b] = lines[b], lines[a]
                        pre = b"\n".join(lines)
                open(os.path.join(out, name), "wb").write(pre)
            before = tree(out)
            time.sleep(0.02)
            real_run(d, lang, multi, "v2", out)
            after = tree(out)
            payload = {"op": gname, "kind": kind, "old": v.get("old"), "new": v.get("new")}
            if kind == "rewritten-although-unchanged":
                if after[name] != before[name]:
                    return True, "%s already held exactly the generated bytes and was rewritten (mtime changed)" % name, payload
                return False, "real binary left %s untouched" % name, None
            if after[name][0] != want:
                return True, "%s held other content (%d bytes) before the run and holds %r afterwards instead of the freshly generated %d bytes" % (name, len(before[name][0]), after[name][0][-40:], len(want)), payload
            return False, "real binary wrote exactly the fresh content", None
        return None, "no replay for " + gname, None
    finally:
        shutil.rmtree(d, ignore_errors=True)


def replay(body):
    c = body["case"]
    if c["op"] == "folder-step":
        ok, why, _ = native("folder-step", (c["lang"], c["multi"], tuple(c["pre"])), {})
    elif c["op"] == "sequence":
        ok, why, _ = native("sequence", (c["lang"], c["multi"], tuple(c["hist"])), {})
    else:
        ok, why, _ = native(c["op"], None, c)
    print(why)
    return 1 if ok else 0
