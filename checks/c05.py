"""C05 - type expressions translate structurally, losslessly and honour type mappings.

P half: RustType::try_from(&syn::Type) / FromStr from MIR on type trees up to the depth bound (shapes
enumerated, user-type names symbolic) against an independent structural oracle.
B half: format_type / format_simple_type / format_generic_type / format_special_type of all six back
ends from MIR: (i,ii) for every constructor C and argument types from a pool, format(C(t..)) equals the
documented target shape instantiated with format(t..) (compositional + correct shape); (iii) every
primitive maps to a target type of the same JSON category whose value range contains the Rust range
(z3 over integers, target ranges from an independent table; Scala aliases read from the generated
text); (iv) a type mapping whose key is a symbolic name replaces exactly the types of that name, at
every position, mapped names are never prefixed, unmapped user types carry the prefix, generic
parameters never.
"""
import itertools
import time

import z3

from vlib.common import Inconclusive, seed
from vlib.harness import Replayer, pmap
from vlib.mirsym.engine import new_interp
from vlib.mirsym.selftest import parser_selftest, backend_selftest
from vlib.mirsym.ir import IR
from vlib.mirsym import bharness
from vlib.mirsym.values import *  # noqa
from vlib.mirsym.models_core import seq_eq
from checks.pcommon import prog, explore_source, account, finish_case

LANGS = ["typescript", "kotlin", "swift", "scala", "go", "python"]
PRIMS = {"bool": "Bool", "char": "Char", "String": "String", "str": "String", "i8": "I8", "i16": "I16", "i32": "I32", "u8": "U8", "u16": "U16", "u32": "U32",
         "I54": "I54", "U53": "U53", "f32": "F32", "f64": "F64", "()": "Unit"}
PTRS = ["Box", "Arc", "Rc", "Cow", "Cell", "RefCell", "Mutex", "RwLock", "Weak"]


# ------------------------------------------------------------------------------- type trees (P half)
def render_ty(t):
    k = t[0]
    if k == "prim":
        return "&'static str" if t[1] == "str" else t[1]
    if k == "user":
        return "Qus%d" % t[1]
    if k == "param":
        return "T"
    if k == "vec":
        return "Vec<%s>" % render_ty(t[1])
    if k == "qvec":
        return "std::vec::Vec<%s>" % render_ty(t[1])
    if k == "qalt":   # the same constructors spelled through core / alloc / a module-relative path
        return QALT[t[1]][0] % tuple(render_ty(x) for x in t[2])
    if k == "array":
        return "[%s; %d]" % (render_ty(t[1]), t[2])
    if k == "slice":
        return "&'static [%s]" % render_ty(t[1])
    if k == "option":
        return "Option<%s>" % render_ty(t[1])
    if k == "map":
        return "HashMap<%s, %s>" % (render_ty(t[1]), render_ty(t[2]))
    if k == "ptr":
        if t[1] == "Cow":
            return "Cow<'static, %s>" % render_ty(t[2])
        return "%s<%s>" % (t[1], render_ty(t[2]))
    if k == "qptr":
        q = QUALIFIED_PTR[t[1]]
        if t[1] == "Cow":
            return "%s<'static, %s>" % (q, render_ty(t[2]))
        return "%s<%s>" % (q, render_ty(t[2]))
    if k == "qoption":
        return "std::option::Option<%s>" % render_ty(t[1])
    if k == "qmap":
        return "std::collections::HashMap<%s, %s>" % (render_ty(t[1]), render_ty(t[2]))
    if k == "qprim":
        return "std::string::String"
    if k == "ref":
        return "&'static %s" % render_ty(t[1])
    if k == "quser":
        return "crate::models::Qus%d" % t[1]
    if k == "ugen":
        return "Qus%d<%s>" % (t[1], ", ".join(render_ty(x) for x in t[2]))
    raise KeyError(k)


QALT = {"core_option": ("core::option::Option<%s>", "Option"), "abs_core_option": ("::core::option::Option<%s>", "Option"), "rel_option": ("option::Option<%s>", "Option"),
        "alloc_vec": ("alloc::vec::Vec<%s>", "Vec"), "rel_vec": ("vec::Vec<%s>", "Vec"), "rel_map": ("collections::HashMap<%s, %s>", "HashMap"),
        "hash_map_map": ("std::collections::hash_map::HashMap<%s, %s>", "HashMap"), "alloc_box": ("alloc::boxed::Box<%s>", None), "alloc_string": ("alloc::string::String", "String")}
QUALIFIED_PTR = {"Box": "std::boxed::Box", "Arc": "std::sync::Arc", "Rc": "::std::rc::Rc", "Cow": "std::borrow::Cow", "Cell": "std::cell::Cell", "RefCell": "cell::RefCell",
                 "Mutex": "sync::Mutex", "RwLock": "std::sync::RwLock", "Weak": "std::sync::Weak"}


def oracle(t):
    """expected RustType as a nested tuple; user names are ('name', idx)"""
    k = t[0]
    if k == "qptr":
        return oracle(t[2])
    if k == "qalt":
        name = QALT[t[1]][1]
        if name is None:
            return oracle(t[2][0])
        return ("special", name) + tuple(oracle(x) for x in t[2])
    if k == "qoption":
        return ("special", "Option", oracle(t[1]))
    if k == "qmap":
        return ("special", "HashMap", oracle(t[1]), oracle(t[2]))
    if k == "qprim":
        return ("special", "String")
    if k == "prim":
        return ("special", PRIMS[t[1]])
    if k in ("user", "quser"):
        return ("simple", ("name", t[1]))
    if k == "param":
        return ("simple", "T")
    if k in ("vec", "qvec"):
        return ("special", "Vec", oracle(t[1]))
    if k == "array":
        return ("special", "Array", oracle(t[1]), t[2])
    if k == "slice":
        return ("special", "Slice", oracle(t[1]))
    if k == "option":
        return ("special", "Option", oracle(t[1]))
    if k == "map":
        return ("special", "HashMap", oracle(t[1]), oracle(t[2]))
    if k == "ptr":
        return oracle(t[2])
    if k == "ref":
        return oracle(t[1])
    if k == "ugen":
        return ("generic", ("name", t[1]), [oracle(x) for x in t[2]])
    raise KeyError(k)


def match_ir(I, L, v, o, names):
    """z3/py condition that IR value v equals oracle tree o"""
    v = unbox(v)
    vn = L.enums["RustType"][v.variant]
    if o[0] == "simple":
        if vn != "Simple":
            return False
        want = names[o[1][1]] if isinstance(o[1], tuple) else [ord(c) for c in o[1]]
        return seq_eq(I, v.fields[0].chars, want)
    if o[0] == "generic":
        if vn != "Generic":
            return False
        gf = L.enum_fields[("RustType", "Generic")]
        idv = v.fields[gf.index("id")]
        ps = v.fields[gf.index("parameters")].items
        if len(ps) != len(o[2]):
            return False
        conds = [seq_eq(I, idv.chars, names[o[1][1]])] + [match_ir(I, L, p, x, names) for p, x in zip(ps, o[2])]
        return conj(conds)
    if vn != "Special":
        return False
    s = v.fields[0]
    sn = L.enums["SpecialRustType"][s.variant]
    if sn != o[1]:
        return False
    if sn in ("Vec", "Slice", "Option"):
        return match_ir(I, L, s.fields[0], o[2], names)
    if sn == "Array":
        return conj([match_ir(I, L, s.fields[0], o[2], names), s.fields[1] == o[3]])
    if sn == "HashMap":
        return conj([match_ir(I, L, s.fields[0], o[2], names), match_ir(I, L, s.fields[1], o[3], names)])
    return True


def conj(cs):
    sym = []
    for c in cs:
        if is_sym(c):
            sym.append(c)
        elif not c:
            return False
    return z3.And(sym) if sym else True


def unary(t, with_ptrs):
    out = [("vec", t), ("option", t), ("array", t, 3), ("slice", t), ("ref", t), ("map", ("prim", "String"), t), ("map", t, ("prim", "u32")), ("ugen", 1, (t,)), ("qvec", t)]
    for p in (PTRS if with_ptrs else ["Box", "Cow"]):
        out.append(("ptr", p, t))
    # path-qualified spellings of the same constructors
    for p in (PTRS if with_ptrs else ["Arc"]):
        out.append(("qptr", p, t))
    out += [("qoption", t), ("qmap", ("qprim",), t)]
    out += [("qalt", "core_option", (t,)), ("qalt", "abs_core_option", (t,)), ("qalt", "rel_option", (t,)), ("qalt", "alloc_vec", (t,)), ("qalt", "rel_vec", (t,)),
            ("qalt", "rel_map", (("qalt", "alloc_string", ()), t)), ("qalt", "hash_map_map", (("prim", "String"), t)), ("qalt", "alloc_box", (t,))]
    return out


def trees(depth, tier):
    leaves = [("prim", p) for p in (PRIMS if tier == "thorough" else ["bool", "char", "String", "str", "u8", "i32", "U53", "f64", "()"])]
    leaves += [("user", 0), ("param",), ("quser", 0)]
    level = list(leaves)
    allt = list(level)
    for d in range(1, depth + 1):
        nxt = []
        src = level if d == 1 else level[:: max(1, len(level) // 40)]
        for t in src:
            nxt += unary(t, with_ptrs=(d == 1))
        if d == 1:
            nxt += [("ugen", 1, (a, b)) for a in leaves[:4] for b in leaves[-3:]]
            nxt += [("map", a, b) for a in (("prim", "String"), ("user", 0)) for b in leaves[:6]]
        allt += nxt
        level = nxt
    return allt


def case_p(case):
    position, t = case
    ty = render_ty(t)
    if position == "field":
        src = "#[typeshare]\npub struct S<T> { pub keep: T, pub f: %s }\n" % ty
    elif position == "newtype":
        src = '#[typeshare]\n#[serde(tag = "t", content = "c")]\npub enum S<T> { Keep(T), V(%s) }\n' % ty
    elif position == "alias":
        src = "#[typeshare]\npub type S<T> = %s;\n" % ty
    elif position == "serialized_as":
        src = '#[typeshare]\npub struct S<T> { pub keep: T, #[typeshare(serialized_as = "%s")] pub f: Foo }\n' % ty.replace("'static ", "")
    else:
        src = "#[typeshare]\npub const S: %s = 1;\n" % ty
    res = {"paths": 0, "violations": [], "src": src}
    I = None
    reserved = ["Vec", "Box", "Arc", "Cow", "Rc"]

    def names_of():
        return [[z3.BitVec("u%d_%d" % (i, k), 32) for k in range(3)] for i in range(2)]

    def plant(I):
        m = {}
        for i, cs in enumerate(names_of()):
            I.assume(z3.And(z3.UGE(cs[0], 65), z3.ULE(cs[0], 90)))
            for c in cs[1:]:
                I.assume(z3.And(z3.UGE(c, 97), z3.ULE(c, 122)))
            for r in reserved:
                if len(r) == 3:
                    I.assume(z3.Not(z3.And([c == ord(x) for c, x in zip(cs, r)])))
            m["Qus%d" % i] = cs
        if position == "serialized_as":
            import re
            for lit in re.findall(r'serialized_as = "([^"]*)"', src):
                chars = []
                i = 0
                while i < len(lit):
                    mm = re.match(r"Qus(\d)", lit[i:])
                    if mm:
                        chars += m["Qus" + mm.group(1)]
                        i += 4
                    else:
                        chars.append(ord(lit[i]))
                        i += 1
                m[lit] = chars
        return m
    want = oracle(t)
    for I, k, pd, pc in explore_source(src, plant):
        res["paths"] += 1
        if k == "panic":
            res["violations"].append({"kind": "panic", "msg": pd.msg}); continue
        L = I.prog.layout
        pdn = L.structs["ParsedData"]
        g = lambda n: pd.fields[pdn.index(n)]
        const_ok = position != "const" or want[0] == "simple" or (want[0] == "special" and want[1] not in ("Vec", "HashMap", "Option"))
        if pd is None or len(g("errors").items):
            if position == "const" and not const_ok:
                continue
            res["violations"].append({"kind": "rejected", "errors": len(g("errors").items) if pd is not None else None}); continue
        try:
            if position in ("field", "serialized_as"):
                s = g("structs").items[0]
                f = s.fields[L.structs["RustStruct"].index("fields")].items[1]
                ty_v = f.fields[L.structs["RustField"].index("ty")]
            elif position == "newtype":
                e = g("enums").items[0]
                sh = e.fields[L.enum_fields[("RustEnum", "Algebraic")].index("shared")]
                v = sh.fields[L.structs["RustEnumShared"].index("variants")].items[1]
                ty_v = v.fields[L.enum_fields[("RustEnumVariant", "Tuple")].index("ty")]
            elif position == "alias":
                ty_v = g("aliases").items[0].fields[L.structs["RustTypeAlias"].index("type")]
            else:
                ty_v = g("consts").items[0].fields[L.structs["RustConst"].index("type")]
        except IndexError:
            res["violations"].append({"kind": "item-missing"}); continue
        cond = match_ir(I, L, ty_v, want, names_of())
        bad = z3.BoolVal(not cond) if isinstance(cond, bool) else z3.Not(cond)
        m = I.sat_model(bad)
        if m is not None:
            from vlib.mirsym.irjson import to_json
            nm = ["".join(chr(m.eval(c, model_completion=True).as_long()) for c in cs) for cs in names_of()]
            res["violations"].append({"kind": "wrong-translation", "names": nm})
    return finish_case(I, res) if I else res


# ------------------------------------------------------------------------------- B half: shapes
TEMPLATES = {
    "typescript": {"vec": "{0}[]", "slice": "{0}[]", "array": lambda n: "[" + ", ".join(["{0}"] * n) + "]", "option": "{0}", "map": "Record<{0}, {1}>", "generic": "{n}<{a}>"},
    "kotlin": {"vec": "List<{0}>", "slice": "List<{0}>", "array": lambda n: "List<{0}>", "option": "{0}?", "map": "HashMap<{0}, {1}>", "generic": "{n}<{a}>"},
    "swift": {"vec": "[{0}]", "slice": "[{0}]", "array": lambda n: "[{0}]", "option": "{0}?", "map": "[{0}: {1}]", "generic": "{n}<{a}>"},
    "scala": {"vec": "Vector[{0}]", "slice": "Vector[{0}]", "array": lambda n: "Vector[{0}]", "option": "Option[{0}]", "map": "Map[{0}, {1}]", "generic": "{n}[{a}]"},
    "go": {"vec": "[]{0}", "slice": "[]{0}", "array": lambda n: "[%d]{0}" % n, "option": "*{0}", "map": "map[{0}]{1}", "generic": "{n}[{a}]"},
    "python": {"vec": "List[{0}]", "slice": "List[{0}]", "array": lambda n: "List[{0}]", "option": "Optional[{0}]", "map": "Dict[{0}, {1}]", "generic": "{n}[{a}]"},
}


def pool(ir):
    return {"u32": ir.special("U32"), "string": ir.special("String"), "bool": ir.special("Bool"), "user": ir.simple("Other"), "param": ir.simple("T"),
            "vec_user": ir.vec(ir.simple("Other")), "opt_str": ir.option(ir.special("String")), "map": ir.hashmap(ir.special("String"), ir.simple("Other")),
            "gen": ir.generic("Wrap", [ir.special("I32")]), "arr": ir.array(ir.special("U8"), 2), "vec_vec": ir.vec(ir.vec(ir.special("F64"))),
            "opt_opt": ir.option(ir.option(ir.special("Bool")))}


def case_shape(case):
    lang, ctor, args = case
    P = prog()
    ir = IR(P.layout)
    I = new_interp(P)
    res = {"paths": 0, "violations": [], "case": list(case)}
    pl = pool(ir)
    from vlib.mirsym.models_core import clone_val
    lg = bharness.make_lang(I, lang, {})
    gens = ["T"]
    sub = [clone_val(I, pl[a]) for a in args]

    def fmt(t):
        r = bharness.format_type(I, lang, lg, t, gens)
        return None if r.variant != 0 else pystr(r.fields[0])
    try:
        parts = [fmt(t) for t in sub]
        if ctor == "vec":
            whole = ir.vec(sub[0])
        elif ctor == "slice":
            whole = ir.slice(sub[0])
        elif ctor == "array":
            whole = ir.array(sub[0], 3)
        elif ctor == "option":
            whole = ir.option(sub[0])
        elif ctor == "map":
            whole = ir.hashmap(sub[0], sub[1])
        else:
            whole = ir.generic("Pair", sub)
        got = fmt(whole)
    except Panic as p:
        res["violations"].append({"kind": "panic", "msg": p.msg})
        return finish_case(I, res)
    res["paths"] = 1
    if got is None or any(p is None for p in parts):
        res["skipped"] = "format_type returned Err (reported to the user, not silent)"
        return finish_case(I, res)
    tpl = TEMPLATES[lang][ctor]
    if ctor == "array":
        tpl = tpl(3)
    if ctor == "generic":
        want = tpl.format(n="Pair", a=", ".join(parts))
    else:
        want = tpl.format(*parts)
    if got != want:
        res["violations"].append({"kind": "shape", "got": got, "want": want, "parts": parts})
    return finish_case(I, res)


# ------------------------------------------------------------------------------- B half: primitives
RUST_PRIMS = {"I8": ("integer", -128, 127), "I16": ("integer", -32768, 32767), "I32": ("integer", -2**31, 2**31 - 1), "I54": ("integer", -(2**53 - 1), 2**53 - 1),
              "U8": ("integer", 0, 255), "U16": ("integer", 0, 65535), "U32": ("integer", 0, 2**32 - 1), "U53": ("integer", 0, 2**53 - 1),
              "F32": ("float", None, None), "F64": ("float", None, None), "Bool": ("bool", None, None), "String": ("string", None, None),
              "Char": ("string", None, None), "Unit": ("unit", None, None)}
SAFE = 2**53 - 1
TARGETS = {
    "typescript": {"number": (("integer", "float"), -SAFE, SAFE), "boolean": (("bool",), None, None), "string": (("string",), None, None), "undefined": (("unit",), None, None)},
    "kotlin": {"Byte": (("integer",), -128, 127), "Short": (("integer",), -32768, 32767), "Int": (("integer",), -2**31, 2**31 - 1), "Long": (("integer",), -2**63, 2**63 - 1),
               "UByte": (("integer",), 0, 255), "UShort": (("integer",), 0, 65535), "UInt": (("integer",), 0, 2**32 - 1), "ULong": (("integer",), 0, 2**64 - 1),
               "Boolean": (("bool",), None, None), "String": (("string",), None, None), "Float": (("float",), None, None), "Double": (("float",), None, None), "Unit": (("unit",), None, None)},
    "swift": {"Int8": (("integer",), -128, 127), "Int16": (("integer",), -32768, 32767), "Int32": (("integer",), -2**31, 2**31 - 1), "Int64": (("integer",), -2**63, 2**63 - 1),
              "UInt8": (("integer",), 0, 255), "UInt16": (("integer",), 0, 65535), "UInt32": (("integer",), 0, 2**32 - 1), "UInt64": (("integer",), 0, 2**64 - 1),
              "Bool": (("bool",), None, None), "String": (("string",), None, None), "Float": (("float",), None, None), "Double": (("float",), None, None),
              "CodableVoid": (("unit",), None, None)},
    "scala": {"Byte": (("integer",), -128, 127), "Short": (("integer",), -32768, 32767), "Int": (("integer",), -2**31, 2**31 - 1), "Long": (("integer",), -2**63, 2**63 - 1),
              "Boolean": (("bool",), None, None), "String": (("string",), None, None), "Float": (("float",), None, None), "Double": (("float",), None, None), "Unit": (("unit",), None, None)},
    "go": {"int": (("integer",), -2**31, 2**31 - 1), "int64": (("integer",), -2**63, 2**63 - 1), "uint32": (("integer",), 0, 2**32 - 1), "uint64": (("integer",), 0, 2**64 - 1),
           "int32": (("integer",), -2**31, 2**31 - 1), "rune": (("integer",), -2**31, 2**31 - 1),
           "bool": (("bool",), None, None), "string": (("string",), None, None), "float32": (("float",), None, None), "float64": (("float",), None, None), "struct{}": (("unit",), None, None)},
    "python": {"int": (("integer",), None, None), "float": (("float",), None, None), "bool": (("bool",), None, None), "str": (("string",), None, None), "None": (("unit",), None, None)},
}
UNDECIDED = {("swift", "Unicode.Scalar"): "Codable conformance of Unicode.Scalar is supplied by the user"}


def case_prim(case):
    lang, prim = case
    P = prog()
    ir = IR(P.layout)
    I = new_interp(P)
    res = {"paths": 1, "violations": [], "case": list(case)}
    lg = bharness.make_lang(I, lang, {})
    r = bharness.format_type(I, lang, lg, ir.special(prim), [])
    if r.variant != 0:
        res["skipped"] = "format_type returned Err"
        return finish_case(I, res)
    tname = pystr(r.fields[0])
    table = dict(TARGETS[lang])
    if lang == "scala" and tname not in table:
        # unsigned aliases: read `type UByte = Byte` from the file the back end generates for a field of this type
        import re
        m = None
        t0_ = ir.special(prim)
        # the alias must be defined wherever the type occurs: every container position, key position included
        for posname, ty in (("field", t0_), ("vec", ir.vec(ir.special(prim))), ("option", ir.option(ir.special(prim))), ("map_value", ir.hashmap(ir.special("String"), ir.special(prim))),
                            ("map_key", ir.hashmap(ir.special(prim), ir.special("String"))), ("array", ir.array(ir.special(prim), 2)), ("generic_arg", ir.generic("Wrap", [ir.special(prim)])),
                            ("vec_map_key", ir.vec(ir.hashmap(ir.special(prim), ir.special("Bool")))), ("option_vec", ir.option(ir.vec(ir.special(prim))))):
            pd = ir.parsed_data(structs=[ir.struct("S", [ir.field("f", ty)])])
            ok, w, _ = bharness.generate(I, lang, pd)
            m = re.search(r"^type %s = (\w+)$" % re.escape(tname), bharness.concrete_text(w), re.M)
            if not m:
                res["violations"].append({"kind": "alias-undefined", "target": tname, "position": posname})
                return finish_case(I, res)
        res["alias"] = "%s = %s" % (tname, m.group(1))
        tname = m.group(1)
    if (lang, tname) in UNDECIDED:
        res["skipped"] = UNDECIDED[(lang, tname)]
        return finish_case(I, res)
    if tname not in table:
        res["violations"].append({"kind": "unknown-target-type", "target": tname})
        return finish_case(I, res)
    cats, tlo, thi = table[tname]
    rcat, rlo, rhi = RUST_PRIMS[prim]
    if rcat not in cats:
        res["violations"].append({"kind": "category", "target": tname, "rust_category": rcat, "target_categories": cats})
    elif rcat == "integer" and tlo is not None:
        x = z3.Int("x")
        s = z3.Solver()
        s.add(x >= rlo, x <= rhi, z3.Not(z3.And(x >= tlo, x <= thi)))
        I.queries += 1
        if s.check() == z3.sat:
            res["violations"].append({"kind": "range", "target": res.get("alias", tname), "value": s.model()[x].as_long()})
    return finish_case(I, res)


# ------------------------------------------------------------------------------- B half: mappings and prefix
WRAPS = ["plain", "vec", "option", "map_value", "map_key", "vec_map_key", "slice", "generic_arg", "generic_second_arg", "vec_option"]


def case_mapping(case):
    lang, wrap, prefix, generic_named = case
    P = prog()
    ir = IR(P.layout)
    I = new_interp(P)
    res = {"paths": 0, "violations": [], "case": list(case)}

    def syms():
        nm = [z3.BitVec("n%d" % i, 32) for i in range(3)]
        ky = [z3.BitVec("k%d" % i, 32) for i in range(3)]
        return nm, ky

    has_prefix = bool(prefix and lang in ("swift", "kotlin"))
    pf = [z3.BitVec("p0", 32), z3.BitVec("p1", 32)]   # the configured prefix: symbolic, so that a name may begin with it

    def entry(I):
        nm, ky = syms()
        for cs in (nm, ky, pf):
            I.assume(z3.And(z3.UGE(cs[0], 65), z3.ULE(cs[0], 90)))
            for c in cs[1:]:
                I.assume(z3.And(z3.UGE(c, 97), z3.ULE(c, 122)))
        cfg = {"type_mappings": {RString(list(ky)): S("Mapped")}}
        if has_prefix:
            cfg["prefix"] = RString(list(pf))
        lg = bharness.make_lang(I, lang, cfg)
        # two generic parameters, declared in an order that is not sorted (a membership test must not rely on sortedness)
        # (round n) when the name is a user type, the first parameter is a symbolic 4-letter word that may *contain* the
        # type's name (`TItem` next to `Item`): only equality with a parameter makes a name a parameter
        gp = [z3.BitVec("g%d" % i, 32) for i in range(4)]
        I.assume(z3.And(z3.UGE(gp[0], 65), z3.ULE(gp[0], 90)))
        for c in gp[1:]:
            I.assume(z3.Or(z3.And(z3.UGE(c, 65), z3.ULE(c, 90)), z3.And(z3.UGE(c, 97), z3.ULE(c, 122))))
        I.assume(z3.Not(z3.And([c == ord(x) for c, x in zip(gp, "Wrap")])))   # a parameter called `Wrap` would shadow the container of the harness
        gens = [RString(list(nm)), "Aa"] if generic_named else [RString(gp), "A"]
        t = ir.simple(RString(list(nm)))
        if wrap == "vec":
            t = ir.vec(t)
        elif wrap == "option":
            t = ir.option(t)
        elif wrap == "map_value":
            t = ir.hashmap(ir.special("String"), t)
        elif wrap == "generic_arg":
            t = ir.generic("Wrap", [t])
        elif wrap == "vec_option":
            t = ir.vec(ir.option(t))
        elif wrap == "map_key":
            t = ir.hashmap(t, ir.special("String"))
        elif wrap == "vec_map_key":
            t = ir.vec(ir.hashmap(t, ir.special("String")))
        elif wrap == "slice":
            t = ir.slice(t)
        elif wrap == "generic_second_arg":
            t = ir.generic("Wrap", [ir.special("String"), t])
        r = bharness.format_type(I, lang, lg, t, gens)
        return nm, ky, r

    for kind, out, pc in I.explore(entry, max_paths=500):
        res["paths"] += 1
        if kind == "panic":
            res["violations"].append({"kind": "panic", "msg": out.msg}); continue
        nm, ky, r = out
        if r.variant != 0:
            continue
        text = r.fields[0].chars
        same = z3.And([a == b for a, b in zip(nm, ky)])
        pre = "\ue100\ue101" if has_prefix else ""
        conv = lambda txt: [pf[0] if ch == "\ue100" else pf[1] if ch == "\ue101" else ord(ch) for ch in txt]
        wrapname = pre + "Wrap"
        tpl = {"plain": "{0}", "vec": TEMPLATES[lang]["vec"], "option": TEMPLATES[lang]["option"], "map_value": TEMPLATES[lang]["map"].replace("{0}", KEY_STRING[lang]).replace("{1}", "{0}"),
               "generic_arg": TEMPLATES[lang]["generic"].replace("{n}", wrapname).replace("{a}", "{0}"),
               "vec_option": TEMPLATES[lang]["vec"].replace("{0}", TEMPLATES[lang]["option"]),
               "map_key": TEMPLATES[lang]["map"].replace("{1}", KEY_STRING[lang]),
               "vec_map_key": TEMPLATES[lang]["vec"].replace("{0}", TEMPLATES[lang]["map"].replace("{1}", KEY_STRING[lang])),
               "slice": TEMPLATES[lang]["slice"],
               "generic_second_arg": TEMPLATES[lang]["generic"].replace("{n}", wrapname).replace("{a}", KEY_STRING[lang] + ", {0}")}[wrap]
        a, b = tpl.split("{0}")

        def expect(inner):
            return conv(a) + inner + conv(b)
        mapped = expect([ord(c) for c in "Mapped"])
        if generic_named:
            # a generic parameter is never prefixed; a mapping for its name is not in the claim (left to either outcome)
            unm = expect(list(nm))
            okc = z3.Or(z3.And(same, z3.BoolVal(True)), as_bool(seq_eq(I, text, unm)))
        else:
            unm = expect(conv(pre) + list(nm))
            okc = z3.If(same, as_bool(seq_eq(I, text, mapped)), as_bool(seq_eq(I, text, unm)))
        m = I.sat_model(z3.Not(okc))
        if m is not None:
            ev = lambda cs: "".join(chr(m.eval(c, model_completion=True).as_long()) for c in cs)
            got = "".join(chr(c) if isinstance(c, int) else chr(m.eval(c, model_completion=True).as_long()) for c in text)
            res["violations"].append({"kind": "mapping", "name": ev(nm), "key": ev(ky), "got": got, "prefix": ev(pf) if has_prefix else "",
                                      "param": None if generic_named else ev([z3.BitVec("g%d" % i, 32) for i in range(4)])})
    return finish_case(I, res)


SPECIAL_KEYS = {  # mapping key (Display of the special type) -> (IR builder name, Rust source)
    "String": ("String", "String"), "U53": ("U53", "U53"), "I54": ("I54", "I54"), "u32": ("U32", "u32"), "u8": ("U8", "u8"), "bool": ("Bool", "bool"),
    "f64": ("F64", "f64"), "char": ("Char", "char"), "()": ("Unit", "()"),
    # container instances (keyed by the Display of the whole type)
    "Vec<u8>": (lambda ir: ir.vec(ir.special("U8")), "Vec<u8>"),
    "Vec<Vec<u8>>": (lambda ir: ir.vec(ir.vec(ir.special("U8"))), "Vec<Vec<u8>>"),
    "HashMap<String,Vec<u8>>": (lambda ir: ir.hashmap(ir.special("String"), ir.vec(ir.special("U8"))), "HashMap<String, Vec<u8>>"),
    "Vec<Option<u32>>": (lambda ir: ir.vec(ir.option(ir.special("U32"))), "Vec<Option<u32>>"),
    "Option<String>": (lambda ir: ir.option(ir.special("String")), "Option<String>"),
    "Vec<Other>": (lambda ir: ir.vec(ir.simple("Other")), "Vec<Other>"),
}
SPECIAL_WRAPS = ["plain", "vec", "option", "map_value", "generic_arg"]


def case_mapping_special(case):
    """a type mapping keyed by a primitive / special type (TypeScript and Python look these up by the type's Display) replaces it at
    every position; the mapped text carries a symbolic character"""
    lang, key, wrap = case
    P = prog()
    ir = IR(P.layout)
    I = new_interp(P)
    res = {"paths": 0, "violations": [], "case": list(case)}
    sym = z3.BitVec("m", 32)

    def entry(I):
        I.assume(z3.And(z3.UGE(sym, 97), z3.ULE(sym, 122)))
        mapped = RString([ord(c) for c in "Mapped"] + [sym])
        lg = bharness.make_lang(I, lang, {"type_mappings": {key: mapped}})
        b = SPECIAL_KEYS[key][0]
        t = b(ir) if callable(b) else ir.special(b)
        if wrap == "vec":
            t = ir.vec(t)
        elif wrap == "option":
            t = ir.option(t)
        elif wrap == "map_value":
            t = ir.hashmap(ir.simple("Other"), t)
        elif wrap == "generic_arg":
            t = ir.generic("Wrap", [t])
        return bharness.format_type(I, lang, lg, t, [])

    for kind, out, pc in I.explore(entry, max_paths=50):
        res["paths"] += 1
        if kind == "panic":
            res["violations"].append({"kind": "panic", "msg": out.msg}); continue
        if out.variant != 0:
            continue
        text = out.fields[0].chars
        tpl = {"plain": "{0}", "vec": TEMPLATES[lang]["vec"], "option": TEMPLATES[lang]["option"], "map_value": TEMPLATES[lang]["map"].replace("{0}", "Other").replace("{1}", "{0}"),
               "generic_arg": TEMPLATES[lang]["generic"].replace("{n}", "Wrap").replace("{a}", "{0}")}[wrap]
        a, b = tpl.split("{0}")
        want = [ord(c) for c in a] + [ord(c) for c in "Mapped"] + [sym] + [ord(c) for c in b]
        c = seq_eq(I, text, want)
        m = I.sat_model(z3.Not(c) if not isinstance(c, bool) else z3.BoolVal(not c))
        if m is not None:
            got = "".join(chr(x) if isinstance(x, int) else chr(m.eval(x, model_completion=True).as_long()) for x in text)
            res["violations"].append({"kind": "mapping-special", "key": key, "got": got, "mapped": "Mapped" + chr(m.eval(sym, model_completion=True).as_long())})
    return finish_case(I, res)


KEY_STRING = {"typescript": "string", "kotlin": "String", "swift": "String", "scala": "String", "go": "string", "python": "str"}


def as_bool(c):
    return z3.BoolVal(c) if isinstance(c, bool) else c


def run(rep, tier, only=None):
    P = prog()
    nat = Replayer()
    t0 = time.time()
    rep.validated += parser_selftest(P, nat)
    rep.validated += backend_selftest(P, nat, limit=None if tier == "thorough" else 10, configs=(tier == "thorough"))
    depth = 2 if tier == "quick" else 3
    tr = trees(depth, tier)
    sd = seed()
    positions = ["field", "newtype", "alias", "serialized_as", "const"]
    p_cases = []
    for i, t in enumerate(tr):
        p_cases.append(("field", t))
        p_cases.append((positions[1 + (i + sd) % 4], t))
    pl = list(pool(IR(P.layout)).keys())
    s_cases = []
    for lang in LANGS:
        for ctor in ("vec", "slice", "array", "option"):
            for a in pl:
                s_cases.append((lang, ctor, (a,)))
        for a in pl:
            for b in (pl if tier == "thorough" else pl[:5]):
                s_cases.append((lang, "map", (a, b)))
                s_cases.append((lang, "generic", (a, b)))
    pr_cases = [(lang, p) for lang in LANGS for p in RUST_PRIMS]
    m_cases = [(lang, w, pre, g) for lang in LANGS for w in WRAPS for pre in (False, True) for g in (False, True) if not (pre and lang not in ("swift", "kotlin"))]
    rep.bounds = {"parser": "type trees to depth %d (%d trees) at field + one rotating position of {newtype, alias, serialized_as, const}; user names symbolic (3 chars)" % (depth, len(tr)),
                  "shapes": "6 constructors x argument types from a pool of %d (depth <= 2) x 6 languages" % len(pl),
                  "primitives": "14 primitives x 6 languages; integer ranges decided by z3", "mappings": "symbolic 3-char type name and mapping key at 6 positions, with/without prefix, as user type or generic parameter"}
    rep.outside = ["usize/isize/u64/i64 (rejected by the parser, C08)", "Swift `char` (Unicode.Scalar: Codable conformance is user code)", "container-instance mappings such as \"Vec<u8>\" (C12 exercises the Uint8Array / bytes mappings)"]
    rep.assumptions = ["target type ranges/categories are an independent table in checks/c05.py (Go `int` taken as 32 bits)", "documented target shapes (templates) restated in checks/c05.py"]
    ms_cases = [(lang, k, w) for lang in ("typescript", "python") for k in SPECIAL_KEYS for w in SPECIAL_WRAPS]
    rep.bounds["special-type mappings"] = "TypeScript and Python: a mapping keyed by a scalar special type or a (nested) container instance %s, at positions %s, mapped text with a symbolic character" % (sorted(SPECIAL_KEYS), SPECIAL_WRAPS)
    groups = [("parser", "case_p", p_cases), ("shape", "case_shape", s_cases), ("primitive", "case_prim", pr_cases), ("mapping", "case_mapping", m_cases), ("mapping-special", "case_mapping_special", ms_cases)]
    reported = set()
    for gname, fn, cases in groups:
        if only and gname not in only:
            continue
        rep.harnesses[gname] = len(cases)
        for st, case, r in pmap(("checks.c05", fn), cases):
            rep.obligations += 1
            if st != "ok":
                rep.inconc("%s %s: %s" % (gname, str(case)[:200], r)); continue
            account(rep, r); rep.discharged += 1
            if not r["violations"]:
                if len(rep.samples) < 12 and gname in ("mapping", "primitive", "shape") and (hash(str(case)) % 7 == 0):
                    rep.sample({"group": gname, "case": str(case)[:160], "paths": r["paths"], "verdict": r.get("skipped", "holds")})
                continue
            v = r["violations"][0]
            if gname == "parser":
                pos, t = case
                src = r["src"]
                for i, nm in enumerate(v.get("names", ["Abc", "Def"])):
                    src = src.replace("Qus%d" % i, nm)
                real = nat.ask({"op": "parse", "source": src})
                rep.validated += 1
                sig = {"group": "parser", "kind": v["kind"], "position": pos, "outer": t[0]}
                if tuple(sig.items()) in reported:
                    continue
                reported.add(tuple(sig.items()))
                if v["kind"] == "panic":
                    ok = "panic" in real or "crash" in real
                elif v["kind"] == "rejected":
                    ok = ("ok" in real and real["ok"] is not None and len(real["ok"]["errors"]) > 0) or "err" in real
                else:
                    ok = "ok" in real
                if ok:
                    rep.violation(sig, "`%s` -> %s (real library: %s)" % (src.strip().replace("\n", " "), v["kind"], str(real)[:300]), {"source": src, "group": "parser"})
                else:
                    rep.inconc("engine mismatch (parser) on %s: %s vs %s" % (src, v, str(real)[:200]))
            else:
                sig = {"group": gname, "lang": case[0], "kind": v["kind"]}
                if gname == "primitive":
                    sig["primitive"] = case[1]
                if gname == "shape":
                    sig["constructor"] = case[1]
                if gname == "mapping":
                    sig.update(wrap=case[1], prefix=case[2], generic=case[3])
                if gname == "mapping-special":
                    sig.update(key=case[1], wrap=case[2])
                key = tuple(sorted((k, str(x)) for k, x in sig.items()))
                if key in reported:
                    continue
                reported.add(key)
                ok, why, payload = native_b(nat, gname, case, v)
                rep.validated += 1
                if ok:
                    rep.violation(sig, why, payload)
                elif ok is None:
                    rep.inconc("replay of %s %s failed: %s" % (gname, case, why))
                else:
                    rep.inconc("engine mismatch (%s) %s: %s; %s" % (gname, case, v, why))
    # generic parameters in alias targets and with unsorted parameter lists keep their bare name under a prefix (shared with C09's harness)
    if not only or "generic-alias" in only:
        from checks import c09
        gcases = [(l, sh, True) for l in ("swift", "kotlin") for sh in ("alias-nested", "struct-two-params-unsorted", "struct-three-params-unsorted")]
        rep.harnesses["generic-alias"] = len(gcases)
        rep.bounds["generic parameters under a prefix"] = "Swift / Kotlin with a prefix: generic aliases (`Vec<Option<T>>`, `HashMap<String, Wrap<T>>`) and items with unsorted parameter lists, parameter name symbolic: never prefixed"
        for st, case, r in pmap(("checks.c09", "case_generic_param"), gcases):
            rep.obligations += 1
            if st != "ok":
                rep.inconc("generic-alias %s: %s" % (case, r)); continue
            account(rep, r); rep.discharged += 1
            for v in r["violations"][:1]:
                sig = {"group": "generic-alias", "lang": case[0], "shape": case[1], "kind": v["kind"]}
                ok, why, src, cfg = c09.native_generic_param(nat, case, v)
                rep.validated += 1
                if ok:
                    rep.violation(sig, why, {"group": "generic-alias", "source": src, "lang": case[0], "config": cfg, "generic_param": list(case), "v": v})
                elif ok is None:
                    rep.inconc("replay failed for generic-alias %s: %s" % (case, why))
                else:
                    rep.inconc("engine mismatch generic-alias %s: %s; %s" % (case, v, why))
    nat.close()
    rep.extra["explore_s"] = round(time.time() - t0, 1)


RUST_SRC = {"I8": "i8", "I16": "i16", "I32": "i32", "I54": "I54", "U8": "u8", "U16": "u16", "U32": "u32", "U53": "U53", "F32": "f32", "F64": "f64", "Bool": "bool",
            "String": "String", "Char": "char", "Unit": "()"}
POOL_SRC = {"u32": "u32", "string": "String", "bool": "bool", "user": "Other", "param": "T", "vec_user": "Vec<Other>", "opt_str": "Option<String>",
            "map": "HashMap<String, Other>", "gen": "Wrap<i32>", "arr": "[u8; 2]", "vec_vec": "Vec<Vec<f64>>", "opt_opt": "Option<Option<bool>>"}


def native_b(nat, gname, case, v):
    lang = case[0]
    cfg = dict(bharness.DEFAULT_CFG.get(lang, {}))
    if gname == "primitive" and v.get("kind") == "alias-undefined":
        t = RUST_SRC[case[1]]
        ty = {"field": "%s", "vec": "Vec<%s>", "option": "Option<%s>", "map_value": "HashMap<String, %s>", "map_key": "HashMap<%s, String>", "array": "[%s; 2]", "generic_arg": "Wrap<%s>",
              "vec_map_key": "Vec<HashMap<%s, bool>>", "option_vec": "Option<Vec<%s>>"}[v.get("position", "field")] % t
        src = "#[typeshare]\npub struct S { pub f: %s }\n" % ty
        r = nat.ask({"op": "generate", "lang": lang, "files": [{"source": src}], "config": cfg})
        out = r.get("out", {}).get("", None)
        if out is None:
            return None, str(r)[:200], None
        tgt = v.get("target", "")
        import re as _re2
        if tgt in out and not _re2.search(r"^type %s = " % _re2.escape(tgt), out, _re2.M):
            return True, "%s uses `%s` for `%s` without defining it" % (lang, tgt, ty), {"source": src, "lang": lang, "config": cfg, "needle": tgt}
        return False, "real output defines %s or does not use it" % tgt, None
    if gname == "primitive":
        src = "#[typeshare]\npub type A = Vec<%s>;\n" % RUST_SRC[case[1]]
        r = nat.ask({"op": "generate", "lang": lang, "files": [{"source": src}], "config": cfg})
        out = r.get("out", {}).get("", None)
        if out is None:
            return None, str(r)[:200], None
        tgt = v.get("target", "")
        base = tgt.split(" = ")[0]
        if base and base in out:
            what = {"category": "maps Rust `%s` (JSON %s) to `%s`, a JSON %s type" % (RUST_SRC[case[1]], v.get("rust_category"), tgt, "/".join(v.get("target_categories", []))),
                    "range": "maps Rust `%s` to `%s`, which cannot hold the value %s" % (RUST_SRC[case[1]], tgt, v.get("value")),
                    "alias-undefined": "uses `%s` without defining it" % tgt, "unknown-target-type": "maps to unknown type `%s`" % tgt}[v["kind"]]
            return True, "%s %s" % (lang, what), {"source": src, "lang": lang, "config": cfg, "needle": base}
        return False, "target type %r not in real output %r" % (tgt, out[:200]), None
    if gname == "shape":
        ctor, args = case[1], case[2]
        a = [POOL_SRC[x] for x in args]
        ty = {"vec": "Vec<%s>", "slice": "&'static [%s]", "array": "[%s; 3]", "option": "Option<%s>"}.get(ctor, "")
        ty = ty % a[0] if ty else ("HashMap<%s, %s>" % tuple(a) if ctor == "map" else "Pair<%s, %s>" % tuple(a))
        src = "#[typeshare]\npub type A<T> = Vec<%s>;\n" % ty
        r = nat.ask({"op": "generate", "lang": lang, "files": [{"source": src}], "config": cfg})
        out = r.get("out", {}).get("", None)
        if out is None:
            return None, str(r)[:200], None
        if v["got"] in out and v["want"] not in out:
            return True, "%s translates `%s` to `%s`, expected shape `%s`" % (lang, ty, v["got"], v["want"]), {"source": src, "lang": lang, "config": cfg, "needle": v["got"]}
        return False, "got %r / want %r vs real %r" % (v["got"], v["want"], out[:300]), None
    if gname == "mapping-special":
        _, key, wrap = case
        rs = SPECIAL_KEYS[key][1]
        ty = {"plain": "%s", "vec": "Vec<%s>", "option": "Option<%s>", "map_value": "HashMap<Other, %s>", "generic_arg": "Wrap<%s>"}[wrap] % rs
        src = "#[typeshare]\npub struct A { pub f: %s }\n" % ty
        cfg = dict(cfg)
        cfg["type_mappings"] = {key: v.get("mapped", "Mappedx")}
        r = nat.ask({"op": "generate", "lang": lang, "files": [{"source": src}], "config": cfg})
        out = r.get("out", {}).get("", None)
        if out is None:
            return None, str(r)[:200], None
        if v.get("mapped", "Mappedx") not in out:
            return True, "%s with type_mappings {%s: %s} translates the field type `%s` without using the mapping: %s" % (lang, key, v.get("mapped"), ty, [l for l in out.split("\n") if "f:" in l or "f?" in l][:1]), {"source": src, "lang": lang, "config": cfg, "needle": v["got"]}
        return False, "mapped name present in real output", None
    # mapping
    _, wrap, prefix, generic = case
    name, key = v["name"], v["key"]
    inner = name
    ty = {"plain": "%s", "vec": "Vec<%s>", "option": "Option<%s>", "map_value": "HashMap<String, %s>", "generic_arg": "Wrap<%s>", "vec_option": "Vec<Option<%s>>", "map_key": "HashMap<%s, String>", "vec_map_key": "Vec<HashMap<%s, String>>", "slice": "&[%s]",
          "generic_second_arg": "Wrap<String, %s>"}[wrap] % inner
    g = "<%s, Aa>" % name if generic else "<%s, A>" % (v.get("param") or "T")
    src = "#[typeshare]\npub type A%s = Vec<%s>;\n" % (g, ty)
    cfg["type_mappings"] = {key: "Mapped"}
    if prefix:
        cfg["prefix"] = v.get("prefix") or "OP"
    r = nat.ask({"op": "generate", "lang": lang, "files": [{"source": src}], "config": cfg})
    out = r.get("out", {}).get("", None)
    if out is None:
        return None, str(r)[:200], None
    if v["got"] in out:
        return True, "%s with type_mappings {%s: Mapped}%s translates `%s` to `%s`" % (lang, key, (" and prefix %s" % cfg["prefix"]) if prefix else "", ty, v["got"]), {"source": src, "lang": lang, "config": cfg, "needle": v["got"]}
    return False, "%r not in real output %r" % (v["got"], out[:300]), None


def replay(case):
    c = case["case"]
    if c.get("group") == "generic-alias":
        from checks import c09
        nat = Replayer()
        ok, why, _, _ = c09.native_generic_param(nat, tuple(c["generic_param"]), c["v"])
        nat.close()
        print(why)
        return 1 if ok else 0
    rep = Replayer()
    if c.get("group") == "parser":
        print(str(rep.ask({"op": "parse", "source": c["source"]}))[:600])
        rep.close()
        return 1
    r = rep.ask({"op": "generate", "lang": c["lang"], "files": [{"source": c["source"]}], "config": c.get("config", {})})
    rep.close()
    out = r.get("out", {}).get("", "")
    print(out[:600] if out else r)
    return 1 if c.get("needle", "\0") in out else 0
