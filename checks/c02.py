"""C02 - enum wire encoding (variant names, tag and content keys) equals serde's.

P half (parser from MIR): unit and adjacently tagged enums whose variant identifiers are symbolic within
UpperCamelCase class words, with per-variant serde(rename) keys, every rename_all rule, symbolic tag and
content keys; oracle = serde_derive's apply_to_variant restated over symbolic chars.
B half (six back ends from MIR): enums whose variant wire names, tag key and content key are symbolic
strings; every place of the generated text that carries a wire name / tag / content key (per-language
context patterns) must hold exactly the corresponding IR string (z3 equality over output positions),
every IR variant has exactly one case, and no other text is derived from these strings.
"""
import itertools
import re
import time

import z3

from vlib.common import Inconclusive, seed
from vlib.harness import Replayer, pmap
from vlib.mirsym.engine import new_interp
from vlib.mirsym.selftest import parser_selftest, backend_selftest
from vlib.mirsym.ir import IR
from vlib.mirsym import bharness
from vlib.mirsym.values import *  # noqa
from vlib.mirsym.models_core import seq_eq
from vlib import extract
from checks.pcommon import prog, explore_source, account, finish_case
from checks.c16 import serde_variant, CLASSES
from checks.c01 import key_alphabet

LANGS = ["typescript", "kotlin", "swift", "scala", "go", "python"]
RULES = [None, "lowercase", "UPPERCASE", "PascalCase", "camelCase", "snake_case", "SCREAMING_SNAKE_CASE", "kebab-case", "SCREAMING-KEBAB-CASE", "Bogus"]
SYM = extract.PUA_CLASS


def variant_words(tier):
    """UpperCamelCase class words: u first, then l/u/d"""
    n = 3 if tier == "quick" else 5
    out = []
    for k in range(1, n + 1):
        for rest in itertools.product("lud", repeat=k - 1):
            out.append("u" + "".join(rest))
    return out


def sym_word(I, word, pfx):
    cs = []
    for i, k in enumerate(word):
        lo, hi = CLASSES[k]
        c = z3.BitVec("%s%d" % (pfx, i), 32)
        I.assume(z3.And(z3.UGE(c, lo), z3.ULE(c, hi)))
        cs.append(c)
    return cs


def case_p(case):
    kind, rule, word, renamed, kinds = case
    ra = ('#[serde(rename_all = "%s")]' % rule) if rule else ""
    ren = '#[serde(rename = "Qkey")] ' if renamed else ""
    body = {"unit": "%sQvar", "newtype": "%sQvar(String)", "struct": "%sQvar { a: u32 }"}
    if kind == "unit":
        src = "#[typeshare]\n%s\npub enum E { First, %sQvar, Last }\n" % (ra, ren)
    else:
        # (round n) serde does not care in which order / in how many attributes `tag` and `content` are written: the cases with a
        # renamed variant write `content` first (newtype: same attribute; others: two attributes), the others `tag` first
        tc = '#[serde(tag = "Qtag", content = "Qcon")]' if not renamed else ('#[serde(content = "Qcon", tag = "Qtag")]' if kinds == "newtype" else '#[serde(content = "Qcon")]\n#[serde(tag = "Qtag")]')
        src = '#[typeshare]\n%s\n%s\npub enum E { First(u32), %s, Last }\n' % (tc, ra, body[kinds] % ren)
    res = {"paths": 0, "violations": [], "src": src}
    I = None

    def syms():
        return ([z3.BitVec("v%d" % i, 32) for i in range(len(word))], [z3.BitVec("k%d" % i, 32) for i in range(2)],
                [z3.BitVec("t%d" % i, 32) for i in range(2)], [z3.BitVec("c%d" % i, 32) for i in range(3)])

    def plant(I):
        var, key, tag, con = syms()
        v = sym_word(I, word, "v")
        key_alphabet(I, key)
        for cs in (tag, con):
            I.assume(z3.And(z3.UGE(cs[0], 97), z3.ULE(cs[0], 122)))
            for c in cs[1:]:
                I.assume(z3.Or(z3.And(z3.UGE(c, 97), z3.ULE(c, 122)), z3.And(z3.UGE(c, 48), z3.ULE(c, 57)), c == 95))
        # the variant must not collide with its neighbours
        for other in ("First", "Last"):
            if len(other) == len(word):
                I.assume(z3.Not(z3.And([a == ord(b) for a, b in zip(v, other)])))
        return {"Qvar": v, "Qkey": key, "Qtag": tag, "Qcon": con}
    for I, k, pd, pc in explore_source(src, plant):
        res["paths"] += 1
        var, key, tag, con = syms()
        ev = None
        if k == "panic":
            try:
                if not renamed and rule not in (None, "Bogus"):
                    serde_variant(I, rule, list(var))
                sp = False
            except Panic:
                sp = True
            if sp:
                continue
            m = I.sat_model()
            res["violations"].append({"kind": "panic", "msg": pd.msg, "ident": "".join(chr(m.eval(c, model_completion=True).as_long()) for c in var)})
            continue
        L = I.prog.layout
        pdn = L.structs["ParsedData"]
        g = lambda n: pd.fields[pdn.index(n)]
        if pd is None or len(g("errors").items) or not g("enums").items:
            res["violations"].append({"kind": "rejected"}); continue
        e = g("enums").items[0]
        en = L.enums["RustEnum"][e.variant]
        if (kind == "unit") != (en == "Unit"):
            res["violations"].append({"kind": "wrong-enum-kind", "got": en}); continue
        if en == "Unit":
            sh = e.fields[0]
        else:
            af = L.enum_fields[("RustEnum", "Algebraic")]
            sh = e.fields[af.index("shared")]
            tk, ck = e.fields[af.index("tag_key")].chars, e.fields[af.index("content_key")].chars
        vs = sh.fields[L.structs["RustEnumShared"].index("variants")].items
        if len(vs) != 3:
            res["violations"].append({"kind": "variant-count", "got": len(vs)}); continue
        v = vs[1]
        vn = L.enums["RustEnumVariant"][v.variant]
        shared = v.fields[0] if vn == "Unit" else v.fields[L.enum_fields[("RustEnumVariant", vn)].index("shared")]
        idv = shared.fields[L.structs["RustEnumVariantShared"].index("id")]
        ren_c = idv.fields[L.structs["Id"].index("renamed")].chars
        orig_c = idv.fields[L.structs["Id"].index("original")].chars
        try:
            if renamed:
                want = list(key)
            elif rule in (None, "Bogus"):
                want = list(var)
            else:
                want = serde_variant(I, rule, list(var))
        except Panic:
            res["violations"].append({"kind": "serde-panics-typeshare-does-not"}); continue
        conds = [seq_eq(I, ren_c, want), seq_eq(I, orig_c, list(var))]
        if en != "Unit":
            conds += [seq_eq(I, tk, list(tag)), seq_eq(I, ck, list(con))]
        okc = z3.And([c if is_sym(c) else z3.BoolVal(c) for c in conds])
        m = I.sat_model(z3.Not(okc))
        if m is not None:
            ev = lambda cs: "".join(chr(c if isinstance(c, int) else m.eval(c, model_completion=True).as_long()) for c in cs)
            res["violations"].append({"kind": "wrong-wire-name", "ident": ev(var), "key": ev(key), "tag": ev(tag), "content": ev(con), "renamed": ev(ren_c), "want": ev(want),
                                      "tag_got": ev(tk) if en != "Unit" else None, "content_got": ev(ck) if en != "Unit" else None})
    return finish_case(I, res) if I else res


# ------------------------------------------------------------------------------- B half
def runs(sk):
    """maximal runs of symbolic chars in the skeleton: (start, end)"""
    return [(m.start(), m.end()) for m in re.finditer(SYM + "+", sk.text)]


def ctx_spans(sk, pattern, group=1, flags=re.M):
    return [(m.start(group), m.end(group)) for m in re.finditer(pattern, sk.text, flags)]


def case_b(case):
    lang, shape, cfgname = case[:3]
    symbolic_variant = case[3] if len(case) > 3 else 0
    P = prog()
    ir = IR(P.layout)
    I = new_interp(P)
    res = {"paths": 0, "violations": [], "case": list(case)}
    cfg = {"plain": {}, "prefix": {"prefix": "OP"}}[cfgname]
    kinds = {"unit3": ["unit", "unit", "unit"], "mixed": ["unit", "newtype", "struct"], "newtypes": ["newtype", "newtype"], "structs": ["struct", "unit"],
             "optional": ["unit", "optnewtype", "newtype"]}[shape]
    names = ["Alpha", "Beta", "Gamma"][:len(kinds)]
    is_unit = shape == "unit3"

    def syms():
        ks = [[z3.BitVec("w%d_%d" % (i, j), 32) for j in range(2)] for i in range(len(kinds))]
        return ks, [z3.BitVec("t%d" % j, 32) for j in range(2)], [z3.BitVec("c%d" % j, 32) for j in range(2)]

    def entry(I):
        ks, tag, con = syms()
        for vi, cs in enumerate(ks):
            key_alphabet(I, cs)
            if lang == "python" and vi != symbolic_variant:
                # Python derives a constant name from every wire name through convert_case (forks per char class):
                # one variant is symbolic per case, the others are pinned
                for c, x in zip(cs, "q%d" % vi):
                    I.assume(c == ord(x))
        for cs in (tag, con):
            I.assume(z3.And(z3.UGE(cs[0], 97), z3.ULE(cs[0], 122)))
            I.assume(z3.Or(z3.And(z3.UGE(cs[1], 97), z3.ULE(cs[1], 122)), z3.And(z3.UGE(cs[1], 48), z3.ULE(cs[1], 57)), cs[1] == 95))
        # wire names pairwise distinct, tag != content (serde rejects the clash)
        for a, b in itertools.combinations(ks, 2):
            I.assume(z3.Or([x != y for x, y in zip(a, b)]))
        I.assume(z3.Or([x != y for x, y in zip(tag, con)]))
        vs = []
        for nm, kd, kk in zip(names, kinds, ks):
            r = RString(list(kk))
            if kd == "unit":
                vs.append(ir.v_unit(nm, renamed=r))
            elif kd == "newtype":
                vs.append(ir.v_tuple(nm, ir.special("String"), renamed=r))
            elif kd == "optnewtype":
                vs.append(ir.v_tuple(nm, ir.option(ir.special("String")), renamed=r))
            else:
                vs.append(ir.v_anon(nm, [ir.field("x", ir.special("U32"))], renamed=r))
        if is_unit:
            e = ir.enum_unit("E", vs)
        else:
            e = ir.enum_alg("E", vs, tag=RString(list(tag)), content=RString(list(con)))
        lg = bharness.make_lang(I, lang, cfg)
        ok, w, _ = bharness.generate(I, lang, ir.parsed_data(enums=[e]), lang_value=lg)
        return ok, w

    for kind, out, pc in I.explore(entry, max_paths=20000):
        res["paths"] += 1
        ks, tag, con = syms()
        if kind == "panic":
            m = I.sat_model()
            ev = lambda cs: "".join(chr(m.eval(c, model_completion=True).as_long()) for c in cs)
            res["violations"].append({"kind": "panic", "msg": out.msg, "keys": [ev(k) for k in ks], "tag": ev(tag), "content": ev(con)})
            continue
        ok, w = out
        if not ok:
            res["violations"].append({"kind": "io-error"}); continue
        sk = extract.Skel(w.chars)
        t = sk.text
        problems = []

        def holds(span, want, what):
            """z3: the text at span equals `want` for every assignment on this path"""
            eq = seq_eq(I, sk.terms(span), list(want))
            bad = z3.BoolVal(not eq) if isinstance(eq, bool) else z3.Not(eq)
            m = I.sat_model(bad)
            if m is not None:
                ev = lambda cs: "".join(chr(c if isinstance(c, int) else m.eval(c, model_completion=True).as_long()) for c in cs)
                problems.append({"what": what, "got": ev(sk.terms(span)), "want": ev(list(want)), "keys": [ev(k) for k in ks], "tag": ev(tag), "content": ev(con)})
                return False
            return True

        wire, tags, cons = wire_contexts(lang, sk, names, kinds, is_unit, cfg)
        if wire is None:
            res.setdefault("inconclusive", []).append("no variant contexts found in %r" % t[:300]); continue
        if len(wire) != len(kinds):
            problems.append({"what": "case-count", "got": len(wire), "want": len(kinds), "keys": None})
        else:
            for i, spans in enumerate(wire):
                for sp in spans:
                    holds(sp, ks[i], "wire name of variant %s" % names[i])
        if not is_unit:
            for sp in tags:
                holds(sp, tag, "tag key")
            for sp in cons:
                holds(sp, con, "content key")
            exp_t, exp_c = expected_key_counts(lang, kinds)
            if len(tags) < exp_t:
                problems.append({"what": "tag-key places", "got": len(tags), "want": exp_t, "keys": None})
            if len(cons) < exp_c:
                problems.append({"what": "content-key places", "got": len(cons), "want": exp_c, "keys": None})
        # no other symbolic material: every run is covered by one of the contexts or is an identifier derived for the target (Swift case names / Python constants use `original`)
        covered = set()
        for spans in (wire or []):
            for sp in spans:
                covered.add(sp)
        for sp in tags + cons:
            covered.add(sp)
        for r in runs(sk):
            inside_literal = r[0] > 0 and t[r[0] - 1] == '"' and r[1] < len(t) and t[r[1]] in '",'
            if inside_literal and not any(a <= r[0] and r[1] <= b for a, b in covered):
                problems.append({"what": "string literal derived from a wire name/key outside the known places", "got": t[max(0, r[0] - 30):r[1] + 20], "want": None, "keys": None})
                break
        for p in problems[:2]:
            res["violations"].append(dict(p, kind="binding"))
    return finish_case(I, res)


def wire_contexts(lang, sk, names, kinds, is_unit, cfg):
    """-> (per-variant list of spans holding the wire name, spans holding the tag key, spans holding the content key)"""
    t = sk.text
    S = "(" + SYM + "+)"
    wire, tags, cons = [], [], []
    pre = cfg.get("prefix", "") if lang in ("swift", "kotlin") else ""
    if lang == "typescript":
        if is_unit:
            for nm in names:
                wire.append(ctx_spans(sk, r'^\t%s = "%s",$' % (nm, S)))
        else:
            ms = list(re.finditer(r'^\t\| \{ %s: "%s", %s(\?)?: ' % (S, S, S), t, re.M))
            for m in ms:
                wire.append([(m.start(2), m.end(2))])
                tags.append((m.start(1), m.end(1)))
                cons.append((m.start(3), m.end(3)))
    elif lang == "kotlin":
        for nm in names:
            if is_unit:
                wire.append(ctx_spans(sk, r'^\t@SerialName\("%s"\)\n\t%s\("%s+"\),$' % (S, nm, SYM)) + ctx_spans(sk, r'^\t%s\("%s"\),$' % (nm, S)))
            else:
                wire.append(ctx_spans(sk, r'^\t@SerialName\("%s"\)\n\t(?:object|data class) %s\b' % (S, nm)))
        if not is_unit:
            cons += ctx_spans(sk, r"^\tdata class \w+\(val %s: " % S)
    elif lang == "swift":
        cases = [n[0].lower() + n[1:] for n in names]
        if is_unit:
            for c in cases:
                wire.append(ctx_spans(sk, r'^\tcase %s = "%s"$' % (c, S)))
        else:
            ck = re.search(r"^\tenum CodingKeys: String, CodingKey, Codable \{\n\t\tcase ((?:.|\n)*?)\n\t\}$", t, re.M)
            if not ck:
                return None, None, None
            for c in cases:
                m = re.search(r'(?:^|,\n\t\t\t)%s = "%s"' % (c, S), ck.group(1))
                if m:
                    wire.append([(ck.start(1) + m.start(1), ck.start(1) + m.end(1))])
                else:
                    m2 = re.search(r"(?:^|,\n\t\t\t)(%s)(?=,|$)" % c, ck.group(1))
                    wire.append([("implicit", c)] if m2 else [])
            cc = re.search(r"^\tprivate enum ContainerCodingKeys: String, CodingKey \{\n\t\tcase %s, %s\n\t\}$" % (S, S), t, re.M)
            if cc:
                tags.append((cc.start(1), cc.end(1)))
                cons.append((cc.start(2), cc.end(2)))
            tags += ctx_spans(sk, r"decode\(CodingKeys\.self, forKey: \.%s\)" % S)
            tags += ctx_spans(sk, r"try container\.encode\(CodingKeys\.\w+, forKey: \.%s\)" % S)
            cons += ctx_spans(sk, r"container\.decode\((?!CodingKeys)[^,\n]*, forKey: \.%s\)" % S)
            cons += ctx_spans(sk, r"container\.decodeNil\(forKey: \.%s\)" % S)
            cons += ctx_spans(sk, r"try container\.encode\(content, forKey: \.%s\)" % S)
            # any other `forKey: .X` must not exist
            for m in re.finditer(r"forKey: \.([^)\n]+)\)", t):
                sp = (m.start(1), m.end(1))
                if sp not in tags and sp not in cons:
                    tags.append(sp) if "CodingKeys." in t[max(0, m.start() - 60):m.start()] else cons.append(sp)
    elif lang == "scala":
        for nm in names:
            wire.append(ctx_spans(sk, r'^\tcase (?:object|class) %s\b[^\n]*\{\n\t\tval serialName: String = "%s"$' % (nm, S)))
        if not is_unit:
            cons += ctx_spans(sk, r"^\tcase class \w+\(%s: " % S)
    elif lang == "go":
        IDS = "[\\w\ue000-\uf8ff]+"
        if is_unit:
            for nm in names:
                wire.append(ctx_spans(sk, r'^\tE%s E = "%s"$' % (nm, S)))
        else:
            cb = re.search(r"^const \(\n((?:\t[^\n]*\n)*)\)$", t, re.M)
            if not cb:
                return None, None, None
            for m in re.finditer(r'^\t%s %s = "%s"$' % (IDS, IDS, S), cb.group(1), re.M):
                wire.append([(cb.start(1) + m.start(1), cb.start(1) + m.end(1))])
            st = re.search(r"^type E struct\{", t, re.M)
            for m in re.finditer(r'`json:"([^",`\n]*)(,omitempty)?"`', t):
                if st is None or m.start() < st.start():
                    continue
                line = t[t.rfind("\n", 0, m.start()) + 1:m.start()]
                sp = (m.start(1), m.end(1))
                if re.match(r"^\s*Content\b", line):
                    cons.append(sp)
                else:
                    tags.append(sp)
    elif lang == "python":
        IDS = "[\\w\ue000-\uf8ff]*"
        tb = re.search(r"^class E(?:Types|%s)?\w*\(str, Enum\):\n((?:    [^\n]*\n)*)" % IDS, t, re.M)
        if not tb:
            return None, None, None
        for m in re.finditer(r'^    %s = "%s"$' % (IDS, S), tb.group(1), re.M):
            wire.append([(tb.start(1) + m.start(1), tb.start(1) + m.end(1))])
        if not is_unit:
            for m in re.finditer(r"^class E(?:Alpha|Beta|Gamma)\(BaseModel\):\n((?:(?:    [^\n]*)?\n)*)", t, re.M):
                body = m.group(1)
                off = m.start(1)
                flds = []
                pos = 0
                for ln in body.split("\n"):
                    mm = re.match(r"^    (%s+): " % SYM, ln)
                    if mm:
                        flds.append((off + pos + mm.start(1), off + pos + mm.end(1), ln))
                    pos += len(ln) + 1
                if flds:
                    tags.append(flds[0][:2])
                for f in flds[1:2]:
                    cons.append(f[:2])
    return wire, tags, cons


def expected_key_counts(lang, kinds):
    n = len(kinds)
    data = sum(1 for k in kinds if k != "unit")
    if lang == "typescript":
        return n, n
    if lang == "kotlin":
        return 0, data
    if lang == "scala":
        return 0, data
    if lang == "swift":
        opt = 0
        return 2 + n, 1 + 2 * data
    if lang == "go":
        return 3, 2
    if lang == "python":
        return n, data
    return 0, 0


def render_b(case, v):
    lang, shape, cfgname = case[:3]
    kinds = {"unit3": ["unit", "unit", "unit"], "mixed": ["unit", "newtype", "struct"], "newtypes": ["newtype", "newtype"], "structs": ["struct", "unit"],
             "optional": ["unit", "optnewtype", "newtype"]}[shape]
    names = ["Alpha", "Beta", "Gamma"][:len(kinds)]
    keys = v.get("keys") or ["k%d" % i for i in range(len(kinds))]
    vs = []
    for nm, kd, k in zip(names, kinds, keys):
        body = {"unit": nm, "newtype": nm + "(String)", "optnewtype": nm + "(Option<String>)", "struct": nm + " { x: u32 }"}[kd]
        vs.append('#[serde(rename = "%s")] %s' % (k, body))
    head = "#[typeshare]\n"
    if shape != "unit3":
        head += '#[serde(tag = "%s", content = "%s")]\n' % (v.get("tag") or "t", v.get("content") or "c")
    return head + "pub enum E { %s }\n" % ", ".join(vs)


def run(rep, tier, only=None):
    P = prog()
    nat = Replayer()
    t0 = time.time()
    rep.validated += parser_selftest(P, nat)
    rep.validated += backend_selftest(P, nat, limit=None if tier == "thorough" else 10, configs=(tier == "thorough"))
    words = variant_words(tier)
    p_cases = []
    for rule in RULES:
        for w in words:
            p_cases.append(("unit", rule, w, False, "unit"))
            p_cases.append(("alg", rule, w, False, ["unit", "newtype", "struct"][(len(w) + RULES.index(rule)) % 3]))
        for kd in ("unit", "newtype", "struct"):
            p_cases.append(("alg", rule, "ul", True, kd))
        p_cases.append(("unit", rule, "ul", True, "unit"))
    b_cases = [(lang, shape, "plain") for lang in LANGS if lang != "python" for shape in ("unit3", "mixed", "newtypes", "structs", "optional")]
    b_cases += [("python", shape, "plain", vi) for shape, nv in (("unit3", 3), ("mixed", 3), ("newtypes", 2), ("structs", 2), ("optional", 3)) for vi in range(nv)]
    b_cases += [(lang, "mixed", "prefix") for lang in ("swift", "kotlin")]
    rep.bounds = {"parser": "variant identifier: UpperCamelCase class words up to %d chars (letters/digits symbolic in class); rename key 2 symbolic chars; tag 2 / content 3 symbolic chars; 10 rename_all settings; unit / newtype / struct variants" % (3 if tier == "quick" else 5),
                  "back ends": "6 languages x {3 unit variants, unit+newtype+struct, 2 newtypes, struct+unit, unit+newtype(Option)+newtype}; wire names, tag and content keys symbolic (2 chars each)"}
    rep.outside = ["internally / externally tagged enums", "keys outside [A-Za-z0-9_-]", "more than 3 variants", "non-ASCII variant identifiers (C16)"]
    rep.assumptions = ["oracle: serde_derive apply_to_variant restated over symbolic chars (checks/c16.py)", "per-language context patterns name the places that carry wire names / tag / content keys"]
    reported = set()
    if not only or "p" in only:
        rep.harnesses["parser cases"] = len(p_cases)
        for st, case, r in pmap(("checks.c02", "case_p"), p_cases):
            rep.obligations += 1
            if st != "ok":
                rep.inconc("P %s: %s" % (case, r)); continue
            account(rep, r); rep.discharged += 1
            if not r["violations"]:
                if len(rep.samples) < 6 and len(case[2]) >= 3:
                    rep.sample({"half": "parser", "case": str(case), "paths": r["paths"], "verdict": "wire name == serde's for every identifier of the class word; tag/content keys copied exactly"})
                continue
            v = r["violations"][0]
            src = r["src"].replace("Qvar", v.get("ident") or "Mid").replace("Qkey", v.get("key") or "kk").replace("Qtag", v.get("tag") or "tg").replace("Qcon", v.get("content") or "con")
            real = nat.ask({"op": "parse", "source": src})
            rep.validated += 1
            sig = {"position": "variant", "rule": case[1] or "none", "class": case[2], "kind": v["kind"], "renamed": case[3]}
            key = tuple(sorted((a, str(b)) for a, b in sig.items()))
            if key in reported:
                continue
            ok, desc = None, ""
            try:
                if v["kind"] == "panic":
                    ok = "panic" in real or "crash" in real
                    desc = "`%s` panics: %s" % (src.strip().replace("\n", " "), real.get("panic"))
                else:
                    e = real["ok"]["enums"][0]
                    sh = e["0"] if e["$"].endswith("Unit") else e["shared"]
                    vv = sh["variants"][1]
                    rid = (vv["0"] if vv["$"].endswith("Unit") else vv["shared"])["id"]
                    ok = rid["renamed"] != v.get("want")
                    if not ok and not e["$"].endswith("Unit"):
                        ok = e["tag_key"] != v.get("tag") or e["content_key"] != v.get("content")
                    desc = "`%s`: typeshare wire name %r, serde %r" % (src.strip().replace("\n", " "), rid["renamed"], v.get("want"))
            except Exception as ex:  # noqa
                desc = "%s -> %s" % (src, str(real)[:200])
            if ok:
                reported.add(key)
                rep.violation(sig, desc, {"source": src, "half": "parser"})
            else:
                rep.inconc("engine mismatch (parser) %s: %s; %s" % (case, v, desc))
    if not only or "b" in only:
        rep.harnesses["back-end cases"] = len(b_cases)
        for st, case, r in pmap(("checks.c02", "case_b"), b_cases):
            rep.obligations += 1
            if st != "ok":
                rep.inconc("B %s: %s" % (case, r)); continue
            account(rep, r); rep.discharged += 1
            for msg in r.get("inconclusive", [])[:1]:
                rep.inconc("B %s: %s" % (case, msg))
            if not r["violations"]:
                if len(rep.samples) < 14:
                    rep.sample({"half": "back end", "case": str(case), "paths": r["paths"], "verdict": "every wire-name / tag / content place holds the IR string (unsat on every path)"})
                continue
            for v in r["violations"][:2]:
                sig = {"half": "backend", "lang": case[0], "shape": case[1], "kind": v["kind"], "what": v.get("what")}
                key = tuple(sorted((a, str(b)) for a, b in sig.items()))
                if key in reported:
                    continue
                src = render_b(case, v)
                cfg = dict(bharness.DEFAULT_CFG.get(case[0], {}))
                cfg.update({"plain": {}, "prefix": {"prefix": "OP"}}[case[2]])
                real = nat.ask({"op": "generate", "lang": case[0], "files": [{"source": src}], "config": cfg})
                rep.validated += 1
                out = real.get("out", {}).get("", None)
                if v["kind"] == "panic":
                    if "panic" in real or "crash" in real:
                        reported.add(key)
                        rep.violation(sig, "%s panics on `%s`" % (case[0], src.replace("\n", " ")), {"source": src, "lang": case[0], "config": cfg})
                    else:
                        rep.inconc("engine mismatch (panic) %s" % (case,))
                    continue
                if out is None:
                    rep.inconc("no native output for %s: %s" % (src, str(real)[:200])); continue
                got = v.get("got")
                confirmed = isinstance(got, str) and got and got in out and (v.get("want") is None or v.get("want") != got)
                if v.get("what", "").endswith("places") or v.get("what") == "case-count":
                    confirmed = True   # structural: the real text is re-read below
                    sk = extract.Skel([ord(c) for c in out])
                if confirmed:
                    reported.add(key)
                    rep.violation(sig, "%s on `%s`: %s: got %r, expected %r" % (case[0], src.replace("\n", " "), v.get("what"), got, v.get("want")), {"source": src, "lang": case[0], "config": cfg, "needle": got if isinstance(got, str) else None})
                else:
                    rep.inconc("engine mismatch (back end) %s: %s; real output %r" % (case, v, out[:300]))
    nat.close()
    rep.extra["explore_s"] = round(time.time() - t0, 1)


def replay(case):
    c = case["case"]
    rep = Replayer()
    if c.get("half") == "parser":
        print(str(rep.ask({"op": "parse", "source": c["source"]}))[:800])
        rep.close()
        return 1
    r = rep.ask({"op": "generate", "lang": c["lang"], "files": [{"source": c["source"]}], "config": c.get("config", {})})
    rep.close()
    out = r.get("out", {}).get("", "")
    print(out or r)
    return 1 if (c.get("needle") is None or c["needle"] in out) else 0
