"""C13 - --target-os filtering follows the documented accept/reject rule at every level.

Engine M: target_os_check::accept_target_os (+ TargetOsIterator::next, parser::get_meta_items) is
executed from MIR on abstract `#[cfg(..)]` attribute trees obtained from the real syn.  Tree SHAPES are
enumerated; OS names in the tree and the --target-os list are symbolic one-letter strings over {a,b,c,d},
so z3 decides the membership tests for all name assignments at once.  Oracle: the documented rule.
"""
import itertools
import time

import z3

from vlib.common import Inconclusive, seed
from vlib.harness import Replayer, pmap
from vlib.mirsym.engine import load_program, new_interp
from vlib.mirsym import synast
from vlib.mirsym.values import *  # noqa

_PROG = None
_ASTS = {}


def prog():
    global _PROG
    if _PROG is None:
        _PROG = load_program(("core",))
    return _PROG


# ---- shapes: ("os",) ("feat",) ("word",) ("not", [c]) ("any", [c..]) ("all", [c..])
LEAVES = [("os",), ("feat",), ("word",)]


def trees_depth(depth, fan):
    if depth == 0:
        return list(LEAVES)
    sub = trees_depth(depth - 1, fan)
    out = list(LEAVES)
    for a in sub:
        out.append(("not", (a,)))
    for op in ("any", "all"):
        for k in range(1, fan + 1):
            for kids in itertools.product(sub, repeat=k):
                out.append((op, tuple(kids)))
    return out


def trees_nodes(n, fan):
    """all trees with exactly n nodes"""
    memo = {}

    def go(n):
        if n in memo:
            return memo[n]
        out = []
        if n == 1:
            out = list(LEAVES)
        else:
            for a in go(n - 1):
                out.append(("not", (a,)))
            for op in ("any", "all"):
                for k in range(1, fan + 1):
                    for split in compositions(n - 1, k):
                        for kids in itertools.product(*[go(m) for m in split]):
                            out.append((op, tuple(kids)))
        memo[n] = out
        return out
    return go(n)


def compositions(total, k):
    if k == 1:
        if total >= 1:
            yield (total,)
        return
    for first in range(1, total - k + 2):
        for rest in compositions(total - first, k - 1):
            yield (first,) + rest


def render(t, ctr):
    k = t[0]
    if k == "os":
        i = ctr[0]
        ctr[0] += 1
        return 'target_os = "os%d"' % i
    if k == "feat":
        return 'feature = "f"'
    if k == "word":
        return "unix"
    return "%s(%s)" % (k, ", ".join(render(c, ctr) for c in t[1]))


def count_os(t):
    if t[0] == "os":
        return 1
    if t[0] in ("feat", "word"):
        return 0
    return sum(count_os(c) for c in t[1])


def classify(t, neg, ctr, acc, rej):
    """documented rule: OS names under some not() are rejecting, the others accepting"""
    k = t[0]
    if k == "os":
        (rej if neg else acc).append(ctr[0])
        ctr[0] += 1
    elif k in ("feat", "word"):
        pass
    else:
        for c in t[1]:
            classify(c, neg or k == "not", ctr, acc, rej)


def attr_source(shapes_group):
    """one source file holding all shapes of a group: struct S<i> carries the attributes of shape i"""
    lines = []
    for i, attrs in enumerate(shapes_group):
        ctr = [0]
        for a in attrs:
            if a == "doc":
                lines.append("/// doc")
            elif a == "derive":
                lines.append("#[derive(Debug)]")
            else:
                lines.append("#[cfg(%s)]" % render(a, ctr))
        lines.append("pub struct S%d;" % i)
    return "\n".join(lines) + "\n"


def run_case(case, tl_max):
    """case: tuple of attributes (cfg tree shapes and 'doc'/'derive' fillers) on one item"""
    P = prog()
    src = attr_source([case])
    res = {"paths": 0, "violations": [], "notes": []}
    nos = sum(count_os(a) for a in case if not isinstance(a, str))
    acc, rej = [], []
    ctr = [0]
    for a in case:
        if not isinstance(a, str):
            classify(a, False, ctr, acc, rej)
    I = new_interp(P)
    for tl in range(tl_max + 1):
        def entry(I):
            f = synast.parse_source(P, src)
            names = [z3.BitVec("n%d" % i, 32) for i in range(nos)]
            tg = [z3.BitVec("t%d" % i, 32) for i in range(tl)]
            for x in names + tg:
                I.assume(z3.And(z3.UGE(x, 97), z3.ULE(x, 100)))
            synast.plant(f, {"os%d" % i: [names[i]] for i in range(nos)})
            item = synast.item_payload(synast.file_items(P, f)[0])
            attrs = synast.attrs_of(P, item)
            targets = [RString([t]) for t in tg]
            r = I.call_static("target_os_check::accept_target_os", [SliceRef(attrs.items, 0, len(attrs.items)), SliceRef(targets, 0, tl)])
            return names, tg, r
        for kind, out, pc in I.explore(entry, max_paths=20000):
            res["paths"] += 1
            if kind == "panic":
                res["violations"].append({"kind": "panic", "msg": out.msg, "tl": tl})
                continue
            names, tg, r = out
            def in_t(x):
                return z3.Or([x == t for t in tg]) if tg else z3.BoolVal(False)
            if tl == 0:
                spec = z3.BoolVal(True)
            else:
                spec = z3.And(z3.Not(z3.Or([in_t(names[i]) for i in rej])) if rej else z3.BoolVal(True),
                              z3.Or([in_t(names[i]) for i in acc]) if acc else z3.BoolVal(True))
            got = r if is_sym(r) else z3.BoolVal(bool(r))
            m = I.sat_model(got != spec)
            if m is not None:
                ev = lambda x: chr(m.eval(x, model_completion=True).as_long())
                res["violations"].append({"kind": "wrong-decision", "names": [ev(x) for x in names], "targets": [ev(x) for x in tg],
                                          "got": bool(z3.is_true(m.eval(got, model_completion=True))), "tl": tl})
    res.update(queries=I.queries, solver_s=I.solver_s, funcs=sorted(I.called), models=sorted(I.models_hit), notes=I.notes)
    return res


# ---- levels: the guard at file / type / variant / field / struct-variant-field level, through parser::parse ------------------
LEVELS = ["file", "type", "type_before", "type_between", "enum_before", "variant", "field", "variant_field", "variant_and_field"]
LEVEL_TREES = [("os",), ("not", (("os",),)), ("any", (("os",), ("os",))), ("all", (("not", (("os",),)), ("os",))), ("all", (("os",), ("not", (("os",),)))), ("feat",)]
SPELLINGS = {"rustfmt": lambda t: t, "compact": lambda t: t.replace(" = ", "=").replace(", ", ","), "spread": lambda t: t.replace(" = ", "  =\n    ")}


def level_source(level, tree, spelling, names=None):
    ctr = [0]
    cfg = SPELLINGS[spelling]("cfg(%s)" % render(tree, ctr))
    if names is not None:
        for i, nm in enumerate(names):
            cfg = cfg.replace('"os%d"' % i, '"%s"' % nm)
    g = "#[%s]" % cfg
    if level == "file":
        return "#![%s]\n#[typeshare]\npub struct Guarded { pub x: u32 }\n" % cfg
    if level == "type":
        return "#[typeshare]\n%s\npub struct Guarded { pub x: u32 }\n#[typeshare]\npub struct Other { pub y: u32 }\n" % g
    if level == "type_before":
        # round n: the guard is written above the #[typeshare] marker (attribute order is free)
        return "%s\n#[typeshare]\npub struct Guarded { pub x: u32 }\n#[typeshare]\npub struct Other { pub y: u32 }\n" % g
    if level == "type_between":
        return "#[derive(Debug)]\n%s\n#[derive(Clone)]\n#[typeshare]\n#[serde(default)]\npub struct Guarded { pub x: u32 }\n#[typeshare]\npub struct Other { pub y: u32 }\n" % g
    if level == "enum_before":
        return "%s\n#[typeshare]\npub enum Guarded { A, B }\n#[typeshare]\npub struct Other { pub y: u32 }\n" % g
    if level == "variant":
        return "#[typeshare]\npub enum Holder { Keep, %s Guarded }\n" % g
    if level == "field":
        return "#[typeshare]\npub struct Holder { pub keep: u32, %s pub guarded: u32 }\n" % g
    if level == "variant_and_field":
        # the variant carries a guard of its own (OS name `osv`): the field is judged by its own attributes only
        vg = '#[cfg(target_os = "%s")]' % ("osv" if names is None else names[-1])
        return '#[typeshare]\n#[serde(tag = "t", content = "c")]\npub enum Holder { Keep(u32), %s V { keep: u32, %s guarded: u32 } }\n' % (vg, g)
    return '#[typeshare]\n#[serde(tag = "t", content = "c")]\npub enum Holder { Keep(u32), V { keep: u32, %s guarded: u32 } }\n' % g


def level_present(level, d):
    """is the guarded thing in the (JSON-like) summary?  d: {'structs': [(name, [fields])], 'enums': [(name, [(variant, fields|None)])]}"""
    if level == "variant_and_field":
        level = "variant_field"
    if level in ("file", "type", "type_before", "type_between"):
        return any(n == "Guarded" for n, _ in d["structs"])
    if level == "enum_before":
        return any(n == "Guarded" for n, _ in d["enums"])
    if level == "variant":
        return any(v == "Guarded" for _, vs in d["enums"] for v, _ in vs)
    if level == "field":
        return any("guarded" in fs for _, fs in d["structs"])
    return any("guarded" in (fs or []) for _, vs in d["enums"] for _, fs in vs)


def run_level(case, tl_max):
    from checks.pcommon import explore_source
    from checks.c03 import lists
    level, tree, spelling = case
    src = level_source(level, tree, spelling)
    nos = count_os(tree)
    acc, rej = [], []
    classify(tree, False, [0], acc, rej)
    res = {"paths": 0, "violations": [], "notes": [], "queries": 0, "solver_s": 0.0, "funcs": [], "models": []}
    for tl in range(1, tl_max + 1):
        names = [z3.BitVec("n%d" % i, 32) for i in range(nos)]
        tg = [z3.BitVec("t%d" % i, 32) for i in range(tl)]
        osv = z3.BitVec("nv", 32)

        def plant(I):
            for x in names + tg + [osv]:
                I.assume(z3.And(z3.UGE(x, 97), z3.ULE(x, 100)))
            return dict({"os%d" % i: [names[i]] for i in range(nos)}, osv=[osv])
        I = None
        for I, kind, pd, pc in explore_source(src, plant, target_os=[RString([t]) for t in tg], via_parse=True, file_path="src/lib.rs"):
            res["paths"] += 1
            if kind == "panic":
                res["violations"].append({"kind": "panic", "msg": pd.msg, "tl": tl}); continue
            empty = {"structs": [], "enums": []}
            got = lists(I, pd) if pd is not None else empty
            present = level_present(level, {"structs": [(a, b) for a, b in got["structs"]], "enums": [(a, b) for a, b in got["enums"]]})
            in_t = lambda x: z3.Or([x == t for t in tg])
            spec = z3.And(z3.Not(z3.Or([in_t(names[i]) for i in rej])) if rej else z3.BoolVal(True), z3.Or([in_t(names[i]) for i in acc]) if acc else z3.BoolVal(True))
            if level == "variant_and_field":
                spec = z3.And(in_t(osv), spec)
            m = I.sat_model(z3.BoolVal(bool(present)) != spec)
            if m is not None:
                ev = lambda x: chr(m.eval(x, model_completion=True).as_long())
                res["violations"].append({"kind": "wrong-decision", "names": [ev(x) for x in names] + ([ev(osv)] if level == "variant_and_field" else []), "targets": [ev(x) for x in tg], "got": bool(present), "tl": tl})
        if I is not None:
            res["queries"] += I.queries; res["solver_s"] += I.solver_s
            res["funcs"] = sorted(set(res["funcs"]) | set(I.called)); res["models"] = sorted(set(res["models"]) | set(I.models_hit)); res["notes"] = list(I.notes)
    return res


def summarise(d):
    if d is None:
        return {"structs": [], "enums": []}
    structs = [(s["id"]["original"], [f["id"]["original"] for f in s["fields"]]) for s in d["structs"]]
    enums = []
    for e in d["enums"]:
        sh = e["0"] if e["$"].endswith("Unit") else e["shared"]
        vs = []
        for v in sh["variants"]:
            if v["$"].endswith("Unit"):
                vs.append((v["0"]["id"]["original"], None))
            elif v["$"].endswith("Tuple"):
                vs.append((v["shared"]["id"]["original"], None))
            else:
                vs.append((v["shared"]["id"]["original"], [f["id"]["original"] for f in v["fields"]]))
        enums.append((sh["id"]["original"], vs))
    return {"structs": structs, "enums": enums}


def native_level(rep, case, names, targets):
    level, tree, spelling = case
    src = level_source(level, tree, spelling, names)
    r = rep.ask({"op": "parse", "source": src, "target_os": targets})
    if "ok" not in r:
        return None, src, r
    return level_present(level, summarise(r["ok"])), src, r


def concrete_source(case, names, level="type"):
    ctr = [0]
    cfgs = []
    for a in case:
        if a == "doc":
            cfgs.append("/// doc")
        elif a == "derive":
            cfgs.append("#[derive(Debug)]")
        else:
            text = render(a, ctr)
            cfgs.append("#[cfg(%s)]" % text)
    text = "\n".join(cfgs)
    for i, nm in enumerate(names):
        text = text.replace('"os%d"' % i, '"%s"' % nm)
    return "#[typeshare]\n%s\npub struct Guarded { pub x: u32 }\n#[typeshare]\npub struct Other { pub y: u32 }\n" % text


def native_decision(rep, case, names, targets):
    src = concrete_source(case, names)
    r = rep.ask({"op": "parse", "source": src, "target_os": targets})
    if "ok" not in r or r["ok"] is None:
        return None, src, r
    present = any(s["id"]["original"] == "Guarded" for s in r["ok"]["structs"])
    return present, src, r


def sig_of(case):
    def depth(t):
        return 0 if t[0] in ("os", "feat", "word") else 1 + max(depth(c) for c in t[1])

    def nots(t, d=0):
        if t[0] == "os":
            return d
        if t[0] in ("feat", "word"):
            return 0
        return max(nots(c, d + (t[0] == "not")) for c in t[1])
    trees = [a for a in case if not isinstance(a, str)]
    return {"max_not_nesting": max([nots(t) for t in trees] or [0]), "cfg_attributes": len(trees)}


def shapes(tier):
    sd = seed()
    out = []
    d2 = trees_depth(2, 2)
    if tier == "quick":
        out += [(t,) for t in d2]
    else:
        out += [(t,) for t in d2]
        seen = set(d2)
        for n in range(1, 7):
            for t in trees_nodes(n, 3):
                if t not in seen:
                    seen.add(t)
                    out.append((t,))
    # several attributes on one item (two cfg attributes, fillers in between)
    small = trees_depth(1, 1)
    pairs = [(a, b) for a in small for b in small]
    if tier == "quick":
        pairs = [p for k, p in enumerate(pairs) if k % 4 == sd % 4]
    out += [(a, "doc", b) for a, b in pairs] + [("derive", small[k % len(small)], "doc") for k in range(3)]
    return out


def run(rep, tier, only=None):
    prog()
    nat = Replayer()
    t0 = time.time()
    tl_max = 2 if tier == "quick" else 3
    cases = shapes(tier)
    rep.bounds = {"cfg_trees": "quick: every tree of depth<=2 (fan-out<=2); thorough: additionally every tree with <=6 nodes (fan-out<=3)",
                  "leaves": "target_os = x, feature = \"f\", bare word", "os_names": "symbolic over {a,b,c,d}", "target_list": "length 0..%d, symbolic over {a,b,c,d}" % tl_max,
                  "attributes_per_item": "1-2 cfg attributes mixed with doc/derive"}
    rep.outside = ["cfg predicates syn cannot parse as Meta (e.g. version(\"1.70\"))", "deeper/wider trees than the bound",
                   "at the file / variant / field levels only the six trees of the levels group are decided (the exhaustive tree enumeration is at the type level)"]
    rep.assumptions = ["documented rule: OS names under some not() reject, others accept; accepted <=> T empty or (no rejecting name in T and (no accepting name or some accepting name in T))"]
    # selftest: the repo's own 13 unit-test vectors, through the interpreter and the real library
    vecs = [("all(feature = \"my-feature\", not(target_os = \"ios\"))", ["ios", "android"], False), ("target_os = \"android\"", ["ios", "android"], True),
            ("any(target_os = \"android\", target_os = \"ios\")", ["ios", "android"], True), ("all(target_os = \"windows\", target_os = \"android\")", ["ios", "android"], True),
            ("not(any(target_os = \"wasm32\", target_os = \"ios\"))", ["ios", "android"], False), ("feature = \"my-feature\"", ["ios", "android"], True),
            ("not(any(target_os = \"wasm32\", target_os = \"ios\"))", ["macos", "android"], True), ("target_os = \"ios\"", ["macos", "android"], False),
            ("any(target_os = \"ios\", feature = \"test\")", ["macos", "android"], False), ("all(not(feature = \"f\"), target_os = \"android\")", ["android"], True),
            ("all(target_os = \"android\", not(feature = \"f\"))", ["android"], True), ("target_os = \"ios\"", [], True)]
    for cfg, tg, exp in vecs:
        f = synast.parse_source(_PROG, "#[cfg(%s)]\npub struct S;\n" % cfg)
        attrs = synast.attrs_of(_PROG, synast.item_payload(synast.file_items(_PROG, f)[0]))
        I = new_interp(_PROG)
        got = I.call_static("target_os_check::accept_target_os", [SliceRef(attrs.items, 0, len(attrs.items)), SliceRef([S(t) for t in tg], 0, len(tg))])
        r = nat.ask({"op": "parse", "source": "#[typeshare]\n#[cfg(%s)]\npub struct Guarded { pub x: u32 }\n#[typeshare]\npub struct Other { pub y: u32 }\n" % cfg, "target_os": tg})
        real = any(s["id"]["original"] == "Guarded" for s in r["ok"]["structs"])
        if bool(got) != real:
            raise Inconclusive("selftest: interpreter and real library disagree on cfg(%s) with targets %s: %s vs %s" % (cfg, tg, got, real))
        rep.validated += 1
    reported = set()
    for st, case, r in pmap(("checks.c13", "run_case"), cases, (tl_max,)):
        rep.obligations += 1
        if st != "ok":
            rep.inconc("case %s: %s" % (case, r)); continue
        rep.states += r["paths"]; rep.queries += r["queries"]; rep.solver_s += r["solver_s"]
        rep.functions.update(r["funcs"]); rep.models.update(r["models"])
        if not r["violations"]:
            rep.discharged += 1
            if len(rep.samples) < 8 and len(case) == 1 and case[0][0] in ("any", "all", "not") and r["paths"] > 6:
                rep.sample({"cfg": attr_source([case]).split("\n")[0], "paths": r["paths"], "verdict": "decision == documented rule for all OS names and target lists (unsat on every path)"})
            continue
        rep.discharged += 1
        for v in r["violations"][:2]:
            sig = dict(sig_of(case), kind=v["kind"])
            key = tuple(sorted(sig.items()))
            if v["kind"] == "panic":
                rep.inconc("panic path in accept_target_os on %s: %s" % (case, v["msg"]))
                continue
            present, src, raw = native_decision(nat, case, v["names"], v["targets"])
            rep.validated += 1
            if present is None:
                rep.inconc("replay failed for %s: %s" % (case, str(raw)[:200])); continue
            if present == v["got"]:
                if key not in reported:
                    reported.add(key)
                    rep.violation(sig, "with --target-os=%s the item guarded by `%s` is %s, the documented rule says %s"
                                  % (",".join(v["targets"]), src.split("\n")[1], "generated" if present else "dropped", "dropped" if present else "generated"),
                                  {"source": src, "target_os": v["targets"], "generated": present})
            else:
                rep.inconc("engine mismatch: %s names=%s targets=%s interpreter says %s, real library says %s" % (case, v["names"], v["targets"], v["got"], present))
    # the guard at every attachment level, entered through parser::parse (source text symbolic in the OS names)
    lcases = [(lv, t, sp) for lv in LEVELS for t in LEVEL_TREES for sp in SPELLINGS if not (t == ("feat",) and sp != "rustfmt")]
    if only:
        lcases = [c for c in lcases if "levels" in only] if "levels" in only else []
    rep.bounds["levels"] = "guard at %s level x %d cfg trees x spellings %s of the attribute text, target list of length 1..%d, entered through parser::parse (text pre-filter, syn::parse_file model, visitor)" % (LEVELS, len(LEVEL_TREES), sorted(SPELLINGS), tl_max)
    rep.harnesses["levels"] = len(lcases)
    for st, case, r in pmap(("checks.c13", "run_level"), lcases, (tl_max,)):
        rep.obligations += 1
        if st != "ok":
            rep.inconc("level case %s: %s" % (case, r)); continue
        rep.states += r["paths"]; rep.queries += r["queries"]; rep.solver_s += r["solver_s"]
        rep.functions.update(r["funcs"]); rep.models.update(r["models"])
        rep.discharged += 1
        for v in r["violations"][:1]:
            if v["kind"] == "panic":
                rep.inconc("panic path at level %s: %s" % (case, v["msg"])); continue
            sig = {"group": "levels", "level": case[0], "spelling": case[2], "kind": v["kind"], "tree": str(case[1])[:60]}
            key = ("levels", case[0], case[2], v["kind"])
            if key in reported:
                continue
            present, src, raw = native_level(nat, case, v["names"], v["targets"])
            rep.validated += 1
            if present is None:
                rep.inconc("replay failed for level %s: %s" % (case, str(raw)[:200])); continue
            if present == v["got"]:
                reported.add(key)
                rep.violation(sig, "with --target-os=%s, `%s`: the guarded %s is %s, the documented rule says %s" % (",".join(v["targets"]), src.replace("\n", " "), case[0], "generated" if present else "dropped", "dropped" if present else "generated"),
                              {"source": src, "target_os": v["targets"], "generated": present, "level": case[0]})
            else:
                rep.inconc("engine mismatch at level %s: interpreter says %s, real library %s" % (case, v["got"], present))
    nat.close()
    rep.harnesses["cases"] = len(cases)
    rep.extra["explore_s"] = round(time.time() - t0, 1)


def replay(case):
    c = case["case"]
    rep = Replayer()
    r = rep.ask({"op": "parse", "source": c["source"], "target_os": c["target_os"]})
    rep.close()
    if c.get("level"):
        present = level_present(c["level"], summarise(r.get("ok")))
    else:
        present = any(s["id"]["original"] == "Guarded" for s in r["ok"]["structs"])
    print("generated=%s (recorded violation had generated=%s)" % (present, c["generated"]))
    return 1 if present == c["generated"] else 0
