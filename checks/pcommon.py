"""Shared pieces of the parser-level (P family) checks."""
import z3

from vlib.mirsym.engine import load_program, new_interp
from vlib.mirsym import synast, pharness, irjson
from vlib.mirsym.values import *  # noqa

_PROG = None


def prog():
    global _PROG
    if _PROG is None:
        _PROG = load_program(("core",))
    return _PROG


def explore_source(src, plant=None, target_os=(), multi_file=False, max_paths=20000, interp=None, crate="", file_path="src/lib.rs", via_parse=True):
    """run the visitor on `src` (placeholders planted by plant(I) -> mapping); yields
    (I, kind, parsed_data_json|None|Panic, pc) per path.  via_parse: enter through `parser::parse` itself (text pre-filter,
    syn::parse_file model, visitor) with the placeholders symbolic in the source text as well"""
    P = prog()
    I = interp or new_interp(P)

    def entry_parse(I):
        from vlib.mirsym import parse_entry
        r = parse_entry.run_parse(I, src, plant(I) if plant else None, target_os=target_os, multi_file=multi_file, crate=crate, file_path=file_path)
        if r.variant != 0:
            note = "parser::parse returned Err for a harness source (treated as: nothing generated)"
            if note not in I.notes:
                I.notes.append(note)
            return None
        o = r.fields[0]
        return None if o.variant == 0 else o.fields[0]

    def entry(I):
        if via_parse:
            return entry_parse(I)
        f = synast.parse_source(P, src)
        if plant:
            synast.plant(f, plant(I))
        r = pharness.run_visitor(I, f, target_os=target_os, multi_file=multi_file, crate=crate, file_path=file_path)
        if r.variant == 0:
            return None
        return r.fields[0]
    for kind, out, pc in I.explore(entry, max_paths=max_paths):
        yield I, kind, out, pc


def pd_summary(I, pd):
    """small concrete summary of a ParsedData value (names only; strings may be symbolic -> shown)"""
    if pd is None:
        return None
    L = I.prog.layout
    names = L.structs["ParsedData"]
    g = lambda n: pd.fields[names.index(n)]
    return {"structs": len(g("structs").items), "enums": len(g("enums").items), "aliases": len(g("aliases").items),
            "consts": len(g("consts").items), "errors": len(g("errors").items)}


def error_variants(I, pd):
    L = I.prog.layout
    names = L.structs["ParsedData"]
    errs = pd.fields[names.index("errors")].items
    en = L.structs["ErrorInfo"]
    out = []
    for e in errs:
        err = unbox(e.fields[en.index("error")])
        out.append(L.enums["ParseError"][err.variant])
    return out


def account(rep, r):
    rep.states += r.get("paths", 0)
    rep.queries += r.get("queries", 0)
    rep.solver_s += r.get("solver_s", 0.0)
    rep.functions.update(r.get("funcs", []))
    rep.models.update(r.get("models", []))
    for nt in r.get("notes", []):
        if nt not in rep.assumptions:
            rep.assumptions.append(nt)


def finish_case(I, res):
    res.update(queries=I.queries, solver_s=I.solver_s, funcs=sorted(I.called), models=sorted(I.models_hit), notes=list(I.notes))
    return res
