"""C07 - the tool always terminates with output or a diagnostic; it never panics or hangs.

Engine M: the parser entry points (visitor, parse_*, RustType::try_from, get_field_decorators,
ItemUseIter, rename functions) and generate_types of all six back ends are executed from MIR on the
edge shapes of the supported grammar; identifiers are symbolic within class words (incl. `_` and a
non-ASCII letter), nested decorator idents are symbolic.  Post: no feasible path ends in a panic
(z3 decides reachability of every panic site under the path condition), the step budget is never
exhausted (divergence), and every recorded error carries the file name.
"""
import itertools
import time

import z3

from vlib.common import Inconclusive, seed
from vlib.harness import Replayer, pmap
from vlib.mirsym.engine import new_interp
from vlib.mirsym.selftest import parser_selftest, backend_selftest
from vlib.mirsym import bharness
from vlib.mirsym.values import *  # noqa
from checks.pcommon import prog, explore_source, account, finish_case
from checks.c16 import CLASSES

LANGS = ["typescript", "kotlin", "swift", "scala", "go", "python"]
RULES = ["lowercase", "UPPERCASE", "PascalCase", "camelCase", "snake_case", "SCREAMING_SNAKE_CASE", "kebab-case", "SCREAMING-KEBAB-CASE"]

SHAPES = {
    # name: (source, multi_file)
    "empty_tuple_struct": ("#[typeshare]\npub struct A();\n", False),
    "tuple_struct_1": ("#[typeshare]\npub struct A(String);\n", False),
    "tuple_struct_2": ("#[typeshare]\npub struct A(String, u32);\n", False),
    "unit_struct": ("#[typeshare]\npub struct A;\n", False),
    "empty_struct": ("#[typeshare]\npub struct A {}\n", False),
    "empty_enum": ("#[typeshare]\npub enum A {}\n", False),
    "empty_tuple_variant": ('#[typeshare]\n#[serde(tag = "t", content = "c")]\npub enum A { V(), W(u32) }\n', False),
    "empty_tuple_variant_unit_enum": ("#[typeshare]\npub enum A { V() }\n", False),
    "empty_struct_variant": ('#[typeshare]\n#[serde(tag = "t", content = "c")]\npub enum A { V {}, W(u32) }\n', False),
    "vec_no_args": ("#[typeshare]\npub struct A { pub f: Vec }\n", False),
    "option_no_args": ("#[typeshare]\npub struct A { pub f: Option }\n", False),
    "hashmap_no_args": ("#[typeshare]\npub struct A { pub f: HashMap }\n", False),
    "hashmap_one_arg": ("#[typeshare]\npub struct A { pub f: HashMap<String> }\n", False),
    "box_no_args": ("#[typeshare]\npub struct A { pub f: Box }\n", False),
    "arc_no_args_alias": ("#[typeshare]\npub type A = Arc;\n", False),
    "vec_lifetime_only": ("#[typeshare]\npub struct A<'a> { pub f: Vec<'a> }\n", False),
    "vec_in_serialized_as": ('#[typeshare]\npub struct A { #[typeshare(serialized_as = "Vec")] pub f: Foo }\n', False),
    "bad_serialized_as": ('#[typeshare]\npub struct A { #[typeshare(serialized_as = "not a type !")] pub f: Foo }\n', False),
    "array_non_literal_len": ("#[typeshare]\npub struct A { pub f: [u8; N] }\n", False),
    "array_len_0": ("#[typeshare]\npub struct A { pub f: [u8; 0], pub g: [String; 1], pub h: Vec<[u32; 0]> }\n", False),
    "array_len_0_alias_variant": ('#[typeshare]\npub type Al = [String; 0];\n#[typeshare]\n#[serde(tag = "t", content = "c")]\npub enum A { V([u8; 0]), W { x: [bool; 0] } }\n', False),
    "array_len_big": ("#[typeshare]\npub struct A { pub f: [u8; 40], pub g: [[u8; 2]; 0] }\n", False),
    "fn_pointer_type": ("#[typeshare]\npub struct A { pub f: fn(u32) -> u32 }\n", False),
    "impl_trait_type": ("#[typeshare]\npub type A = Box<dyn Fn()>;\n", False),
    "const_string": ('#[typeshare]\npub const A: &str = "x";\n', False),
    "const_ok": ("#[typeshare]\npub const A: u32 = 3;\n", False),
    "const_big": ("#[typeshare]\npub const A: U53 = 340282366920938463463374607431768211455;\n", False),
    "union": ("#[typeshare]\npub union A { a: u32, b: f32 }\n", False),
    "generic_enum_struct_variant": ('#[typeshare]\n#[serde(tag = "t", content = "c")]\npub enum A<T> { V { x: T }, W(Vec<T>) }\n', False),
    "recursive_struct": ("#[typeshare]\npub struct A { pub left: Option<Box<A>>, pub right: Option<Box<A>>, pub all: Vec<A> }\n", False),
    "mutual_recursion": ("#[typeshare]\npub struct A { pub b: Option<Box<B>>, pub bs: Vec<B> }\n#[typeshare]\npub struct B { pub a: Option<Box<A>>, pub as_: Vec<A> }\n", False),
    "recursive_enum": ('#[typeshare]\n#[serde(tag = "t", content = "c")]\npub enum A { L(Box<A>), R(Box<A>), S { a: Vec<A> }, N }\n', False),
    "map_key_vec_tuple_variant": ('#[typeshare]\n#[serde(tag = "t", content = "c")]\npub enum A { ByDigest(HashMap<Vec<u8>, String>), U }\n', False),
    "map_key_map_tuple_variant": ('#[typeshare]\n#[serde(tag = "t", content = "c")]\npub enum A { ByMap(HashMap<HashMap<String, u32>, bool>), U }\n', False),
    "map_key_slice_tuple_variant": ('#[typeshare]\n#[serde(tag = "t", content = "c")]\npub enum A { BySlice(HashMap<&\'static [u8], u32>), Nested(Vec<Option<HashMap<Vec<String>, u8>>>) }\n', False),
    "map_key_vec_struct_variant": ('#[typeshare]\n#[serde(tag = "t", content = "c")]\npub enum A { S { m: HashMap<Vec<String>, u32> }, U }\n', False),
    "map_key_containers_struct": ("#[typeshare]\npub struct A { pub a: HashMap<Vec<u8>, String>, pub b: HashMap<Option<String>, u32>, pub c: Vec<HashMap<[u8; 2], bool>> }\n", False),
    "map_key_containers_alias": ("#[typeshare]\npub type Al = HashMap<Vec<u8>, Vec<u8>>;\n", False),
    "map_key_odd_scalars": ('#[typeshare]\npub struct A { pub a: HashMap<bool, u32>, pub b: HashMap<(), u32>, pub c: HashMap<f64, u32>, pub d: HashMap<char, u32> }\n#[typeshare]\n#[serde(tag = "t", content = "c")]\npub enum E { V(HashMap<bool, ()>), W(HashMap<char, f32>) }\n', False),
    "map_key_generic_variant": ('#[typeshare]\n#[serde(tag = "t", content = "c")]\npub enum A<T> { V(HashMap<T, String>), W { m: HashMap<T, Vec<T>> } }\n#[typeshare]\npub struct B<K> { pub m: HashMap<K, u32> }\n', False),
    "nested_options_variant": ('#[typeshare]\n#[serde(tag = "t", content = "c")]\npub enum A { V(Option<Option<Vec<Option<u8>>>>), W(Vec<Vec<Vec<()>>>), X(Box<Option<Box<A>>>) }\n', False),
    "alias_self": ("#[typeshare]\npub type A = A;\n", False),
    "alias_cycle_2": ("#[typeshare]\npub type Metres = Distance;\n#[typeshare]\npub type Distance = Metres;\n", False),
    "alias_cycle_3_with_user": ("#[typeshare]\npub type Aa = Bb;\n#[typeshare]\npub type Bb = Cc;\n#[typeshare]\npub type Cc = Aa;\n#[typeshare]\npub struct Uu { pub f: Aa, pub g: Vec<Bb> }\n", False),
    "alias_chain_into_cycle": ("#[typeshare]\npub type Aa = Bb;\n#[typeshare]\npub type Bb = Bb;\n#[typeshare]\n#[serde(tag = \"t\", content = \"c\")]\npub enum Ee { V(Aa), W { x: Bb } }\n", False),
    "serialized_as_self": ('#[typeshare(serialized_as = "AccountId")]\npub struct AccountId(Uuid);\n#[typeshare]\npub struct Uu { pub id: AccountId }\n', False),
    "alias_generic_self": ("#[typeshare]\npub type Tt = Vec<Tt>;\n#[typeshare]\npub type Gg<T> = Gg<Option<T>>;\n", False),
    "use_bare": ("use foo;\n#[typeshare]\npub struct A { pub f: u32 }\n", True),
    "use_rename": ("use foo::Bar as Baz;\n#[typeshare]\npub struct A { pub f: Baz }\n", True),
    "use_glob": ("use foo::*;\n#[typeshare]\npub struct A { pub f: Thing }\n", True),
    "use_group_self": ("use foo::{self, Bar, baz::{Qux, *}};\n#[typeshare]\npub struct A { pub f: Qux }\n", True),
    "use_leading_colon": ("use ::foo::Bar;\n#[typeshare]\npub struct A { pub f: Bar }\n", True),
    "use_crate_glob": ("use crate::*;\nuse super::x::Y;\nuse self::z::W;\n#[typeshare]\npub struct A { pub f: Y, pub g: W }\n", True),
    "use_uppercase_root": ("use Foo::Bar;\nuse Bar;\n#[typeshare]\npub struct A { pub f: Bar }\n", True),
    "use_empty_group": ("use foo::{};\n#[typeshare]\npub struct A { pub f: u32 }\n", True),
    "qualified_paths": ("#[typeshare]\npub struct A { pub f: foo::bar::Baz, pub g: crate::Qux, pub h: <T as Tr>::X }\n", True),
    "decorator_unknown_nested": ("#[typeshare]\npub struct A { #[typeshare(Qlang(readonly))] pub f: u32 }\n", False),
    "decorator_nested_value": ('#[typeshare]\npub struct A { #[typeshare(Qlang(type = "X"))] pub f: u32 }\n', False),
    "decorator_on_item": ("#[typeshare(Qlang(readonly))]\npub struct A { pub f: u32 }\n", False),
    "decorator_empty": ("#[typeshare]\npub struct A { #[typeshare(Qlang())] pub f: u32 }\n", False),
    "decorator_garbage": ("#[typeshare]\npub struct A { #[typeshare(Qlang(= = 3))] pub f: u32 }\n", False),
    "decorator_trailing": ('#[typeshare]\npub struct A { #[typeshare(Qlang(readonly, type = "Y",))] pub f: u32 }\n', False),
    "swift_decorators": ('#[typeshare(swift = "Equatable, , Hashable", swiftGenericConstraints = "T: Equatable", kotlin = "")]\npub struct A<T> { pub f: T }\n', False),
    "redacted": ("#[typeshare(redacted)]\npub struct A(String);\n#[typeshare(redacted)]\npub struct B { pub f: u32 }\n", False),
    "cfg_weird": ('#[typeshare]\n#[cfg(version("1.70"))]\n#[cfg(any())]\n#[cfg(not())]\npub struct A { #[cfg(all())] pub f: u32 }\n', False),
    "doc_non_string": ("#[typeshare]\n#[doc = 3]\n#[doc(hidden)]\npub struct A { pub f: u32 }\n", False),
    "serde_non_list": ('#[typeshare]\n#[serde]\n#[serde = "x"]\npub struct A { #[serde] pub f: u32, #[typeshare = "y"] pub g: u32 }\n', False),
    "serde_rename_non_string": ("#[typeshare]\n#[serde(rename = 3, rename_all = 4)]\npub struct A { #[serde(rename = true)] pub f: u32 }\n", False),
    "serde_weird_tokens": ('#[typeshare]\n#[serde(bound(serialize = "T: X"), rename_all(serialize = "camelCase"))]\npub struct A<T> { #[serde(with = "m", default = "d")] pub f: T }\n', False),
}
IDENT_SHAPES = {
    "field": "#[typeshare]\n#[serde(rename_all = \"%s\")]\npub struct A { pub Qidn: u32 }\n",
    "variant": "#[typeshare]\n#[serde(rename_all = \"%s\")]\npub enum A { Qidn, Other }\n",
    "data_variant": '#[typeshare]\n#[serde(tag = "t", content = "c", rename_all = "%s")]\npub enum A { Qidn(u32), Other }\n',
    "type_name": "#[typeshare]\n#[serde(rename_all = \"%s\")]\npub struct Qidn { pub f: u32 }\n",
    "enum_name": '#[typeshare]\n#[serde(tag = "t", content = "c", rename_all = "%s")]\npub enum Qidn { A(u32), B }\n',
    "const_name": "#[typeshare]\n#[serde(rename_all = \"%s\")]\npub const Qidn: u32 = 1;\n",
}


def ident_words(tier):
    alpha = "lu_e"
    n = 2 if tier == "quick" else 3
    out = []
    for k in range(1, n + 1):
        for w in itertools.product(alpha, repeat=k):
            if w != ("_",):
                out.append("".join(w))
    return out


def gen_all(I, pd, multi_file, results, name_model):
    """generate with every back end; panics are collected per language"""
    from vlib.mirsym.models_core import clone_val
    for lang in LANGS:
        try:
            p2 = clone_val(I, pd)
            p2 = bharness.reconcile_single(I, p2, crate="app" if multi_file else "")
            bharness.generate(I, lang, p2)
        except Panic as p:
            results.append({"kind": "panic", "stage": lang, "msg": p.msg})
        except Unsupported as e:
            if "budget exhausted" in str(e) or "call depth exceeded" in str(e):
                results.append({"kind": "divergence", "stage": lang, "msg": str(e)[:120]})
            else:
                raise


def case_shape(case):
    name, sym = case
    src, multi = SHAPES[name]
    res = {"paths": 0, "violations": [], "src": src}
    I = None

    def plant(I):
        if "Qlang" not in src:
            return {}
        cs = [z3.BitVec("g%d" % i, 32) for i in range(len(sym))]
        for c in cs:
            I.assume(z3.And(z3.UGE(c, 97), z3.ULE(c, 122)))
        return {"Qlang": cs}
    try:
        for I, k, pd, pc in explore_source(src, plant if "Qlang" in src else None, multi_file=multi, crate="app" if multi else "", file_path="app/src/lib.rs"):
            res["paths"] += 1
            word = None
            if "Qlang" in src:
                m = I.sat_model()
                word = "".join(chr(m.eval(z3.BitVec("g%d" % i, 32), model_completion=True).as_long()) for i in range(len(sym)))
            if k == "panic":
                res["violations"].append({"kind": "panic", "stage": "parser", "msg": pd.msg, "word": word})
                continue
            if pd is None:
                continue
            L = I.prog.layout
            pdn = L.structs["ParsedData"]
            errs = pd.fields[pdn.index("errors")].items
            for e in errs:
                fn = pystr(e.fields[L.structs["ErrorInfo"].index("file_name")])
                if fn != "app/src/lib.rs":
                    res["violations"].append({"kind": "error-without-file-name", "stage": "parser", "msg": fn, "word": word})
            if errs:
                continue
            out = []
            gen_all(I, pd, multi, out, None)
            for v in out:
                res["violations"].append(dict(v, word=word))
    except Unsupported as e:
        if "budget exhausted" in str(e) or "call depth exceeded" in str(e):
            res["violations"].append({"kind": "divergence", "stage": "parser", "msg": str(e)[:120], "word": None})
        else:
            raise
    return finish_case(I, res) if I else res


def case_ident(case):
    where, rule, word = case
    src = IDENT_SHAPES[where] % rule
    res = {"paths": 0, "violations": [], "src": src}
    I = None

    def syms():
        return [z3.BitVec("c%d" % i, 32) for i in range(len(word))]

    def plant(I):
        cs = syms()
        for c, k in zip(cs, word):
            lo, hi = CLASSES[k]
            I.assume(z3.And(z3.UGE(c, lo), z3.ULE(c, hi)))
        return {"Qidn": cs}
    try:
        for I, k, pd, pc in explore_source(src, plant, file_path="app/src/lib.rs"):
            res["paths"] += 1
            m = I.sat_model()
            ident = "".join(chr(m.eval(c, model_completion=True).as_long()) for c in syms())
            if k == "panic":
                res["violations"].append({"kind": "panic", "stage": "parser", "msg": pd.msg, "ident": ident}); continue
            if pd is None:
                continue
            L = I.prog.layout
            if pd.fields[L.structs["ParsedData"].index("errors")].items:
                continue
            out = []
            gen_all(I, pd, False, out, None)
            for v in out:
                res["violations"].append(dict(v, ident=ident))
    except Unsupported as e:
        if "budget exhausted" in str(e) or "call depth exceeded" in str(e):
            res["violations"].append({"kind": "divergence", "stage": "parser", "msg": str(e)[:120], "ident": None})
        else:
            raise
    return finish_case(I, res) if I else res


def native(nat, src, multi, stage):
    if stage == "parser":
        r = nat.ask({"op": "parse", "source": src, "multi_file": multi, "crate_name": "app" if multi else "", "file_path": "app/src/lib.rs"}, timeout=30)
    else:
        cfg = dict(bharness.DEFAULT_CFG.get(stage, {}))
        r = nat.ask({"op": "generate", "lang": stage, "multi_file": multi, "files": [{"source": src, "crate_name": "app" if multi else "", "file_path": "app/src/lib.rs"}], "config": cfg}, timeout=30)
    return ("panic" in r or "crash" in r), r


def run(rep, tier, only=None):
    P = prog()
    nat = Replayer()
    t0 = time.time()
    rep.validated += parser_selftest(P, nat, limit=20)
    rep.validated += backend_selftest(P, nat, limit=None if tier == "thorough" else 8, configs=False)
    shape_cases = []
    for name, (src, multi) in SHAPES.items():
        if "Qlang" in src:
            for n in (2, 5, 6, 10):    # go / scala|swift / kotlin|python / typescript lengths and others
                shape_cases.append((name, "x" * n))
        else:
            shape_cases.append((name, ""))
    words = ident_words(tier)
    sd = seed()
    ident_cases = []
    for wi, where in enumerate(IDENT_SHAPES):
        for ri, rule in enumerate(RULES):
            for k, w in enumerate(words):
                if tier == "quick" and len(w) == 2 and (k + wi + ri + sd) % 2:
                    continue
                if where in ("type_name", "enum_name", "const_name") and (w[0] in "_" and len(w) == 1):
                    continue
                ident_cases.append((where, rule, w))
    rep.bounds = {"edge shapes": sorted(SHAPES), "nested decorator ident": "symbolic lower-case word of length 2, 5, 6 or 10 (covers every language name and unknown words)",
                  "identifiers": "class words up to length %d over {lower, upper, _, é} at field / variant / type / enum / const position x 8 rename_all rules" % (2 if tier == "quick" else 3),
                  "back ends": "every accepted shape is generated with all six languages"}
    rep.outside = ["thread interleavings of the parallel walker (only the channel protocol in the control-flow graph of parallel_parse is decided) and the process exit status (the cause - a panic inside parse or a back end - is what is decided)", "unreadable files / non-UTF-8 input", "syn's own lexer"]
    rep.assumptions = ["step budget 5M MIR steps per path: exhausting it is reported as divergence and replayed natively"]
    reported = set()
    for gname, fn, cases in (("shapes", "case_shape", shape_cases), ("identifiers", "case_ident", ident_cases)):
        if only and gname not in only:
            continue
        rep.harnesses[gname] = len(cases)
        for st, case, r in pmap(("checks.c07", fn), cases):
            rep.obligations += 1
            if st != "ok":
                rep.inconc("%s %s: %s" % (gname, case, r)); continue
            account(rep, r); rep.discharged += 1
            if not r["violations"]:
                if len(rep.samples) < 12 and hash(str(case)) % 13 == 0:
                    rep.sample({"group": gname, "case": str(case), "paths": r["paths"], "verdict": "no feasible panic path in parser and six back ends"})
                continue
            for v in r["violations"]:
                if gname == "shapes":
                    sig = {"group": "shape", "shape": case[0], "stage": v["stage"], "kind": v["kind"]}
                    if "Qlang" in r["src"]:
                        known_langs = {"go", "kotlin", "scala", "swift", "typescript", "python"}
                        sig["decorator_ident"] = "language" if v.get("word") in known_langs else "unknown"
                    src = r["src"].replace("Qlang", v.get("word") or "zz")
                    multi = SHAPES[case[0]][1]
                else:
                    where, rule, word = case
                    sig = {"group": "identifier", "where": where, "rule": rule, "class": word, "stage": v["stage"], "kind": v["kind"]}
                    src = r["src"].replace("Qidn", v.get("ident") or "x")
                    multi = False
                key = tuple(sorted((a, str(b)) for a, b in sig.items()))
                if key in reported:
                    continue
                reported.add(key)
                if v["kind"] == "error-without-file-name":
                    rep.violation(sig, "`%s`: an error is recorded without the file name (%r)" % (src.replace("\n", " "), v["msg"]), {"source": src, "stage": v["stage"], "multi_file": multi})
                    continue
                crashed, raw = native(nat, src, multi, v["stage"])
                rep.validated += 1
                if crashed:
                    rep.violation(sig, "`%s`: %s %s: %s" % (src.strip().replace("\n", " "), v["stage"], "does not terminate / aborts" if v["kind"] == "divergence" else "panics", raw.get("panic", raw)),
                                  {"source": src, "stage": v["stage"], "multi_file": multi})
                else:
                    rep.inconc("engine mismatch: %s on `%s` (%s): interpreter says %s (%s), real library returns normally" % (v["stage"], src.replace("\n", " "), case, v["kind"], v["msg"]))
    nat.close()
    if not only or "cli" in only:
        from checks.c07cli import run_cli_half
        run_cli_half(rep, tier)
    rep.extra["explore_s"] = round(time.time() - t0, 1)


def replay(case):
    c = case["case"]
    if c.get("cli_config"):
        from checks.c07cli import replay_cli
        return replay_cli(cfg=c["cli_config"])
    if c.get("cli_protocol"):
        from checks.c07cli import replay_cli
        return replay_cli(c['cli_protocol'])
    rep = Replayer()
    crashed, raw = native(rep, c["source"], c.get("multi_file", False), c["stage"])
    rep.close()
    print(str(raw)[:500])
    return 1 if crashed else 0
