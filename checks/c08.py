"""C08 - unsupported constructs are rejected with an error, never silently mis-generated.

Engine M: the real visitor/parser (TypeShareVisitor::visit_*, parse_struct/enum/type_alias/const,
RustType::try_from / FromStr, parse_const_expr, is_skipped, collect_result) is executed from MIR on
ASTs produced by the real syn.  Part A plants an unsupported leaf type (u64/i64 and usize/isize with
the first letter symbolic, or a tuple) under every wrapper chain within the bound at every position,
with and without a skip marker.  Part B enumerates enum shapes (variant kinds x skip x tag x content),
tuple arities, flatten and const initialisers against an independent oracle of the documented rules.
"""
import itertools
import time

import z3

from vlib.common import Inconclusive, seed
from vlib.harness import Replayer, pmap
from vlib.mirsym.engine import new_interp
from vlib.mirsym.selftest import parser_selftest
from vlib.mirsym.values import *  # noqa
from checks.pcommon import prog, explore_source, pd_summary, error_variants, account, finish_case

WRAPPERS = ["Vec<{}>", "Option<{}>", "HashMap<String, {}>", "HashMap<{}, String>", "Box<{}>", "Arc<{}>", "&'static {}", "[{}; 2]",
            "&'static [{}]", "Foo<{}>", "std::vec::Vec<{}>"]
LEAVES = ["X64", "Xsize", "(A, B)", "(A,)"]   # (A,) is the real one-element tuple (serde: `[A]`), not the parenthesised type (A)
POSITIONS = ["field", "tuple_struct", "newtype_variant", "struct_variant_field", "alias", "const", "serialized_as_field", "serialized_as_item",
             "serialized_as_tuple_struct", "serialized_as_variant_payload", "serialized_as_variant_field", "serialized_as_enum_item"]
SKIPS = {"field": ["", "#[serde(skip)]", "#[typeshare(skip)]", "#[serde(default, skip)]", "#[serde(default)] #[doc = \"d\"] #[serde(skip)]"],
         "newtype_variant": ["", "#[serde(skip)]", "#[typeshare(skip)]"],
         "struct_variant_field": ["", "#[serde(skip)]", "#[typeshare(skip)]", "VARIANT#[typeshare(skip)]"],
         "serialized_as_field": ["", "#[serde(skip)]"], "serialized_as_variant_payload": ["", "#[serde(skip)]"], "serialized_as_variant_field": ["", "#[typeshare(skip)]"]}


def chains(depth):
    out = [()]
    for d in range(1, depth + 1):
        out += list(itertools.product(range(len(WRAPPERS)), repeat=d))
    return out


def type_text(chain, leaf):
    t = {"X64": "Qaa", "Xsize": "Qbbbb", "(A, B)": "(A, B)", "(A,)": "(A,)"}[leaf]
    for w in reversed(chain):
        t = WRAPPERS[w].format(t)
    return t


def source_a(pos, chain, leaf, skip):
    ty = type_text(chain, leaf)
    vskip = ""
    if skip.startswith("VARIANT"):
        vskip, skip = skip[len("VARIANT"):], ""
    if pos == "field":
        return "#[typeshare]\npub struct Outer { pub keep: String, %s pub bad: %s }\n" % (skip, ty)
    if pos == "tuple_struct":
        return "#[typeshare]\npub struct Outer(%s);\n" % ty
    if pos == "newtype_variant":
        return '#[typeshare]\n#[serde(tag = "type", content = "content")]\npub enum Outer { Keep(String), %s Bad(%s) }\n' % (skip, ty)
    if pos == "struct_variant_field":
        return '#[typeshare]\n#[serde(tag = "type", content = "content")]\npub enum Outer { Keep(String), %s Bad { keep: String, %s bad: %s } }\n' % (vskip, skip, ty)
    if pos == "alias":
        return "#[typeshare]\npub type Outer = %s;\n" % ty
    if pos == "const":
        return "#[typeshare]\npub const Outer: %s = 1;\n" % ty
    if pos == "serialized_as_field":
        return '#[typeshare]\npub struct Outer { pub keep: String, %s #[typeshare(serialized_as = "%s")] pub bad: Foo }\n' % (skip, ty.replace("'static ", ""))
    if pos == "serialized_as_item":
        return '#[typeshare(serialized_as = "%s")]\npub struct Outer { pub x: Foo }\n' % ty.replace("'static ", "")
    sa = ty.replace("'static ", "")
    if pos == "serialized_as_tuple_struct":
        return '#[typeshare]\npub struct Outer(#[typeshare(serialized_as = "%s")] Foo);\n' % sa
    if pos == "serialized_as_variant_payload":
        return '#[typeshare]\n#[serde(tag = "type", content = "content")]\npub enum Outer { Keep(String), %s Bad(#[typeshare(serialized_as = "%s")] Foo) }\n' % (skip, sa)
    if pos == "serialized_as_variant_field":
        return '#[typeshare]\n#[serde(tag = "type", content = "content")]\npub enum Outer { Keep(String), Bad { keep: String, %s #[typeshare(serialized_as = "%s")] bad: Foo } }\n' % (skip, sa)
    if pos == "serialized_as_enum_item":
        return '#[typeshare(serialized_as = "%s")]\npub enum Outer { A, B }\n' % sa
    raise KeyError(pos)


def planter(leaf, src):
    def plant(I):
        m = {}
        if leaf == "X64":
            c = z3.BitVec("leaf0", 32)
            I.assume(z3.Or(c == ord("u"), c == ord("i")))
            m["Qaa"] = [c, ord("6"), ord("4")]
            key, val = "Qaa", m["Qaa"]
        elif leaf == "Xsize":
            c = z3.BitVec("leaf0", 32)
            I.assume(z3.Or(c == ord("u"), c == ord("i")))
            m["Qbbbb"] = [c] + [ord(x) for x in "size"]
            key, val = "Qbbbb", m["Qbbbb"]
        else:
            return m
        # the same placeholder inside a serialized_as string literal
        import re
        for lit in re.findall(r'serialized_as = "([^"]*)"', src):
            if key in lit:
                i = lit.index(key)
                m[lit] = [ord(x) for x in lit[:i]] + val + [ord(x) for x in lit[i + len(key):]]
        return m
    return plant


def case_a(case):
    pos, chain, leaf, skip = case
    src = source_a(pos, chain, leaf, skip)
    res = {"paths": 0, "violations": [], "src": src}
    skipped = bool(skip)
    I = None
    for I, kind, pd, pc in explore_source(src, planter(leaf, src)):
        res["paths"] += 1
        m = None
        if kind == "panic":
            res["violations"].append({"kind": "panic", "msg": pd.msg})
            continue
        s = pd_summary(I, pd)
        n_items = 0 if s is None else s["structs"] + s["enums"] + s["aliases"] + s["consts"]
        n_err = 0 if s is None else s["errors"]
        if not skipped:
            if n_err == 0 or n_items != 0:
                res["violations"].append({"kind": "accepted", "summary": s})
        else:
            if n_err != 0 or n_items != 1:
                res["violations"].append({"kind": "skip-not-honoured", "summary": s, "errors": error_variants(I, pd) if pd is not None else []})
        if res["violations"] and "witness" not in res:
            mm = I.sat_model()
            c = z3.BitVec("leaf0", 32)
            res["witness"] = chr(mm.eval(c, model_completion=True).as_long())
    return finish_case(I, res) if I else res


# ------------------------------------------------------------------------------- part B
def enum_cases(maxv):
    kinds = ["unit", "newtype", "struct", "tuple2"]
    skips = ["", "#[serde(skip)]", "#[typeshare(skip)]"]
    out = []
    for n in range(1, maxv + 1):
        for vs in itertools.product(itertools.product(kinds, skips), repeat=n):
            for tag in (False, True):
                for content in (False, True):
                    out.append(("enum", vs, tag, content))
    return out


def source_b(case):
    k = case[0]
    if k == "enum":
        _, vs, tag, content = case
        attrs = []
        if tag:
            attrs.append('tag = "t"')
        if content:
            attrs.append('content = "c"')
        head = "#[typeshare]\n" + ("#[serde(%s)]\n" % ", ".join(attrs) if attrs else "")
        body = []
        for i, (kind, skip) in enumerate(vs):
            v = {"unit": "V%d", "newtype": "V%d(String)", "struct": "V%d { a: String }", "tuple2": "V%d(String, u32)"}[kind] % i
            body.append((skip + " " if skip else "") + v)
        return head + "pub enum Outer { %s }\n" % ", ".join(body)
    if k == "tuple_struct":
        return "#[typeshare]\npub struct Outer(%s);\n" % ", ".join(["String"] * case[1])
    if k == "tuple_inner_skip":
        # several unnamed fields of which all but one carry a skip marker: serde still writes a sequence, so this stays unsupported
        _, where, marker, skipped_first = case
        a, b = ("%s u32" % marker, "String") if skipped_first else ("String", "%s u32" % marker)
        if where == "struct":
            return "#[typeshare]\npub struct Outer(%s, %s);\n" % (a, b)
        return '#[typeshare]\n#[serde(tag = "t", content = "c")]\npub enum Outer { Keep(String), Bad(%s, %s) }\n' % (a, b)
    if k == "flatten":
        _, where, skip, merged = case
        fl = "#[serde(rename = \"x\", flatten)]" if merged else "#[serde(flatten)]"
        if merged == "serialized_as_after":
            fl = '#[serde(flatten)] #[typeshare(serialized_as = "String")]'
        elif merged == "serialized_as_before":
            fl = '#[typeshare(serialized_as = "String")] #[serde(flatten)]'
        elif merged == "default_too":
            fl = "#[serde(default, flatten)]"
        elif merged == "second_attr_after_default":
            fl = "#[serde(default)] #[serde(flatten)]"
        elif merged == "second_attr_after_rename":
            fl = '#[serde(rename = "x")] #[doc = "d"] #[serde(flatten)]'
        if where == "struct":
            return "#[typeshare]\npub struct Outer { pub keep: String, %s %s pub inner: Inner }\n" % (skip, fl)
        return '#[typeshare]\n#[serde(tag = "t", content = "c")]\npub enum Outer { Keep(String), Bad { keep: String, %s %s inner: Inner } }\n' % (skip, fl)
    if k == "const":
        return "#[typeshare]\npub const Outer: %s = %s;\n" % (case[2], case[1])
    raise KeyError(k)


def oracle_b(case):
    """-> ('error', None) | ('ok', expectation dict)"""
    k = case[0]
    if k == "enum":
        _, vs, tag, content = case
        eff = [kind for kind, skip in vs if not skip]
        if "tuple2" in eff:
            return ("error", None)
        if all(kind == "unit" for kind in eff):
            return ("error", None) if (tag or content) else ("ok", {"variants": len(eff)})
        return ("ok", {"variants": len(eff)}) if (tag and content) else ("error", None)
    if k == "tuple_struct":
        return ("ok", {}) if case[1] == 1 else ("error", None)
    if k == "tuple_inner_skip":
        return ("error", None)
    if k == "flatten":
        return ("ok", {}) if case[2] else ("error", None)
    if k == "const":
        return ("ok", {"value": case[3]}) if case[3] is not None else ("error", None)
    raise KeyError(k)


def case_b(case):
    src = source_b(case)
    exp, detail = oracle_b(case)
    res = {"paths": 0, "violations": [], "src": src}
    I = None
    for I, kind, pd, pc in explore_source(src):
        res["paths"] += 1
        if kind == "panic":
            res["violations"].append({"kind": "panic", "msg": pd.msg})
            continue
        s = pd_summary(I, pd)
        n_items = 0 if s is None else s["structs"] + s["enums"] + s["aliases"] + s["consts"]
        n_err = 0 if s is None else s["errors"]
        if exp == "error":
            if n_err == 0 or n_items != 0:
                res["violations"].append({"kind": "accepted", "summary": s})
        else:
            if n_err != 0 or n_items != 1:
                res["violations"].append({"kind": "rejected", "summary": s, "errors": error_variants(I, pd) if pd is not None else []})
            elif case[0] == "const" and detail.get("value") is not None:
                L = I.prog.layout
                pdn = L.structs["ParsedData"]
                c = pd.fields[pdn.index("consts")].items[0]
                ex = c.fields[L.structs["RustConst"].index("expr")]
                if ex.fields[0] != detail["value"]:
                    res["violations"].append({"kind": "wrong-value", "got": ex.fields[0], "want": detail["value"]})
    return finish_case(I, res) if I else res


CONSTS = [("12", "u32", 12), ("0", "i32", 0), ("-5", "i32", None), ("1 + 2", "u32", None), ("foo()", "u32", None), ("OTHER", "u32", None),
          ('"s"', "&'static str", None), ("u32::MAX", "u32", None), ("[1, 2]", "[u8; 2]", None)]
# `(7)` and `3 as u32` are outside the claim: they are not plain literals, but the value typeshare generates for them is the right one.


def b_cases(tier):
    out = enum_cases(2 if tier == "quick" else 3)
    out += [("tuple_struct", n) for n in (1, 2, 3)]
    out += [("tuple_inner_skip", w, m, f) for w in ("struct", "variant") for m in ("#[serde(skip)]", "#[typeshare(skip)]", "#[serde(skip_serializing)]") for f in (False, True)]
    out += [("flatten", w, s, m) for w in ("struct", "variant") for s in ("", "#[serde(skip)]", "#[typeshare(skip)]") for m in (False, True, "serialized_as_after", "serialized_as_before", "default_too", "second_attr_after_default", "second_attr_after_rename")]
    out += [("const", e, t, v) for e, t, v in CONSTS]
    return out


def native_check(rep, src, want_error):
    r = rep.ask({"op": "parse", "source": src})
    if "panic" in r or "crash" in r:
        return "panic", r
    d = r.get("ok")
    if d is None:
        return "none", r
    n_items = len(d["structs"]) + len(d["enums"]) + len(d["aliases"]) + len(d["consts"])
    return ("error" if d["errors"] else "ok"), {"items": n_items, "errors": [e["variant"] for e in d["errors"]], "consts": d["consts"]}


def run(rep, tier, only=None):
    P = prog()
    nat = Replayer()
    t0 = time.time()
    rep.validated += parser_selftest(P, nat)
    depth = 2 if tier == "quick" else 3
    ch = chains(depth)
    if tier == "thorough":
        sd = seed()
        import random
        rnd = random.Random(1000 + sd)
        ch += [tuple(rnd.randrange(len(WRAPPERS)) for _ in range(4)) for _ in range(300)]
        ch += [tuple([w] * 5) for w in range(len(WRAPPERS))]
    a_cases = []
    for pos in POSITIONS:
        for c in ch:
            for leaf in LEAVES:
                for skip in SKIPS.get(pos, [""]):
                    if pos in ("serialized_as_field", "serialized_as_item") and leaf == "(A, B)" and False:
                        continue
                    a_cases.append((pos, c, leaf, skip))
    rep.bounds = {"wrapper_chains": "all chains of length <= %d over %d wrappers%s" % (depth, len(WRAPPERS), "" if tier == "quick" else " + 300 seeded chains of length 4 + unary chains of length 5"),
                  "leaves": "u64|i64 and usize|isize (first letter symbolic), (A, B), (A,)", "positions": POSITIONS, "skip_markers": SKIPS,
                  "enums": "1..%d variants x {unit,newtype,struct,tuple2} x {no skip, serde(skip), typeshare(skip)} x tag x content" % (2 if tier == "quick" else 3),
                  "consts": [c[0] for c in CONSTS]}
    rep.outside = ["the directory walk and configuration loading of the CLI (the error -> no-write implication is decided on the CFG of cli generate_types, check_parse_errors and the collector fold)", "constructs not listed"]
    rep.assumptions = ["source text -> syn AST is done by the real syn (tools/astdump); ASTs are then executed from MIR",
                       "oracle: documented rules (README / docs/src/usage) restated independently of the parser"]
    kinds_reported = set()

    def handle(case, r, part):
        rep.obligations += 1
        account(rep, r)
        rep.discharged += 1
        if not r["violations"]:
            return
        for v in r["violations"][:1]:
            src = r["src"]
            if "witness" in r:
                src = src.replace("Qaa", r["witness"] + "64").replace("Qbbbb", r["witness"] + "size")
            if part == "A":
                pos, chain, leaf, skip = case
                sig = {"part": "type", "position": pos, "leaf": leaf, "skip": skip, "kind": v["kind"], "outer_wrapper": WRAPPERS[chain[0]] if chain else "-"}
                want_error = not skip
            else:
                sig = {"part": case[0], "kind": v["kind"], "detail": str(case[1:])[:120]}
                if case[0] == "const":
                    sig = {"part": "const", "kind": v["kind"], "initialiser": case[1]}
                if case[0] == "flatten":
                    sig = {"part": "flatten", "kind": v["kind"], "where": case[1], "skip": case[2]}
                want_error = oracle_b(case)[0] == "error"
            got, raw = native_check(nat, src, want_error)
            rep.validated += 1
            confirmed = False
            if v["kind"] == "panic":
                confirmed = got == "panic"
            elif v["kind"] == "accepted":
                confirmed = got == "ok" or (got == "error" and raw["items"] != 0)
            elif v["kind"] in ("rejected", "skip-not-honoured"):
                confirmed = got in ("error", "none") or (got == "ok" and raw["items"] != 1)
            elif v["kind"] == "wrong-value":
                confirmed = got == "ok"
            if confirmed:
                what = {"accepted": "is accepted without an error", "rejected": "is rejected although the rules allow it", "panic": "panics",
                        "skip-not-honoured": "still fails / is generated wrongly although the member is skipped", "wrong-value": "generates a wrong constant value"}[v["kind"]]
                rep.violation(sig, "`%s` %s (real library: %s %s)" % (src.strip().replace("\n", " "), what, got, str(raw)[:160]), {"source": src, "expect_error": want_error, "kind": v["kind"]})
            else:
                rep.inconc("engine mismatch on `%s`: interpreter says %s, real library says %s %s" % (src.strip().replace("\n", " "), v, got, str(raw)[:200]))

    if not only or "a" in only:
        for st, case, r in pmap(("checks.c08", "case_a"), a_cases):
            if st != "ok":
                rep.obligations += 1
                rep.inconc("case %s: %s" % (case, r)); continue
            handle(case, r, "A")
            if not r["violations"] and len(rep.samples) < 6 and len(case[1]) == depth and case[2] == "X64":
                rep.sample({"source": r["src"].replace("Qaa", "{u|i}64"), "verdict": "error recorded and no item generated" if not case[3] else "skipped member dropped, no error", "paths": r["paths"]})
        rep.harnesses["type-level cases"] = len(a_cases)
    if not only or "b" in only:
        bc = b_cases(tier)
        for st, case, r in pmap(("checks.c08", "case_b"), bc):
            if st != "ok":
                rep.obligations += 1
                rep.inconc("case %s: %s" % (case, r)); continue
            handle(case, r, "B")
            if not r["violations"] and len(rep.samples) < 10 and case[0] == "enum" and len(case[1]) == 2 and case[1][1][1]:
                rep.sample({"source": r["src"], "oracle": oracle_b(case)[0], "verdict": "matches"})
        rep.harnesses["structural cases"] = len(bc)
    nat.close()
    if not only or "cli" in only:
        from checks.c08cli import run_cli_half
        run_cli_half(rep, tier)
    rep.extra["explore_s"] = round(time.time() - t0, 1)


def replay(case):
    c = case["case"]
    if c.get("cli"):
        from checks.c08cli import replay_cli
        return replay_cli(c)
    rep = Replayer()
    got, raw = native_check(rep, c["source"], c["expect_error"])
    rep.close()
    print(got, raw)
    k = c["kind"]
    if k == "panic":
        return 1 if got == "panic" else 0
    if k == "accepted":
        return 1 if got == "ok" else 0
    return 1 if got != "ok" else 0
