"""C09 - every reference to a generated type uses the name the type is defined under.

Engine M: reconcile::reconcile_aliases (collect_serde_renames, check_type, resolve_renamed) and the
definition / use printers of all six back ends are executed from MIR on a referenced item B (struct,
generic struct, unit enum, data enum with a struct variant, alias) and a referring item A whose
reference sits at a forked position; B's serde(rename) name (3 symbolic chars) and presence, and the
Swift/Kotlin prefix are varied.  Every identifier token of the output that denotes B or one of its helper
types is collected (definition and uses alike) and grouped by its role suffix; z3 must prove all tokens
of a group textually equal for every renamed name.  Generic parameters must never be prefixed.
"""
import itertools
import re
import time

import z3

from vlib.common import Inconclusive, seed
from vlib.harness import Replayer, pmap
from vlib.mirsym.engine import new_interp
from vlib.mirsym.selftest import parser_selftest, backend_selftest
from vlib.mirsym.ir import IR
from vlib.mirsym import bharness
from vlib.mirsym.values import *  # noqa
from vlib.mirsym.models_core import seq_eq
from vlib import extract
from checks.pcommon import prog, account, finish_case

LANGS = ["typescript", "kotlin", "swift", "scala", "go", "python"]
B_KINDS = ["struct", "generic_struct", "unit_enum", "alg_enum", "alias"]
POSITIONS = ["field", "vec", "option", "map_value", "map_both", "generic_arg", "generic_two", "alias_target", "newtype_payload", "struct_variant_field", "self_generic"]
ORIG = "Bee"
CHAIN_KINDS = ("struct", "unit_enum")
PUA = extract.PUA_CLASS


def build(ir, bkind, renamed, pos, ren_chars):
    rn = RString(list(ren_chars)) if renamed else None
    if bkind == "struct":
        b = ("structs", ir.struct(ORIG, [ir.field("x", ir.special("U32"))], renamed=rn))
    elif bkind == "generic_struct":
        b = ("structs", ir.struct(ORIG, [ir.field("x", ir.simple("T"))], generics=["T"], renamed=rn))
    elif bkind == "unit_enum":
        b = ("enums", ir.enum_unit(ORIG, [ir.v_unit("Va"), ir.v_unit("Vb")], renamed=rn))
    elif bkind == "alg_enum":
        b = ("enums", ir.enum_alg(ORIG, [ir.v_unit("Va"), ir.v_tuple("Vb", ir.special("String")), ir.v_anon("Vc", [ir.field("y", ir.special("Bool"))])], renamed=rn))
    else:
        b = ("aliases", ir.alias(ORIG, ir.vec(ir.special("String")), renamed=rn))
    ref = ir.generic(ORIG, [ir.special("String")]) if bkind == "generic_struct" else ir.simple(ORIG)
    other = ir.simple("Other")
    if pos == "field":
        a = ("structs", ir.struct("Aaa", [ir.field("r", ref)]))
    elif pos == "vec":
        a = ("structs", ir.struct("Aaa", [ir.field("r", ir.vec(ref))]))
    elif pos == "option":
        a = ("structs", ir.struct("Aaa", [ir.field("r", ir.option(ref))]))
    elif pos == "map_value":
        a = ("structs", ir.struct("Aaa", [ir.field("r", ir.hashmap(ir.special("String"), ref))]))
    elif pos == "map_both":
        a = ("structs", ir.struct("Aaa", [ir.field("r", ir.hashmap(ref, clone_ref(ir, bkind)))]))
    elif pos == "generic_arg":
        a = ("structs", ir.struct("Aaa", [ir.field("r", ir.generic("Wrap", [ref]))]))
    elif pos == "generic_two":
        a = ("structs", ir.struct("Aaa", [ir.field("r", ir.generic("Pair", [ref, clone_ref(ir, bkind)]))]))
    elif pos == "alias_target":
        a = ("aliases", ir.alias("Aaa", ref))
    elif pos == "newtype_payload":
        a = ("enums", ir.enum_alg("Aaa", [ir.v_unit("U"), ir.v_tuple("N", ref)]))
    elif pos == "struct_variant_field":
        a = ("enums", ir.enum_alg("Aaa", [ir.v_unit("U"), ir.v_anon("S", [ir.field("r", ref)])]))
    else:   # the generic struct refers to itself through a container
        a = None
    return b, a


def a_is_referrer(pos):
    return pos != "self_generic"


def clone_ref(ir, bkind):
    return ir.generic(ORIG, [ir.special("String")]) if bkind == "generic_struct" else ir.simple(ORIG)


def strip_comments(lang, text):
    """blank out comment lines / docstrings (they may quote the Rust name on purpose)"""
    out = []
    in_doc = False
    for ln in text.split("\n"):
        s = ln.strip()
        if lang == "python":
            if s.startswith('"""'):
                in_doc = not in_doc if s == '"""' or not s.endswith('"""') or len(s) < 6 else in_doc
                out.append(" " * len(ln))
                continue
            if in_doc or s.startswith("#"):
                out.append(" " * len(ln))
                continue
        elif s.startswith("//") or s.startswith("/*") or s.startswith("*"):
            out.append(" " * len(ln))
            continue
        out.append(ln)
    return "\n".join(out)


def case_c(case):
    lang, bkind, renamed, pos, prefix = case
    P = prog()
    ir = IR(P.layout)
    I = new_interp(P)
    res = {"paths": 0, "violations": [], "case": list(case)}
    cfg = {"prefix": "Op"} if (prefix and lang in ("swift", "kotlin")) else {}
    if prefix and lang == "go":
        # an acronym the symbolic name may coincide with: `Abc` is then written `ABC` - in the definition and in every reference
        cfg = {"uppercase_acronyms": ["ABC"]}

    def syms():
        return [z3.BitVec("r%d" % i, 32) for i in range(3)]

    def entry(I):
        rc = syms()
        I.assume(z3.And(z3.UGE(rc[0], 65), z3.ULE(rc[0], 90)))
        for c in rc[1:]:
            I.assume(z3.And(z3.UGE(c, 97), z3.ULE(c, 122)))
        # the new name differs from every other name in the file
        for other in ("Aaa", "Bee", "Other", "Wrap", "Pair", "Zed"):
            if len(other) == 3:
                I.assume(z3.Not(z3.And([a == ord(b) for a, b in zip(rc, other)])))
        b, a = build(ir, bkind, renamed, pos, rc)
        lists = {"structs": [], "enums": [], "aliases": []}
        lists[b[0]].append(b[1])
        if a is not None:
            lists[a[0]].append(a[1])
        if pos == "self_generic":
            lists["structs"].append(ir.struct("Aaa", [ir.field("r", ir.vec(clone_ref(ir, bkind))), ir.field("s", ir.option(clone_ref(ir, bkind)))]))
        if renamed and bkind in CHAIN_KINDS:
            # a third item whose RUST name is B's new name and which is itself renamed (to Zed): one hop of renaming only
            lists["structs"].append(ir.struct(RString(list(rc)), [ir.field("z", ir.special("Bool"))], renamed="Zed"))
        names = RMap("HashSet", [[S("Aaa"), UNIT], [RString(list(rc)) if renamed else S(ORIG), UNIT]])
        pd = ir.parsed_data(structs=lists["structs"], enums=lists["enums"], aliases=lists["aliases"], type_names=names)
        pd = bharness.reconcile_single(I, pd)
        ok, w, _ = bharness.generate(I, lang, pd, cfg)
        return ok, w

    for kind, out, pc in I.explore(entry, max_paths=5000):
        res["paths"] += 1
        rc = syms()
        if kind == "panic":
            m = I.sat_model()
            res["violations"].append({"kind": "panic", "msg": out.msg, "name": "".join(chr(m.eval(c, model_completion=True).as_long()) for c in rc)})
            continue
        ok, w = out
        if not ok:
            res.setdefault("skipped", []).append("io error (reported to the user)"); continue
        sk = extract.Skel(w.chars)
        t = strip_comments(lang, sk.text)
        groups = {}
        for m in re.finditer(r"(?:[A-Za-z0-9_]|%s)+" % PUA, t):
            tok = m.group(0)
            pm = re.search(PUA + "+", tok)
            if pm:
                name_a, name_b = pm.start(), pm.end()
            elif ORIG in tok:
                name_a = tok.index(ORIG)
                name_b = name_a + len(ORIG)
            else:
                continue
            suffix = tok[name_b:]
            pre = tok[:name_a]
            pfx = cfg.get("prefix", "")
            if pfx and pre.endswith(pfx):
                pre = pre[:-len(pfx)]
            groups.setdefault((pre, suffix), []).append((m.start(), m.end()))
        if renamed and a_is_referrer(pos) and len(groups.get(("", ""), [])) < 2:
            m = I.sat_model(z3.BoolVal(True))
            nm_ = "".join(chr(m.eval(c, model_completion=True).as_long()) for c in rc)
            res["violations"].append({"kind": "name-mismatch", "role": "type name", "a": nm_, "b": "<no reference spelled with the new name>", "name": nm_, "line_a": "", "line_b": "", "missing_reference": True})
        for (pre, suffix), spans in groups.items():
            first = spans[0]
            for sp in spans[1:]:
                eq = seq_eq(I, sk.terms(first), sk.terms(sp))
                bad = z3.BoolVal(not eq) if isinstance(eq, bool) else z3.Not(eq)
                m = I.sat_model(bad)
                if m is not None:
                    ev = lambda cs: "".join(chr(c if isinstance(c, int) else m.eval(c, model_completion=True).as_long()) for c in cs)
                    full = ev(sk.chars)
                    ln = lambda sp_: full[full.rfind("\n", 0, sp_[0]) + 1:(full.find("\n", sp_[1]) if full.find("\n", sp_[1]) >= 0 else len(full))].strip()
                    res["violations"].append({"kind": "name-mismatch", "role": (pre + "@" + suffix) if (pre or suffix) else "type name", "a": ev(sk.terms(first)), "b": ev(sk.terms(sp)), "name": ev(rc),
                                              "line_a": ln(first), "line_b": ln(sp)})
                    break
        if bkind == "generic_struct" and cfg.get("prefix") and re.search(r"\bOpT\b", t):
            res["violations"].append({"kind": "generic-parameter-prefixed", "role": "generic parameter", "a": "T", "b": "OpT", "name": None, "line_a": "", "line_b": ""})
    return finish_case(I, res)


def render(case, name):
    lang, bkind, renamed, pos, prefix = case
    rn = '#[serde(rename = "%s")]\n' % name if renamed else ""
    if bkind == "struct":
        b = "#[typeshare]\n%spub struct Bee { pub x: u32 }\n" % rn
    elif bkind == "generic_struct":
        b = "#[typeshare]\n%spub struct Bee<T> { pub x: T }\n" % rn
    elif bkind == "unit_enum":
        b = "#[typeshare]\n%spub enum Bee { Va, Vb }\n" % rn
    elif bkind == "alg_enum":
        b = '#[typeshare]\n%s#[serde(tag = "type", content = "content")]\npub enum Bee { Va, Vb(String), Vc { y: bool } }\n' % rn
    else:
        b = "#[typeshare]\n%spub type Bee = Vec<String>;\n" % rn
    if renamed and bkind in CHAIN_KINDS:
        b += '#[typeshare]\n#[serde(rename = "Zed")]\npub struct %s { pub z: bool }\n' % name
    ref = "Bee<String>" if bkind == "generic_struct" else "Bee"
    ty = {"field": ref, "vec": "Vec<%s>" % ref, "option": "Option<%s>" % ref, "map_value": "HashMap<String, %s>" % ref, "map_both": "HashMap<%s, %s>" % (ref, ref),
          "generic_arg": "Wrap<%s>" % ref, "generic_two": "Pair<%s, %s>" % (ref, ref), "alias_target": ref, "newtype_payload": ref, "struct_variant_field": ref}.get(pos)
    if pos in ("field", "vec", "option", "map_value", "map_both", "generic_arg", "generic_two"):
        a = "#[typeshare]\npub struct Aaa { pub r: %s }\n" % ty
    elif pos == "alias_target":
        a = "#[typeshare]\npub type Aaa = %s;\n" % ty
    elif pos == "newtype_payload":
        a = '#[typeshare]\n#[serde(tag = "type", content = "content")]\npub enum Aaa { U, N(%s) }\n' % ty
    elif pos == "struct_variant_field":
        a = '#[typeshare]\n#[serde(tag = "type", content = "content")]\npub enum Aaa { U, S { r: %s } }\n' % ty
    else:
        a = "#[typeshare]\npub struct Aaa { pub r: Vec<%s>, pub s: Option<%s> }\n" % (ref, ref)
    return b + a


# ---- pipeline group: from source text (real syn AST, parser from MIR) through reconcile to the generated text -------------
P_KINDS = {
    "struct": "pub struct Payment%s { pub v: u32 }",
    "unit_enum": "pub enum Payment%s { FirstCase, second_case }",
    "alg_enum": "#[serde(tag = \"t\", content = \"c\")]\npub enum Payment%s { FirstCase, SecondCase(u32) }",
    "alias": "pub type Payment%s = Vec<u32>;",
    "struct_as": "#[typeshare(serialized_as = \"String\")]\npub struct Payment%s { pub v: u32 }",
    "enum_as": "#[typeshare(serialized_as = \"String\")]\npub enum Payment%s { FirstCase, SecondCase }",
    "tuple_struct": "pub struct Payment%s(String);",
    # round n: a struct without fields takes a different branch in some back ends (Kotlin `object`, Scala `class`)
    "empty_struct": "pub struct Payment%s {}",
    "unit_struct": "pub struct Payment%s;",
}
P_ATTRS = {"none": "", "rename": "#[serde(rename = \"NewName\")]\n", "rename_all": "#[serde(rename_all = \"camelCase\")]\n",
           "rename_all_snake": "#[serde(rename_all = \"snake_case\")]\n", "both": "#[serde(rename = \"NewName\", rename_all = \"kebab-case\")]\n"}
_PIDC = r"(?:[\w]|%s)" % extract.PUA_CLASS
P_DEFINED = {
    "typescript": r"^export (?:interface|type|enum|const) (%s+)" % _PIDC,
    "kotlin": r"^(?:@\w+(?:\([^)\n]*\))?\s)*(?:data class|enum class|sealed class|class|object|typealias) (%s+)" % _PIDC,
    "swift": r"^public (?:struct|class|enum|indirect enum|typealias) (%s+)" % _PIDC,
    "scala": r"^\s*(?:case class|sealed trait|type|class) (%s+)" % _PIDC,
    "go": r"^type (%s+)[ \[]" % _PIDC,
    "python": r"^(?:class (%s+)\(|(?=[A-Z])(%s+)(?:: \w+)? = )" % (_PIDC, _PIDC),
}


def pipeline_src(bkind, attrs, suffix="Xq"):
    item = P_KINDS[bkind] % suffix
    if bkind in ("alias",) and attrs != "none":
        return None     # serde attributes do not apply to `type` items
    return "#[typeshare]\n%s%s\n#[typeshare]\npub struct Holder { pub r: Payment%s, pub rs: Vec<Payment%s> }\n" % (P_ATTRS[attrs], item, suffix, suffix)


def case_pipeline(case):
    lang, bkind, attrs = case
    from vlib.mirsym import synast, pharness
    P = prog()
    I = new_interp(P)
    res = {"paths": 0, "violations": [], "case": list(case)}
    src = pipeline_src(bkind, attrs, "Xq").replace("PaymentXq", "PLACEB")
    sym = z3.BitVec("b", 32)

    def entry(I):
        I.assume(z3.And(z3.UGE(sym, 97), z3.ULE(sym, 122)))
        f = synast.parse_source(P, src)
        synast.plant(f, {"PLACEB": [ord(c) for c in "Payment"] + [sym]})
        r = pharness.run_visitor(I, f)
        if r.variant == 0:
            raise Unsupported("vacuity: nothing parsed")
        pd = bharness.reconcile_single(I, r.fields[0])
        L = P.layout
        errs = pd.fields[L.structs["ParsedData"].index("errors")].items
        if errs:
            return None
        ok, w, _ = bharness.generate(I, lang, pd)
        return (ok, w)

    for kind, out, pc in I.explore(entry, max_paths=300):
        res["paths"] += 1
        if kind == "panic" or out is None or not out[0]:
            continue      # rejected with an error / panic: other properties
        sk = extract.Skel(out[1].chars)
        defs = []
        for m in re.finditer(P_DEFINED[lang], sk.text, re.M):
            g = m.lastindex
            defs.append((m.start(g), m.end(g)))
        fs = extract.struct_fields(lang, sk, "Holder")
        if not fs:
            raise Unsupported("vacuity: Holder's fields not found in the %s output" % lang)
        f0 = [f for f in fs if sk.str(f.ident).lower() in ("r", "`r`")]
        if not f0:
            raise Unsupported("vacuity: field r not found")
        ref = f0[0].type
        conds = [seq_eq(I, sk.terms(ref), sk.terms(d)) for d in defs]
        if any(c is True for c in conds):
            continue
        cs = [c for c in conds if c is not False]
        m = I.sat_model(z3.Not(z3.Or(cs)) if cs else z3.BoolVal(True))
        if m is not None:
            ev = lambda sp: "".join(chr(c) if isinstance(c, int) else chr(m.eval(c, model_completion=True).as_long()) for c in sk.terms(sp))
            res["violations"].append({"kind": "name-mismatch", "role": "pipeline", "reference": ev(ref), "defined": [ev(d) for d in defs], "suffix": "X" + chr(m.eval(sym, model_completion=True).as_long())})
    return finish_case(I, res)


def native_pipeline(nat, case, v):
    lang, bkind, attrs = case
    src = pipeline_src(bkind, attrs, v.get("suffix", "Xq"))
    cfg = dict(bharness.DEFAULT_CFG.get(lang, {}))
    real = nat.ask({"op": "generate", "lang": lang, "files": [{"source": src}], "config": cfg})
    out = real.get("out", {}).get("", None)
    if out is None:
        return None, str(real)[:200], src, cfg
    sk = extract.Skel([ord(c) for c in out])
    defs = [m.group(m.lastindex) for m in re.finditer(P_DEFINED[lang], sk.text, re.M)]
    fs = extract.struct_fields(lang, sk, "Holder") or []
    f0 = [f for f in fs if sk.str(f.ident).lower() in ("r", "`r`")]
    if not f0:
        return None, "field r not found in real output", src, cfg
    ref = sk.str(f0[0].type)
    if ref not in defs:
        return True, "%s: `%s`: Holder.r refers to `%s` but the output defines %s" % (lang, src.replace("\n", " "), ref, defs), src, cfg
    return False, "real output defines %s" % ref, src, cfg


GP_SHAPES = {
    "variant-nested": "#[typeshare]\npub struct Wrap<U> { pub u: U }\n#[typeshare]\n#[serde(tag = \"t\", content = \"c\")]\npub enum Holder<PLACEG> { A, V { page: Wrap<Vec<PLACEG>>, other: u32 } }\n",
    "variant-nested-option": "#[typeshare]\npub struct Wrap<U> { pub u: U }\n#[typeshare]\n#[serde(tag = \"t\", content = \"c\")]\npub enum Holder<PLACEG> { A, V { page: Wrap<Option<PLACEG>> } }\n",
    "variant-two-levels": "#[typeshare]\npub struct Wrap<U> { pub u: U }\n#[typeshare]\n#[serde(tag = \"t\", content = \"c\")]\npub enum Holder<PLACEG> { A, V { page: Wrap<Wrap<PLACEG>> } }\n",
    "variant-shallow": "#[typeshare]\n#[serde(tag = \"t\", content = \"c\")]\npub enum Holder<PLACEG> { A, V { page: Vec<PLACEG> } }\n",
    "struct-nested": "#[typeshare]\npub struct Wrap<U> { pub u: U }\n#[typeshare]\npub struct Holder<PLACEG> { pub page: Wrap<Vec<PLACEG>>, pub m: HashMap<String, Wrap<PLACEG>> }\n",
    "struct-two-params-unsorted": "#[typeshare]\npub struct Holder<PLACEG, A> { pub first: PLACEG, pub second: Vec<A>, pub m: HashMap<String, PLACEG> }\n",
    "struct-three-params-unsorted": "#[typeshare]\npub struct Holder<PLACEG, C, B> { pub first: Option<PLACEG>, pub second: Vec<B>, pub third: C }\n#[typeshare]\npub type Al<PLACEG, A> = Vec<PLACEG>;\n",
    "alias-nested": "#[typeshare]\npub struct Wrap<U> { pub u: U }\n#[typeshare]\npub type Al<PLACEG> = Vec<Option<PLACEG>>;\n#[typeshare]\npub type Am<PLACEG> = HashMap<String, Wrap<PLACEG>>;\n",
    "tuple-variant-nested": "#[typeshare]\npub struct Wrap<U> { pub u: U }\n#[typeshare]\n#[serde(tag = \"t\", content = \"c\")]\npub enum Holder<PLACEG> { A, V(Wrap<Vec<PLACEG>>) }\n",
}


def case_generic_param(case):
    """a generic parameter is never prefixed and every definition that mentions it declares it (source text -> parser -> back end)"""
    lang, shape, prefix = case
    from vlib.mirsym import synast, pharness
    P = prog()
    I = new_interp(P)
    res = {"paths": 0, "violations": [], "case": list(case)}
    src = GP_SHAPES[shape]
    sym = z3.BitVec("g", 32)

    def entry(I):
        I.assume(z3.And(z3.UGE(sym, 65), z3.ULE(sym, 90)))
        I.assume(sym != ord("U"))
        f = synast.parse_source(P, src)
        synast.plant(f, {"PLACEG": [sym]})
        r = pharness.run_visitor(I, f)
        if r.variant == 0:
            raise Unsupported("vacuity: nothing parsed")
        pd = bharness.reconcile_single(I, r.fields[0])
        cfg = {"prefix": "Op"} if prefix else {}
        ok, w, _ = bharness.generate(I, lang, pd, cfg=cfg)
        return ok, w

    pre = "Op" if prefix and lang in ("swift", "kotlin") else ""
    for kind, out, pc in I.explore(entry, max_paths=100):
        res["paths"] += 1
        if kind == "panic" or not out[0]:
            continue
        sk = extract.Skel(out[1].chars)
        t = sk.text
        # (1) `<prefix><param>` as a whole identifier
        if pre:
            for m in re.finditer(r"(?<![\w])%s(%s)(?![\w])" % (pre, extract.PUA_CLASS), t):
                e = seq_eq(I, sk.terms((m.start(1), m.end(1))), [sym])
                if e is True or (e is not False and I.sat_model(e) is not None):
                    mm = I.sat_model(z3.BoolVal(True))
                    res["violations"].append({"kind": "generic-parameter-prefixed", "line": t[t.rfind("\n", 0, m.start()) + 1:t.find("\n", m.end())].strip()[:120], "param": chr(mm.eval(sym, model_completion=True).as_long())})
                    break
        # (2) every top-level definition whose body mentions the parameter declares it in its header
        if lang in ("kotlin", "swift", "scala", "typescript"):
            for m in re.finditer(r"^(?:[^\n]*\b(?:data class|class|struct|case class|interface|sealed class|enum|indirect enum|sealed trait)\b[^\n]*)$", t, re.M):
                header = m.group(0)
                if "Inner" not in header:
                    continue
                end = re.compile(r"^[)}]", re.M).search(t, m.end())
                body = t[m.end():end.start() if end else len(t)]
                uses = re.search(extract.PUA_CLASS, body) is not None
                declares = re.search(extract.PUA_CLASS, header) is not None
                if uses and not declares:
                    mm = I.sat_model(z3.BoolVal(True))
                    res["violations"].append({"kind": "generic-parameter-not-declared", "line": header.strip()[:120], "param": chr(mm.eval(sym, model_completion=True).as_long())})
    uniq = {}
    for v in res["violations"]:
        uniq.setdefault(v["kind"], v)
    res["violations"] = list(uniq.values())
    return finish_case(I, res)


def native_generic_param(nat, case, v):
    lang, shape, prefix = case
    g = v.get("param", "T")
    src = GP_SHAPES[shape].replace("PLACEG", g)
    cfg = dict(bharness.DEFAULT_CFG.get(lang, {}))
    if prefix and lang in ("swift", "kotlin"):
        cfg["prefix"] = "Op"
    real = nat.ask({"op": "generate", "lang": lang, "files": [{"source": src}], "config": cfg})
    out = real.get("out", {}).get("", None)
    if out is None:
        return None, str(real)[:200], src, cfg
    if v["kind"] == "generic-parameter-prefixed":
        if re.search(r"(?<![\w])Op%s(?![\w])" % re.escape(g), out):
            return True, "%s with prefix Op on `%s`: the generic parameter is written `Op%s` (%s)" % (lang, src.replace("\n", " "), g, v.get("line")), src, cfg
        return False, "no Op%s in the real output" % g, src, cfg
    if v.get("line") and v["line"].replace(v.get("param", "T"), g) in out or (v.get("line") and v["line"] in out):
        return True, "%s on `%s`: `%s` uses %s without declaring it" % (lang, src.replace("\n", " "), v["line"], g), src, cfg
    return False, "header line not found in the real output", src, cfg


def run(rep, tier, only=None):
    P = prog()
    nat = Replayer()
    t0 = time.time()
    rep.validated += parser_selftest(P, nat, limit=20)
    rep.validated += backend_selftest(P, nat, limit=None if tier == "thorough" else 10, configs=(tier == "thorough"))
    sd = seed()
    cases = []
    for lang in LANGS:
        for bk in B_KINDS:
            for ren in (False, True):
                for pi, pos in enumerate(POSITIONS):
                    if pos == "self_generic" and bk != "generic_struct":
                        continue
                    for prefix in ((False, True) if lang in ("swift", "kotlin", "go") else (False,)):
                        if tier == "quick" and prefix and (pi + sd) % 3 != 0 and not (lang == "go" and ren):
                            continue
                        if lang == "go" and prefix and not ren:
                            continue
                        cases.append((lang, bk, ren, pos, prefix))
    rep.bounds = {"referenced item": B_KINDS, "rename": "absent / present with a symbolic 3-char name [A-Z][a-z][a-z]", "reference positions": POSITIONS,
                  "languages": LANGS, "prefix": "Swift/Kotlin with and without prefix Op (quick: rotated third with prefix); Go with and without uppercase_acronyms = [ABC] (the symbolic name may be Abc)"}
    rep.outside = ["references across crates (multi-file; C14)", "more than one referring item", "const types"]
    rep.assumptions = ["tokens inside comments / docstrings may quote the Rust name and are ignored", "a token denotes B if it contains the (symbolic) new name or the original name; tokens are grouped by the text following the name"]
    reported = set()
    rep.harnesses["cases"] = len(cases)
    for st, case, r in pmap(("checks.c09", "case_c"), cases):
        rep.obligations += 1
        if st != "ok":
            rep.inconc("%s: %s" % (case, r)); continue
        account(rep, r); rep.discharged += 1
        if not r["violations"]:
            if len(rep.samples) < 12 and case[2] and hash(str(case)) % 9 == 0:
                rep.sample({"case": str(case), "paths": r["paths"], "verdict": "definition and every use of B (and of its helper types) are textually equal for every new name (unsat)"})
            continue
        for v in r["violations"][:2]:
            sig = {"lang": case[0], "b_kind": case[1], "renamed": case[2], "position": case[3], "kind": v["kind"], "role": v.get("role")}
            if case[0] == "go" and case[4]:
                sig["acronyms"] = True
            key = (case[0], case[1], case[2], case[3], v["kind"], v.get("role"), case[4])
            if key in reported:
                continue
            name = v.get("name") or "Ren"
            src = render(case, name)
            cfg = dict(bharness.DEFAULT_CFG.get(case[0], {}))
            if case[4] and case[0] in ("swift", "kotlin"):
                cfg["prefix"] = "Op"
            if case[4] and case[0] == "go":
                cfg["uppercase_acronyms"] = ["ABC"]
            real = nat.ask({"op": "generate", "lang": case[0], "files": [{"source": src}], "config": cfg})
            rep.validated += 1
            out = real.get("out", {}).get("", None)
            if v["kind"] == "panic":
                if "panic" in real or "crash" in real:
                    reported.add(key)
                    rep.violation(sig, "%s panics on `%s`" % (case[0], src.replace("\n", " ")), {"source": src, "lang": case[0], "config": cfg})
                else:
                    rep.inconc("engine mismatch (panic) %s" % (case,))
                continue
            if out is None:
                rep.inconc("no native output for %s: %s" % (case, str(real)[:200])); continue
            if v.get("missing_reference"):
                code = strip_comments(case[0], out)
                n_occ = len(re.findall(r"(?<![A-Za-z0-9_])(?:Op)?%s(?![A-Za-z0-9_])" % re.escape(name), code))
                if n_occ < 2:
                    reported.add(key)
                    rep.violation(sig, "%s: `%s` is renamed to `%s`, but the output spells the new name %d time(s): the reference does not use it (%s)" % (case[0], ORIG, name, n_occ, src.replace("\n", " ")[:300]),
                                  {"source": src, "lang": case[0], "config": cfg, "missing_reference": name})
                else:
                    rep.inconc("engine mismatch %s: no reference with the new name in the interpreter's output, %d occurrences in the real output" % (case, n_occ))
                continue
            if v["line_a"] in out and v["line_b"] in out:
                reported.add(key)
                rep.violation(sig, "%s: `%s` vs `%s` (%s of %s) in `%s` ... `%s`" % (case[0], v["a"], v["b"], v["role"], "renamed " + case[1] if case[2] else case[1], v["line_a"], v["line_b"]),
                              {"source": src, "lang": case[0], "config": cfg, "lines": [v["line_a"], v["line_b"]]})
            else:
                rep.inconc("engine mismatch %s: %s; real output %r" % (case, v, out[:400]))
    pcases = [(l, bk, at) for l in LANGS for bk in P_KINDS for at in P_ATTRS if pipeline_src(bk, at) is not None]
    rep.bounds["pipeline"] = "source text -> parser (MIR) -> reconcile -> back end: referenced item kinds %s x container attributes %s, name `Payment` + a symbolic letter; the reference in another struct's field must be a defined name" % (sorted(P_KINDS), sorted(P_ATTRS))
    rep.harnesses["pipeline"] = len(pcases)
    for st, case, r in pmap(("checks.c09", "case_pipeline"), pcases):
        rep.obligations += 1
        if st != "ok":
            rep.inconc("pipeline %s: %s" % (case, r)); continue
        account(rep, r); rep.discharged += 1
        for v in r["violations"][:1]:
            bk = {"struct_as": "alias", "enum_as": "alias", "tuple_struct": "alias"}.get(case[1], case[1])
            sig = {"lang": case[0], "b_kind": bk, "renamed": case[2] in ("rename", "both"), "position": "field", "kind": "name-mismatch", "role": "pipeline", "source_kind": case[1], "attrs": case[2]}
            ok, why, src, cfg = native_pipeline(nat, case, v)
            rep.validated += 1
            if ok:
                rep.violation(sig, why, {"source": src, "lang": case[0], "config": cfg, "pipeline": list(case), "suffix": v.get("suffix", "Xq")})
            elif ok is None:
                rep.inconc("replay failed for pipeline %s: %s" % (case, why))
            else:
                rep.inconc("engine mismatch pipeline %s: %s; %s" % (case, v, why))
    gcases = [(l, sh, pf) for l in LANGS for sh in GP_SHAPES for pf in ((False, True) if l in ("swift", "kotlin") else (False,))]
    rep.bounds["generic parameters"] = "generic items whose parameter (one symbolic upper-case letter) occurs at depth 1-3 inside user generics / containers in struct fields, tuple and struct variants (%s), with and without prefix: never prefixed, declared by every helper definition that mentions it" % sorted(GP_SHAPES)
    rep.harnesses["generic-param"] = len(gcases)
    for st, case, r in pmap(("checks.c09", "case_generic_param"), gcases):
        rep.obligations += 1
        if st != "ok":
            rep.inconc("generic-param %s: %s" % (case, r)); continue
        account(rep, r); rep.discharged += 1
        for v in r["violations"][:2]:
            sig = {"lang": case[0], "b_kind": "generic_param", "renamed": False, "position": case[1], "kind": v["kind"], "role": "generic-param", "prefix": case[2]}
            ok, why, src, cfg = native_generic_param(nat, case, v)
            rep.validated += 1
            if ok:
                rep.violation(sig, why, {"source": src, "lang": case[0], "config": cfg, "generic_param": list(case), "v": v})
            elif ok is None:
                rep.inconc("replay failed for generic-param %s: %s" % (case, why))
            else:
                rep.inconc("engine mismatch generic-param %s: %s; %s" % (case, v, why))
    nat.close()
    rep.extra["explore_s"] = round(time.time() - t0, 1)


def replay(case):
    if case["case"].get("generic_param"):
        nat = Replayer()
        c = case["case"]
        ok, why, _, _ = native_generic_param(nat, tuple(c["generic_param"]), c["v"])
        nat.close()
        print(why)
        return 1 if ok else 0
    if case["case"].get("pipeline"):
        nat = Replayer()
        c = case["case"]
        ok, why, _, _ = native_pipeline(nat, tuple(c["pipeline"]), {"suffix": c.get("suffix", "Xq")})
        nat.close()
        print(why)
        return 1 if ok else 0
    c = case["case"]
    rep = Replayer()
    r = rep.ask({"op": "generate", "lang": c["lang"], "files": [{"source": c["source"]}], "config": c.get("config", {})})
    rep.close()
    out = r.get("out", {}).get("", "")
    print(out or r)
    if c.get("missing_reference"):
        code = strip_comments(c["lang"], out)
        return 1 if len(re.findall(r"(?<![A-Za-z0-9_])(?:Op)?%s(?![A-Za-z0-9_])" % re.escape(c["missing_reference"]), code)) < 2 else 0
    return 1 if all(l in out for l in c.get("lines", ["\0"])) else 0
