"""C08, CLI half: a parse error makes the run fail before anything is written.

(a) dominance on the MIR control-flow graph of the CLI's `generate_types`: z3's Datalog engine decides whether the
    block that calls `writer::write_generated` is reachable from the entry when the Ok-edge of the
    `check_parse_errors(..)?` test is removed (it must not be), and - vacuity witness - that it is reachable with it;
(b) `check_parse_errors` runs from MIR on maps of 1..3 crates with 0..2 errors each (which crate has how many errors
    is chosen by the engine): it returns Err exactly when some crate has an error;
(c) the collector fold keeps the errors of every file (`+=` from MIR on files with and without errors, both orders).
Native replay: the real binary on a tree with the construct planted, over a pre-existing output file.
"""
import re

import z3

from vlib.common import Inconclusive
from vlib.mirsym.engine import load_program, new_interp
from vlib.mirsym.ir import IR
from vlib.mirsym.values import *  # noqa

_PROG = None


def prog():
    global _PROG
    if _PROG is None:
        _PROG = load_program(("core", "cli"))
    return _PROG


def cfg_of(fn_name):
    """(blocks: {bb: (text, [successors])}) of a function, from the current MIR dump of the cli crate"""
    from vlib.mirsym import dump
    text, _ = dump.mir_text("cli")
    m = re.search(r"^fn %s\(.*?^}" % re.escape(fn_name), text, re.M | re.S)
    if not m:
        raise Inconclusive("function %s not found in the cli MIR" % fn_name)
    body = m.group(0)
    blocks = {}
    for bm in re.finditer(r"^    bb(\d+)(?: \(cleanup\))?: \{\n(.*?)^    \}", body, re.M | re.S):
        n = int(bm.group(1))
        lines = [l.strip() for l in bm.group(2).strip().split("\n")]
        term = lines[-1]
        succ = [int(x) for x in re.findall(r"bb(\d+)", term.split("->", 1)[1])] if "->" in term else []
        blocks[n] = (lines, term, succ)
    return blocks


def reachable(blocks, removed_edges, target):
    """z3 Datalog: reach(0). reach(b) :- reach(a), edge(a,b).  query reach(target)"""
    fp = z3.Fixedpoint()
    fp.set(engine="datalog")
    bv = z3.BitVecSort(16)
    reach = z3.Function("reach", bv, z3.BoolSort())
    edge = z3.Function("edge", bv, bv, z3.BoolSort())
    fp.register_relation(reach, edge)
    a, b = z3.Consts("a b", bv)
    fp.declare_var(a, b)
    fp.rule(reach(b), [reach(a), edge(a, b)])
    fp.fact(reach(z3.BitVecVal(0, 16)))
    n = 0
    for x, (_, _, succ) in blocks.items():
        for y in succ:
            if (x, y) in removed_edges:
                continue
            fp.fact(edge(z3.BitVecVal(x, 16), z3.BitVecVal(y, 16)))
            n += 1
    r = fp.query(reach(z3.BitVecVal(target, 16)))
    return r == z3.sat, n


def dominance(rep):
    """returns list of violations"""
    blocks = cfg_of("generate_types")
    writers = [n for n, (_, term, _) in blocks.items() if re.search(r"= (?:writer::)?write_generated(?:::<[^(]*>)?\(", term)]
    checks = [n for n, (_, term, _) in blocks.items() if re.search(r"= check_parse_errors\(", term)]
    if len(writers) != 1:
        raise Inconclusive("generate_types: expected one call of write_generated, found %d" % len(writers))
    out = []
    rep.functions.add("generate_types (CFG: %d blocks)" % len(blocks))
    if not checks:
        w_reach, ne = reachable(blocks, set(), writers[0])
        rep.queries += 1
        return [{"kind": "write-not-guarded", "detail": "generate_types never calls check_parse_errors"}]
    ok_edges = set()
    for c in checks:
        # follow the result value: `_N = check_parse_errors(..)` -> `_M = Try::branch(move _N)` -> `switchInt(discriminant(_M)) [0: continue, 1: break]`
        dest = re.match(r"(_\d+) = check_parse_errors\(", blocks[c][1]).group(1)
        cur = blocks[c][2][0]
        tested = None
        for _ in range(3):
            lines, term, succ = blocks[cur]
            m = re.match(r"(_\d+) = <.* as std::ops::Try>::branch\((?:move|copy) %s\)" % re.escape(dest), term)
            if m:
                tested = (m.group(1), succ[0])
                break
            if any(re.search(r"discriminant\(%s\)" % re.escape(dest), l) for l in lines):
                tested = (dest, cur)
                break
            if len(succ) < 1 or "switchInt" in term:
                break
            cur = succ[0]
        if tested is None:
            continue
        val, blk = tested
        lines, term, succ = blocks[blk]
        m = re.match(r"switchInt\(.*\) -> \[0: bb(\d+), 1: bb(\d+)", term)
        if m and any(re.search(r"discriminant\(%s\)" % re.escape(val), l) for l in lines):
            ok_edges.add((blk, int(m.group(1))))
    if not ok_edges:
        return [{"kind": "write-not-guarded", "detail": "the result of check_parse_errors is not tested before writing"}]
    with_ok, ne = reachable(blocks, set(), writers[0])
    without_ok, _ = reachable(blocks, ok_edges, writers[0])
    rep.queries += 2
    rep.extra["cfg"] = "generate_types: %d blocks, %d edges; write_generated in bb%d; Ok edge(s) of check_parse_errors(..)? %s" % (len(blocks), ne, writers[0], sorted(ok_edges))
    if not with_ok:
        raise Inconclusive("vacuity: write_generated is not reachable at all in the extracted CFG")
    if without_ok:
        out.append({"kind": "write-not-guarded", "detail": "write_generated (bb%d) is reachable from the entry without passing the Ok edge of check_parse_errors(..)?" % writers[0]})
    return out


def case_errors(shape):
    """shape: tuple of error counts per crate"""
    P = prog()
    L = P.layout
    I = new_interp(P)
    ir = IR(P.layout)
    res = {"paths": 0, "violations": [], "case": list(shape)}

    def entry(I):
        entries = []
        for k, n in enumerate(shape):
            pd = ir.parsed_data(structs=[ir.struct("S%d" % k, [ir.field("a", ir.special("U32"))])], crate="c%d" % k, file_name="c%d.ts" % k, multi_file=True)
            errs = pd.fields[L.structs["ParsedData"].index("errors")]
            for j in range(n):
                err = L.make_adt("parser::ParseError::UnsupportedType", [RVec([S("u64")])], None)
                errs.items.append(L.make_adt("parser::ErrorInfo", [S("c%d/src/lib.rs" % k), err], ["file_name", "error"]))
            entries.append([Agg("language::CrateName", [S("c%d" % k)]), pd])
        m = RMap("BTreeMap", entries)
        return I.call_static("check_parse_errors", [Ref([m], 0)])

    for kind, out, pc in I.explore(entry, max_paths=50):
        res["paths"] += 1
        if kind == "panic":
            res["violations"].append({"kind": "panic", "msg": out.msg}); continue
        want_err = any(n > 0 for n in shape)
        if (out.variant == 1) != want_err:
            res["violations"].append({"kind": "errors-not-reported" if want_err else "spurious-error", "shape": list(shape)})
    from checks.pcommon import finish_case
    return finish_case(I, res)


def case_fold_errors(order):
    """files (with/without errors) folded by the real `+=`: every error survives"""
    P = prog()
    L = P.layout
    I = new_interp(P)
    ir = IR(P.layout)
    res = {"paths": 0, "violations": [], "case": list(order)}

    def entry(I):
        from checks.c06 import collect
        files = []
        for k in order:
            pd = ir.parsed_data(structs=[ir.struct("S%d" % k, [ir.field("a", ir.special("U32"))])], crate="", file_name="out.ts")
            if k % 2:
                err = L.make_adt("parser::ParseError::UnsupportedType", [RVec([S("u64")])], None)
                pd.fields[L.structs["ParsedData"].index("errors")].items.append(L.make_adt("parser::ErrorInfo", [S("f%d.rs" % k), err], ["file_name", "error"]))
            files.append(pd)
        m = collect(I, files)
        return m

    for kind, out, pc in I.explore(entry, max_paths=20):
        res["paths"] += 1
        if kind == "panic":
            res["violations"].append({"kind": "panic", "msg": out.msg}); continue
        pd = out.entries[0][1]
        errs = pd.fields[L.structs["ParsedData"].index("errors")].items
        got = sorted(pystr(e.fields[L.structs["ErrorInfo"].index("file_name")]) for e in errs)
        want = sorted("f%d.rs" % k for k in order if k % 2)
        if got != want:
            res["violations"].append({"kind": "errors-lost-in-merge", "got": got, "want": want})
    from checks.pcommon import finish_case
    return finish_case(I, res)


FILE_KINDS = {
    "good": "#[typeshare]\npub struct Good%d { pub g: u32 }\n",
    "bad": "#[typeshare]\npub struct Bad%d { pub a: u64 }\n",
    "good+bad": "#[typeshare]\npub struct Good%d { pub g: u32 }\n#[typeshare]\npub struct AlsoBad%d { pub t: (u8, u8) }\n",
    "none": "pub struct Plain%d { pub p: u32 }\n",
    "comment": "// #[typeshare] is only mentioned here\npub struct Plain%d { pub p: u32 }\n",
    "bad-enum": "#[typeshare]\npub enum BadE%d { A(u32), B }\n",
}


def case_flow(case):
    """every file goes through parse::parse_dir_entry (real syn AST, parser from MIR), the results through the collector closure,
    then check_parse_errors: Err exactly when some file holds an annotated item that cannot be generated"""
    kinds, multi = case
    from vlib.mirsym import pharness, synast
    from vlib.mirsym.models_fs import Fs
    from vlib.mirsym.models_misc import RPath
    from checks.c06 import collect
    P = prog()
    L = P.layout
    I = new_interp(P)
    res = {"paths": 0, "violations": [], "case": [list(kinds), multi]}
    srcs = [FILE_KINDS[k] % ((i,) * FILE_KINDS[k].count("%d")) for i, k in enumerate(kinds)]

    def entry(I):
        fs = Fs(); fs.add_dir("/w/c/src")
        asts = {}
        for i, src in enumerate(srcs):
            fs.add_file("/w/c/src/f%d.rs" % i, [ord(c) for c in src])
            asts[src] = synast.parse_source(P, src)
        I.env["fs"] = fs
        I.env["parse_file"] = lambda I, s: asts.get(pystr(s))
        ctx = pharness.parse_context(P, multi_file=multi, prefix="typeshare_core::")
        lang = EnumV("typeshare_core::language::SupportedLanguage", L.enums["SupportedLanguage"].index("TypeScript"), [])
        sent = []
        for i in range(len(srcs)):
            de = Opaque("DirEntry", RPath(S("/w/c/src/f%d.rs" % i)))
            r = I.call_static("parse::parse_dir_entry", [Ref([ctx], 0), lang, Ref([de], 0)])
            if r.variant != 0:
                return ("walker-error", None)
            if r.fields[0].variant == 1:
                sent.append(r.fields[0].fields[0])
        if not sent:
            return ("nothing", None)
        m = collect(I, sent)
        return ("ok", I.call_static("check_parse_errors", [Ref([m], 0)]))

    want_err = any(k in ("bad", "good+bad", "bad-enum") for k in kinds)
    for kind, out, pc in I.explore(entry, max_paths=50):
        res["paths"] += 1
        if kind == "panic":
            res["violations"].append({"kind": "panic", "msg": out.msg}); continue
        st, r = out
        got_err = st == "walker-error" or (st == "ok" and r.variant == 1)
        if got_err != want_err:
            res["violations"].append({"kind": "errors-not-reported" if want_err else "spurious-error", "files": list(kinds), "multi": multi})
    from checks.pcommon import finish_case
    return finish_case(I, res)


def native_flow(kinds, multi):
    """real binary on the same files (one crate c), over a pre-existing output"""
    import os, shutil, tempfile, time
    from vlib.harness import CliDriver
    d = tempfile.mkdtemp(prefix="c08-")
    drv = CliDriver()
    try:
        os.makedirs(os.path.join(d, "c", "src"))
        for i, k in enumerate(kinds):
            open(os.path.join(d, "c", "src", "f%d.rs" % i), "w").write(FILE_KINDS[k] % ((i,) * FILE_KINDS[k].count("%d")))
        outdir = os.path.join(d, "out")
        os.makedirs(outdir)
        target = os.path.join(outdir, "c.ts" if multi else "out.ts")
        open(target, "w").write("// previous output\n")
        st = os.stat(target).st_mtime_ns
        time.sleep(0.02)
        rc, so, se = drv.cli(["c", "--lang", "typescript"] + (["-d", outdir] if multi else ["-o", target]), d)
        touched = open(target).read() != "// previous output\n" or os.stat(target).st_mtime_ns != st
        return rc, touched
    finally:
        drv.close()
        shutil.rmtree(d, ignore_errors=True)


def native_cli(construct="pub a: u64"):
    """real binary: a file with an unsupported construct next to a good file, output file pre-existing"""
    import os, shutil, tempfile, time
    from vlib.harness import CliDriver
    d = tempfile.mkdtemp(prefix="c08-")
    drv = CliDriver()
    try:
        os.makedirs(os.path.join(d, "src"))
        open(os.path.join(d, "src", "good.rs"), "w").write("#[typeshare]\npub struct Good { pub g: u32 }\n")
        open(os.path.join(d, "src", "bad.rs"), "w").write("#[typeshare]\npub struct Bad { %s }\n" % construct)
        out = os.path.join(d, "out.ts")
        open(out, "w").write("// previous output\n")
        st = os.stat(out).st_mtime_ns
        time.sleep(0.02)
        rc, so, se = drv.cli(["src", "--lang", "typescript", "-o", "out.ts"], d)
        now = open(out).read()
        touched = now != "// previous output\n" or os.stat(out).st_mtime_ns != st
        extra = [f for f in os.listdir(d) if f not in ("src", "out.ts")]
        return rc, touched, extra, now
    finally:
        drv.close()
        shutil.rmtree(d, ignore_errors=True)


def native_crates(shape):
    """real binary in folder mode on crates c0, c1, .. where crate k holds shape[k] files with an unsupported field (and one good
    file); an output file of every crate exists beforehand.  -> (exit code, [modified or new output files])"""
    import os, shutil, tempfile, time
    from vlib.harness import CliDriver
    d = tempfile.mkdtemp(prefix="c08-")
    drv = CliDriver()
    try:
        os.makedirs(os.path.join(d, "out"))
        before = {}
        for k, n in enumerate(shape):
            os.makedirs(os.path.join(d, "c%d" % k, "src"))
            open(os.path.join(d, "c%d" % k, "src", "lib.rs"), "w").write("#[typeshare]\npub struct Good%d { pub g: u32 }\n" % k)
            for j in range(n):
                open(os.path.join(d, "c%d" % k, "src", "bad%d.rs" % j), "w").write("#[typeshare]\npub struct Bad%d_%d { pub a: u64 }\n" % (k, j))
            p = os.path.join(d, "out", "c%d.ts" % k)
            open(p, "w").write("// previous output %d\n" % k)
            before[p] = os.stat(p).st_mtime_ns
        time.sleep(0.02)
        rc, so, se = drv.cli(["c%d" % k for k in range(len(shape))] + ["--lang", "typescript", "-d", "out"], d)
        changed = []
        for f in sorted(os.listdir(os.path.join(d, "out"))):
            p = os.path.join(d, "out", f)
            if p not in before or os.stat(p).st_mtime_ns != before[p] or not open(p).read().startswith("// previous output"):
                changed.append(f)
        return rc, changed
    finally:
        drv.close()
        shutil.rmtree(d, ignore_errors=True)


def run_cli_half(rep, tier):
    from vlib.harness import pmap
    from checks.pcommon import account
    prog()
    viol = dominance(rep)
    rep.obligations += 1; rep.discharged += 1
    shapes = [s for n in (1, 2, 3) for s in __import__("itertools").product((0, 1, 2), repeat=n)]
    orders = [(0, 1), (1, 0), (1, 2, 3), (3, 0, 1), (0, 2), (1, 3, 0, 2)]
    rep.harnesses["cli-dominance"] = 1
    rep.harnesses["cli-check_parse_errors"] = len(shapes)
    rep.harnesses["cli-fold-errors"] = len(orders)
    import itertools
    fk = list(FILE_KINDS)
    flows = [((a,), m) for a in fk for m in (False, True)] + [((a, b), m) for a, b in itertools.product(fk, repeat=2) for m in (False, True)]
    if tier == "thorough":
        flows += [(t, False) for t in itertools.product(("good", "bad", "none", "good+bad"), repeat=3)]
    rep.harnesses["cli-flow"] = len(flows)
    flow_viol = []
    for fn, cs in (("case_errors", shapes), ("case_fold_errors", orders), ("case_flow", flows)):
        for st, case, r in pmap(("checks.c08cli", fn), cs):
            rep.obligations += 1
            if st != "ok":
                rep.inconc("cli %s %s: %s" % (fn, case, r)); continue
            account(rep, r); rep.discharged += 1
            if fn == "case_flow":
                flow_viol += [(case, v) for v in r["violations"]]
            else:
                viol += r["violations"]
    seen = set()
    for case, v in flow_viol:
        key = (v["kind"], tuple(sorted(set(case[0]))), case[1])
        if key in seen:
            continue
        seen.add(key)
        rc, touched = native_flow(case[0], case[1])
        rep.validated += 1
        want_err = v["kind"] == "errors-not-reported"
        sig = {"part": "cli-flow", "kind": v["kind"], "files": "+".join(sorted(set(case[0])))}
        if (want_err and (rc == 0 or touched)) or (not want_err and rc != 0):
            rep.violation(sig, "typeshare on files %s (%s): exit code %d, existing output %s - %s" % (list(case[0]), "folder" if case[1] else "single file", rc, "modified" if touched else "untouched",
                                                                                                        "an annotated item cannot be generated but no error stops the run" if want_err else "error without an offending item"),
                          {"cli": True, "flow": [list(case[0]), case[1]], "want_err": want_err})
        else:
            rep.inconc("engine mismatch (cli flow) %s: %s, real binary exit %d, output %s" % (case, v, rc, "modified" if touched else "untouched"))
    rep.bounds["cli-flow"] = "trees of 1..2 (thorough: 3) files of kinds %s through parse_dir_entry -> collector -> check_parse_errors, single-file and folder mode" % sorted(FILE_KINDS)
    rep.bounds["cli"] = "CFG of cli generate_types (dominance of write_generated by the Ok edge of check_parse_errors(..)?, z3 Datalog); check_parse_errors on 1..3 crates x 0..2 errors each; the collector fold on 2..4 files with/without errors"
    shape_viol = [v for v in viol if v.get("shape")]
    viol = [v for v in viol if not v.get("shape")]
    done = set()
    for v in shape_viol:
        key = (v["kind"], len(v["shape"]))
        if key in done:
            continue
        rc, changed = native_crates(v["shape"])
        rep.validated += 1
        want_err = v["kind"] == "errors-not-reported"
        sig = {"part": "cli", "kind": v["kind"], "crates": len(v["shape"])}
        if (want_err and (rc == 0 or changed)) or (not want_err and rc != 0):
            done.add(key)
            rep.violation(sig, "typeshare -d on crates c0..c%d with %s unsupported items per crate and existing output files: exit code %d, output files modified: %s" % (len(v["shape"]) - 1, v["shape"], rc, changed or "none"),
                          {"cli": True, "shape": v["shape"], "want_err": want_err})
        else:
            rep.inconc("engine mismatch (cli half): %s, but the real binary exits %d and modifies %s" % (v, rc, changed or "nothing"))
    if viol:
        rc, touched, extra, now = native_cli()
        rep.validated += 1
        bad = rc == 0 or touched or extra
        for v in viol[:3]:
            sig = {"part": "cli", "kind": v["kind"]}
            if bad:
                rep.violation(sig, "typeshare on a tree with `pub a: u64` in an annotated struct and an existing out.ts: exit code %d, output %s (%s)" % (rc, "modified" if touched else "untouched", v.get("detail") or v), {"cli": True})
            else:
                rep.inconc("engine mismatch (cli half): %s, but the real binary exits %d and leaves the output untouched" % (v, rc))
    else:
        rep.sample({"harness": "cli", "verdict": "write_generated unreachable without the Ok edge of check_parse_errors (Datalog: unsat); Err iff some crate has errors; errors survive the merge", "cfg": rep.extra.get("cfg")})


def replay_cli(c=None):
    if c and c.get("flow"):
        rc, touched = native_flow(tuple(c["flow"][0]), c["flow"][1])
        print("exit code %d, output %s" % (rc, "modified" if touched else "untouched"))
        return 1 if ((c["want_err"] and (rc == 0 or touched)) or (not c["want_err"] and rc != 0)) else 0
    if c and c.get("shape"):
        rc, changed = native_crates(c["shape"])
        print("exit code %d, modified output files %s" % (rc, changed))
        return 1 if ((c["want_err"] and (rc == 0 or changed)) or (not c["want_err"] and rc != 0)) else 0
    rc, touched, extra, now = native_cli()
    print("exit code %d, output %s, extra files %s" % (rc, "modified" if touched else "untouched", extra))
    return 1 if (rc == 0 or touched or extra) else 0
