"""C07, CLI half: the parallel walk cannot dead-lock on the bounded channel.

`parallel_parse` hands per-file results from the walker threads to a collector over a channel bounded at 100 entries.  Freedom
from dead-lock rests on a protocol that is visible in the control-flow graph of the function, and z3's Datalog engine decides it
on the MIR of the current tree:
  P1  the thread that consumes the receiver is spawned on every path before `WalkParallel::run` is entered (otherwise the walkers
      block in `send` once the channel is full and nobody receives),
  P2  the function's own sender is dropped on every path before the collector is joined (otherwise the collector never sees the
      channel close),
  P3  the function itself never receives from the channel (the consumer is the spawned closure, whose MIR iterates the receiver).
  P4  not both: (a) the consumer can return while the channel is still open (its `return` is reachable without the None edge of
      the receiving iterator) and (b) a walker closure reaches `unwrap`/`expect` on the `Result<(), SendError<..>>` of `send`:
      together a parse error in one file makes the other walkers panic on the hung-up channel.
Vacuity witnesses: `run` and `join` are reachable at all.  Native replay: the real binary on 150 annotated files under a time-out.
"""
import re

import z3

from vlib.common import Inconclusive
from checks.c08cli import cfg_of, reachable


def fn_text(name_rx):
    from vlib.mirsym import dump
    text, _ = dump.mir_text("cli")
    m = re.search(r"^fn %s.*?^}" % name_rx, text, re.M | re.S)
    return m.group(0) if m else None


def cli_functions():
    """{name: blocks} of every function of the cli crate (from the current MIR dump), plus closure span -> function name"""
    from vlib.mirsym import dump
    text, _ = dump.mir_text("cli")
    names = re.findall(r"^fn ([^\s(][^(]*)\(", text, re.M)
    funcs, span_of = {}, {}
    for nm in names:
        try:
            funcs[nm] = cfg_of(nm)
        except Inconclusive:
            continue
    for m in re.finditer(r"^fn ([^\s(][^(]*)\(_1: (?:&mut |&)?\{closure@([^}]*)\}", text, re.M):
        span_of[m.group(2)] = m.group(1)
    return funcs, span_of


RECV = r"Receiver<.*> as std::iter::IntoIterator>::into_iter|Receiver::<.*>::(recv|iter|try_iter|recv_timeout)\("
SEND = r"Sender::<.*>::(send|try_send|send_timeout)\("
UNWRAP_SEND = r"Result::<\(\), crossbeam::crossbeam_channel::(Try)?SendError<.*>>::(unwrap|expect)\("


def call_graph(funcs, span_of):
    """direct calls between cli functions and closures handed to a call (a closure mentioned in a terminator may be invoked by the callee)"""
    edges = set()
    by_len = sorted(funcs, key=len, reverse=True)
    for f, blocks in funcs.items():
        for n, (_, t, _) in blocks.items():
            for sp in re.findall(r"\{closure@([^}]*)\}", t):
                if sp in span_of and span_of[sp] != f:
                    edges.add((f, span_of[sp], n))
            m = re.match(r"(?:_\d+|\(\*_\d+\)|\S+) = ([^\s(]+?)(?:::<.*>)?\(", t)
            if m:
                callee = m.group(1)
                for g in by_len:
                    if callee == g or callee.endswith("::" + g):
                        if g != f:
                            edges.add((f, g, n))
                        break
    return edges


def closure_star(funcs, edges, seeds, rep):
    """z3 Datalog: has*(f) :- has(f).  has*(f) :- calls(f, g), has*(g)."""
    names = sorted(funcs)
    idx = {f: k for k, f in enumerate(names)}
    fp = z3.Fixedpoint()
    fp.set(engine="datalog")
    bv = z3.BitVecSort(16)
    has = z3.Function("has", bv, z3.BoolSort())
    calls = z3.Function("calls", bv, bv, z3.BoolSort())
    fp.register_relation(has, calls)
    a, b = z3.Consts("a b", bv)
    fp.declare_var(a, b)
    fp.rule(has(a), [calls(a, b), has(b)])
    for f in seeds:
        fp.fact(has(z3.BitVecVal(idx[f], 16)))
    for f, g, _ in edges:
        fp.fact(calls(z3.BitVecVal(idx[f], 16), z3.BitVecVal(idx[g], 16)))
    out = set()
    for f in names:
        rep.queries += 1
        if fp.query(has(z3.BitVecVal(idx[f], 16))) == z3.sat:
            out.add(f)
    return out


def protocol(rep):
    funcs, span_of = cli_functions()
    PP = "parse::parallel_parse"
    if PP not in funcs:
        raise Inconclusive("parse::parallel_parse not found in the cli MIR")
    blocks = funcs[PP]
    body = fn_text(re.escape(PP + "("))
    out = []
    edges = call_graph(funcs, span_of)
    direct_recv = {f for f, b in funcs.items() if any(re.search(RECV, t) for _, t, _ in b.values())}
    direct_send = {f for f, b in funcs.items() if any(re.search(SEND, t) for _, t, _ in b.values())}
    recv_star = closure_star(funcs, edges, direct_recv, rep)
    locals_ty = dict(re.findall(r"^    let (?:mut )?(_\d+): (.*);$", body, re.M))
    spawn = [(n, t) for n, (_, t, _) in blocks.items() if re.search(r"= std::thread::(spawn|Builder::spawn|Builder::spawn_unchecked)::<", t)]
    runs = [n for n, (_, t, _) in blocks.items() if re.search(r"= ignore::WalkParallel::run::<", t)]
    joins = [n for n, (_, t, _) in blocks.items() if re.search(r"= std::thread::JoinHandle::<.*>::join\(", t)]
    if len(runs) != 1:
        raise Inconclusive("parallel_parse: expected one call of WalkParallel::run, found %d" % len(runs))
    rep.functions.add("parse::parallel_parse (CFG: %d blocks; call graph of %d cli functions, %d edges)" % (len(blocks), len(funcs), len(edges)))
    run_ok, _ = reachable(blocks, set(), runs[0]); rep.queries += 1
    if not run_ok:
        raise Inconclusive("vacuity: WalkParallel::run is not reachable in the extracted CFG")
    # which spawned closure consumes the receiver (itself or through the functions it calls)?
    consumer_spawns = []
    for n, t in spawn:
        m = re.search(r"spawn(?:_unchecked)?::<\{closure@([^}]*)\}", t)
        if m and span_of.get(m.group(1)) in recv_star:
            consumer_spawns.append(n)
    # P1
    if not consumer_spawns:
        out.append({"kind": "collector-not-concurrent", "detail": "no spawned thread consumes the receiver of the bounded channel"})
    else:
        removed = {(n, s) for n in consumer_spawns for s in blocks[n][2][:1]}
        r, _ = reachable(blocks, removed, runs[0]); rep.queries += 1
        if r:
            out.append({"kind": "collector-not-concurrent", "detail": "WalkParallel::run (bb%d) is reachable without first spawning the thread that consumes the receiver" % runs[0]})
    # P3: the calling thread receives neither itself nor through a function it calls (the spawn call excepted)
    for n, (_, t, _) in blocks.items():
        if n in consumer_spawns:
            continue
        via = [g for f, g, bn in edges if f == PP and bn == n and g in recv_star]
        if re.search(RECV, t) or via:
            out.append({"kind": "collector-not-concurrent", "detail": "parallel_parse receives from the channel on the calling thread (bb%d%s)" % (n, ", through %s" % via[0] if via else "")})
            break
    # P2
    if joins:
        j_ok, _ = reachable(blocks, set(), joins[0]); rep.queries += 1
        if not j_ok:
            raise Inconclusive("vacuity: JoinHandle::join is not reachable in the extracted CFG")
        senders = {l for l, ty in locals_ty.items() if re.match(r"crossbeam::crossbeam_channel::Sender<", ty)}
        drops = []
        for n, (lines, t, succ) in blocks.items():
            m = re.match(r"_\d+ = std::mem::drop::<crossbeam::crossbeam_channel::Sender<.*>>\(move (_\d+)\)", t) or re.match(r"drop\((_\d+)\)", t)
            if m and (m.group(1) in senders or "mem::drop" in t) and "cleanup" not in t:
                drops.append(n)
        removed = {(n, s) for n in drops for s in blocks[n][2][:1]}
        r, _ = reachable(blocks, removed, joins[0]); rep.queries += 1
        if not drops or r:
            out.append({"kind": "sender-not-dropped-before-join", "detail": "JoinHandle::join (bb%d) is reachable without dropping the function's own sender first" % joins[0]})
    elif consumer_spawns:
        out.append({"kind": "collector-never-joined", "detail": "the collector thread is never joined"})
    # P4
    early, why = False, []
    for f in sorted(direct_recv):
        b = funcs[f]
        rep.functions.add("%s (CFG: %d blocks)" % (f, len(b)))
        nexts = [n for n, (_, t, _) in b.items() if re.search(r"IntoIter<.*> as std::iter::Iterator>::next\(|Iter<.*> as std::iter::Iterator>::next\(|Receiver::<.*>::recv\(", t)]
        rets = [n for n, (_, t, _) in b.items() if t == "return;"]
        if not nexts:
            # the receiver is handed to an iterator adaptor (try_fold, collect into Result, ..): whether it can stop early is not visible
            # in this CFG - assume it can (P4 then asks for walkers that tolerate a closed channel, which is the robust condition)
            early = True; why.append("%s consumes through an adaptor (assumed able to stop early)" % f)
            continue
        removed = set()
        for n in nexts:
            nb = b[n][2][0]
            m = re.match(r"switchInt\(.*\) -> \[0: bb(\d+),", b[nb][1])
            if not m:
                early = True; why.append("%s: receive in bb%d without a discriminant test (assumed able to stop early)" % (f, n))
                continue
            removed.add((nb, int(m.group(1))))
        for r_ in rets:
            ok, _ = reachable(b, removed, r_); rep.queries += 1
            if ok:
                early = True; why.append("%s can return while the channel is open" % f)
    sites = []
    for f in sorted(direct_send):
        b = funcs[f]
        rep.functions.add("%s (CFG: %d blocks)" % (f, len(b)))
        for n, (_, t, _) in b.items():
            if re.search(UNWRAP_SEND, t):
                ok, _ = reachable(b, set(), n); rep.queries += 1
                if ok:
                    sites.append((f, n))
    if early and sites:
        out.append({"kind": "walker-panics-after-collector-stops", "detail": "%s, and %s unwraps the result of send (bb%d)" % (why[0], sites[0][0], sites[0][1])})
    rep.extra["protocol_p4"] = "collector can stop before the channel closes: %s %s; reachable unwrap/expect of a send result: %s" % (early, why, sites)
    rep.extra["protocol"] = "parallel_parse: %d blocks; consumer spawn in bb%s, run in bb%s, join in bb%s; receivers %s, senders %s" % (len(blocks), consumer_spawns, runs, joins, sorted(direct_recv), sorted(direct_send))
    return out


def native_many_files(n=150, timeout=25):
    """the real binary on n annotated files; returns (finished?, rc)"""
    import os, shutil, subprocess, tempfile
    from vlib.harness import build_clidrv
    exe = build_clidrv()
    d = tempfile.mkdtemp(prefix="c07-")
    try:
        os.makedirs(os.path.join(d, "src"))
        for i in range(n):
            open(os.path.join(d, "src", "f%03d.rs" % i), "w").write("#[typeshare]\npub struct S%03d { pub a: u32 }\n" % i)
        env = dict(os.environ); env.pop("VERIF_DRIVER", None)
        p = subprocess.Popen([exe, "src", "--lang", "typescript", "-o", "out.ts"], cwd=d, env=env, stdout=subprocess.DEVNULL, stderr=subprocess.DEVNULL, start_new_session=True)
        try:
            rc = p.wait(timeout=timeout)
            return True, rc
        except subprocess.TimeoutExpired:
            try:
                os.killpg(p.pid, 9)
            except ProcessLookupError:
                pass
            p.wait()
            return False, None
    finally:
        shutil.rmtree(d, ignore_errors=True)


def native_error_race(runs=30, good=400, bad=8, timeout=20):
    """the real binary on many annotated files of which a few do not parse; returns (#panicked runs, #runs, first panic line)"""
    import os, shutil, subprocess, tempfile
    from vlib.harness import build_clidrv
    exe = build_clidrv()
    d = tempfile.mkdtemp(prefix="c07-")
    try:
        os.makedirs(os.path.join(d, "src"))
        for i in range(good):
            open(os.path.join(d, "src", "f%03d.rs" % i), "w").write("#[typeshare]\npub struct S%03d { pub a: u32, pub b: Vec<String>, pub c: Option<bool> }\n" % i)
        for i in range(bad):
            open(os.path.join(d, "src", "bad%d.rs" % i), "w").write("#[typeshare]\npub struct { oops\n")
        env = dict(os.environ); env.pop("VERIF_DRIVER", None); env["RUST_BACKTRACE"] = "0"
        hits, line, done = 0, None, 0
        for k in range(runs):
            try:
                p = subprocess.run([exe, "src", "--lang", "typescript", "-o", "out.ts"], cwd=d, env=env, capture_output=True, text=True, timeout=timeout)
            except subprocess.TimeoutExpired:
                hits += 1; line = line or "no exit within %d s" % timeout; done += 1
                continue
            done += 1
            if p.returncode == 101 or "panicked at" in p.stderr:
                hits += 1
                line = line or " ".join(l.strip() for l in p.stderr.split("\n") if "panicked" in l or "SendError" in l)[:300]
                if hits >= 3:
                    break
        return hits, done, line
    finally:
        shutil.rmtree(d, ignore_errors=True)


def run_cli_half(rep, tier):
    run_configs(rep, tier)
    viol = protocol(rep)
    race = [v for v in viol if v["kind"] == "walker-panics-after-collector-stops"]
    viol = [v for v in viol if v not in race]
    if race:
        hits, done, line = native_error_race()
        rep.validated += 1
        sig = {"group": "cli-protocol", "kind": race[0]["kind"]}
        if hits:
            rep.violation(sig, "400 annotated files of which 8 do not parse: typeshare panics in %d of %d runs instead of reporting the file (%s); %s" % (hits, done, line, race[0]["detail"]), {"cli_protocol": "race"})
        else:
            rep.inconc("cli protocol: %s, but %d runs of the real binary on 400+8 files never panicked" % (race[0], done))
    rep.obligations += 1; rep.discharged += 1
    rep.harnesses["cli-protocol"] = 1
    rep.bounds["cli protocol"] = "control-flow graph of cli parse::parallel_parse: consumer thread spawned before WalkParallel::run, own sender dropped before join, no receive on the calling thread (z3 Datalog reachability)"
    if not viol and not race:
        rep.sample({"harness": "cli-protocol", "verdict": "run unreachable without the consumer spawn; join unreachable without dropping the sender (Datalog: unsat)", "cfg": rep.extra.get("protocol"), "p4": rep.extra.get("protocol_p4")})
        return
    if not viol:
        return
    finished, rc = native_many_files()
    rep.validated += 1
    for v in viol[:2]:
        sig = {"group": "cli-protocol", "kind": v["kind"]}
        if not finished:
            rep.violation(sig, "typeshare on a tree of 150 annotated files does not terminate within 25 s (%s)" % v["detail"], {"cli_protocol": True})
        else:
            rep.inconc("engine mismatch (cli protocol): %s, but the real binary finished with exit code %s on 150 files" % (v, rc))


def replay_cli(kind=True, cfg=None):
    if cfg is not None:
        pan, rc, err = native_config(cfg[0], cfg[1], cfg[2])
        print("panicked=%s rc=%s %s" % (pan, rc, err))
        return 1 if pan else 0
    if kind == "race":
        hits, done, line = native_error_race()
        print("panicked in %d of %d runs: %s" % (hits, done, line))
        return 1 if hits else 0
    finished, rc = native_many_files()
    print("finished=%s rc=%s" % (finished, rc))
    return 0 if finished else 1


# ---------------------------------------------------------------------------------------------------------------------------
# configurations: every language with every relevant package / prefix / module-name option empty or given

CFG_OPTS = {"Swift": ["swift_prefix"], "Kotlin": ["kotlin_prefix", "java_package", "kotlin_module_name"], "Scala": ["scala_package", "scala_module_name"],
            "Go": ["go_package"], "TypeScript": [], "Python": []}
BH_NAME = {"Swift": "swift", "Kotlin": "kotlin", "Scala": "scala", "Go": "go", "TypeScript": "typescript", "Python": "python"}


def config_cases():
    import itertools
    out = []
    for lang, opts in CFG_OPTS.items():
        for lens in itertools.product((0, 2), repeat=len(opts)):
            for multi in (False, True):
                out.append((lang, multi, lens))
    return out


def case_config(case):
    """override_configuration -> language() -> generate_types from MIR under the given effective option lengths (characters
    symbolic over [a-z.]): no panic path may be feasible; an Err (diagnostic) is fine"""
    from checks import c20
    from checks.pcommon import finish_case
    from vlib.mirsym.engine import new_interp
    from vlib.mirsym.ir import IR
    from vlib.mirsym.values import EnumV, Ref, RString, unbox
    from vlib.mirsym import bharness
    from vlib.mirsym.interp import Panic, Unsupported
    lang, multi, lens = case
    P = c20.prog()
    L = P.layout
    I = new_interp(P)
    res = {"paths": 0, "violations": [], "case": [lang, multi, list(lens)]}
    opts = CFG_OPTS[lang]

    def syms():
        return {o: [z3.BitVec("o%d_%d" % (k, i), 32) for i in range(n)] for k, (o, n) in enumerate(zip(opts, lens))}

    def entry(I):
        sy = syms()
        for cs in sy.values():
            for c in cs:
                I.assume(z3.Or(z3.And(z3.UGE(c, 97), z3.ULE(c, 122)), c == 46))
        table = {o[0]: o for o in c20.OPTIONS}
        cfg = c20.mk_config(I, L, [(table[o][1], table[o][2], sy[o]) for o in opts], [])
        args = c20.mk_args(I, L, {}, c20.LANG_OF[lang])
        r = I.call_static("override_configuration", [cfg, Ref([args], 0)])
        if r.variant != 0:
            return "err"
        sl = EnumV("typeshare_core::language::SupportedLanguage", L.enums["SupportedLanguage"].index(lang), [])
        lg = unbox(I.call_static("language", [sl, r.fields[0], multi]))
        ir = IR(P.layout)
        u8, u32 = ir.special("U8"), ir.special("U32")
        pd = ir.parsed_data(structs=[ir.struct("Sa", [ir.field("fa", u32), ir.field("fb", ir.special("Option", ir.simple("Ub")))])],
                            enums=[ir.enum_unit("Ub", [ir.v_unit("Va"), ir.v_unit("Vb")]),
                                   ir.enum_alg("Dc", [ir.v_unit("Va"), ir.v_tuple("Vb", u32), ir.v_anon("Vc", [ir.field("x", u8)])], tag="t", content="c")],
                            aliases=[ir.alias("Ad", ir.vec(u8))], crate="app" if multi else "", file_name="app.x" if multi else "", multi_file=multi)
        ok, w, _ = bharness.generate(I, BH_NAME[lang], pd, lang_value=lg)
        return "ok" if ok else "err"

    try:
        for kind, out, pc in I.explore(entry, max_paths=200):
            res["paths"] += 1
            if kind == "panic":
                m = I.sat_model(z3.BoolVal(True))
                vals = {o: "".join(chr(m.eval(c, model_completion=True).as_long()) for c in cs) for o, cs in syms().items()}
                res["violations"].append({"kind": "panic", "msg": out.msg, "options": vals})
    except Unsupported as e:
        if "budget exhausted" in str(e) or "call depth exceeded" in str(e):
            res["violations"].append({"kind": "divergence", "msg": str(e)[:120], "options": {}})
        else:
            raise
    return finish_case(I, res)


def native_config(lang, multi, options):
    """the real binary with a typeshare.toml holding the options; returns (panicked?, rc, first stderr lines)"""
    import os, shutil, subprocess, tempfile
    from checks import c20
    from vlib.harness import build_clidrv
    exe = build_clidrv()
    d = tempfile.mkdtemp(prefix="c07c-")
    try:
        os.makedirs(os.path.join(d, "app", "src"))
        open(os.path.join(d, "app", "src", "lib.rs"), "w").write("#[typeshare]\npub struct Sa { pub fa: u32, pub fb: Option<Ub> }\n#[typeshare]\npub enum Ub { Va, Vb }\n"
                                                                  "#[typeshare]\n#[serde(tag = \"t\", content = \"c\")]\npub enum Dc { Va, Vb(u32), Vc { x: u8 } }\n#[typeshare]\npub type Ad = Vec<u8>;\n")
        table = {o[0]: o for o in c20.OPTIONS}
        secs = {}
        for o, v in options.items():
            secs.setdefault(table[o][1], []).append('%s = "%s"' % (table[o][2], v))
        open(os.path.join(d, "typeshare.toml"), "w").write("".join("[%s]\n%s\n" % (s, "\n".join(kv)) for s, kv in secs.items()))
        env = dict(os.environ); env.pop("VERIF_DRIVER", None); env["RUST_BACKTRACE"] = "0"
        out = ["-d", "outd"] if multi else ["-o", "out.x"]
        p = subprocess.run([exe, "app", "--lang", c20.LANG_OF[lang].lower()] + out, cwd=d, env=env, capture_output=True, text=True, timeout=60)
        pan = p.returncode == 101 or "panicked at" in p.stderr
        return pan, p.returncode, " ".join(l.strip() for l in p.stderr.split("\n") if l.strip() and "INFO" not in l)[:300]
    finally:
        shutil.rmtree(d, ignore_errors=True)


def run_configs(rep, tier):
    from vlib.harness import pmap
    cases = config_cases()
    rep.harnesses["cli-configs"] = len(cases)
    rep.bounds["cli configurations"] = "override_configuration -> language() -> generate_types from MIR for 6 languages x single/folder mode x each of the language's prefix / package / module-name options empty or 2 symbolic characters over [a-z.] (file values, no CLI options)"
    rep.functions.update(["override_configuration", "language"])
    seen = set()
    for st, case, r in pmap(("checks.c07cli", "case_config"), cases):
        rep.obligations += 1
        if st != "ok":
            rep.inconc("cli config %s: %s" % (case, r)); continue
        rep.states += r["paths"]; rep.queries += r.get("queries", 0); rep.discharged += 1
        for v in r["violations"]:
            lang, multi, lens = case
            empties = sorted(o for o, n in zip(CFG_OPTS[lang], lens) if n == 0)
            sig = {"group": "cli-config", "lang": lang, "kind": v["kind"], "empty": empties, "msg": v["msg"][:60]}
            key = (lang, v["kind"], v["msg"][:60])
            if key in seen:
                continue
            seen.add(key)
            pan, rc, err = native_config(lang, multi, v.get("options", {}))
            rep.validated += 1
            if pan:
                rep.violation(sig, "typeshare --lang %s (%s) with options %s: %s" % (lang.lower(), "folder" if multi else "file", v.get("options"), err), {"cli_config": [lang, multi, v.get("options", {})]})
            else:
                rep.inconc("engine mismatch (cli config) %s: interpreter %s, real binary exit %s: %s" % (case, v, rc, err))
