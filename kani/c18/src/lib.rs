//! C18: I54/U53 hold exactly the JS-safe integers.
//!
//! Every obligation is an ordinary function `ob_*` over plain integers that returns
//! `Err(description)` when the property is broken; the Kani harnesses call them on
//! `kani::any()` (all 2^64 values, decided by CBMC on the compiled code of /repo/lib), and the
//! native replayer (src/bin/replay.rs) calls the very same functions on the concrete values a
//! counterexample trace gives, so that only reproducing violations are reported.
//!
//! The limits are written here as independent literals (2^53-1), not taken from the crate.
#![allow(clippy::all)]
use serde::de::value::{Error as DeError, F64Deserializer, I64Deserializer, U64Deserializer};
use serde::de::IntoDeserializer;
use serde::{Deserialize, Serialize};
use std::cmp::Ordering;
use std::convert::TryFrom;
use typeshare::{usize_from_u53_saturated, I54, U53};

pub const LIM: u64 = 9_007_199_254_740_991; // 2^53 - 1
pub const ILIM: i64 = 9_007_199_254_740_991;

pub type Ob = Result<(), &'static str>;

macro_rules! ensure {
    ($c:expr, $m:expr) => {
        if !($c) {
            return Err($m);
        }
    };
}

/// U53::try_from accepts exactly [0, 2^53-1]; accepted values convert back unchanged and
/// survive an IEEE-754 double.
pub fn ob_u53_try_from(v: u64) -> Ob {
    let r = U53::try_from(v);
    ensure!(r.is_ok() == (v <= LIM), "U53::try_from accepts iff v <= 2^53-1");
    if let Ok(x) = r {
        ensure!(u64::from(x) == v, "u64::from(U53::try_from(v)) == v");
        ensure!(x == v, "PartialEq<u64> agrees");
        ensure!((v as f64) as u64 == v, "accepted value survives f64");
        ensure!(x >= U53::MIN && x <= U53::MAX, "MIN <= x <= MAX");
    }
    Ok(())
}

/// I54::try_from accepts exactly [-(2^53-1), 2^53-1].
pub fn ob_i54_try_from(v: i64) -> Ob {
    let r = I54::try_from(v);
    ensure!(
        r.is_ok() == (v >= -ILIM && v <= ILIM),
        "I54::try_from accepts iff |v| <= 2^53-1"
    );
    if let Ok(x) = r {
        ensure!(i64::from(x) == v, "i64::from(I54::try_from(v)) == v");
        ensure!(x == v, "PartialEq<i64> agrees");
        ensure!((v as f64) as i64 == v, "accepted value survives f64");
        ensure!(x >= I54::MIN && x <= I54::MAX, "MIN <= x <= MAX");
    }
    Ok(())
}

pub fn ob_limits() -> Ob {
    ensure!(u64::from(U53::MAX) == LIM, "U53::MAX == 2^53-1");
    ensure!(u64::from(U53::MIN) == 0, "U53::MIN == 0");
    ensure!(i64::from(I54::MAX) == ILIM, "I54::MAX == 2^53-1");
    ensure!(i64::from(I54::MIN) == -ILIM, "I54::MIN == -(2^53-1)");
    Ok(())
}

/// Widening From<u8|u16|u32> and narrowing TryFrom<U53> for u8|u16|u32.
pub fn ob_u53_narrow(a: u8, b: u16, c: u32, v: u64) -> Ob {
    ensure!(u64::from(U53::from(a)) == a as u64, "From<u8> exact");
    ensure!(u64::from(U53::from(b)) == b as u64, "From<u16> exact");
    ensure!(u64::from(U53::from(c)) == c as u64, "From<u32> exact");
    if let Ok(x) = U53::try_from(v) {
        let r8 = u8::try_from(x);
        ensure!(r8.is_ok() == (v <= 0xff), "TryFrom<U53> for u8 accepts iff it fits");
        if let Ok(n) = r8 {
            ensure!(n as u64 == v, "u8 narrowing exact");
        }
        let r16 = u16::try_from(x);
        ensure!(r16.is_ok() == (v <= 0xffff), "TryFrom<U53> for u16 accepts iff it fits");
        if let Ok(n) = r16 {
            ensure!(n as u64 == v, "u16 narrowing exact");
        }
        let r32 = u32::try_from(x);
        ensure!(r32.is_ok() == (v <= 0xffff_ffff), "TryFrom<U53> for u32 accepts iff it fits");
        if let Ok(n) = r32 {
            ensure!(n as u64 == v, "u32 narrowing exact");
        }
        let s = usize_from_u53_saturated(x);
        ensure!(s as u64 == v, "usize_from_u53_saturated exact on 64-bit");
    }
    Ok(())
}

pub fn ob_i54_narrow(a: i8, b: i16, c: i32, v: i64) -> Ob {
    ensure!(i64::from(I54::from(a)) == a as i64, "From<i8> exact");
    ensure!(i64::from(I54::from(b)) == b as i64, "From<i16> exact");
    ensure!(i64::from(I54::from(c)) == c as i64, "From<i32> exact");
    if let Ok(x) = I54::try_from(v) {
        let r8 = i8::try_from(x);
        ensure!(r8.is_ok() == (v >= -128 && v <= 127), "TryFrom<I54> for i8 accepts iff it fits");
        if let Ok(n) = r8 {
            ensure!(n as i64 == v, "i8 narrowing exact");
        }
        let r16 = i16::try_from(x);
        ensure!(
            r16.is_ok() == (v >= -32768 && v <= 32767),
            "TryFrom<I54> for i16 accepts iff it fits"
        );
        if let Ok(n) = r16 {
            ensure!(n as i64 == v, "i16 narrowing exact");
        }
        let r32 = i32::try_from(x);
        ensure!(
            r32.is_ok() == (v >= -2147483648 && v <= 2147483647),
            "TryFrom<I54> for i32 accepts iff it fits"
        );
        if let Ok(n) = r32 {
            ensure!(n as i64 == v, "i32 narrowing exact");
        }
    }
    Ok(())
}

/// Ordering and equality agree with the underlying integers.
pub fn ob_u53_order(a: u64, b: u64) -> Ob {
    if let Ok(x) = U53::try_from(a) {
        ensure!(x.partial_cmp(&b) == Some(a.cmp(&b)), "U53 PartialOrd<u64> agrees with u64 for every u64");
        ensure!((x == b) == (a == b), "U53 PartialEq<u64> agrees with u64 for every u64");
    }
    if let (Ok(x), Ok(y)) = (U53::try_from(a), U53::try_from(b)) {
        ensure!(x.cmp(&y) == a.cmp(&b), "U53 Ord agrees with u64");
        ensure!(x.partial_cmp(&y) == Some(a.cmp(&b)), "U53 PartialOrd agrees with u64");
        ensure!((x == y) == (a == b), "U53 Eq agrees with u64");
        ensure!(x.partial_cmp(&b) == Some(a.cmp(&b)), "U53 PartialOrd<u64> agrees");
    }
    Ok(())
}

pub fn ob_i54_order(a: i64, b: i64) -> Ob {
    if let Ok(x) = I54::try_from(a) {
        // the wide operand is arbitrary: also values no I54 can hold
        ensure!(x.partial_cmp(&b) == Some(a.cmp(&b)), "I54 PartialOrd<i64> agrees with i64 for every i64");
        ensure!((x == b) == (a == b), "I54 PartialEq<i64> agrees with i64 for every i64");
    }
    if let (Ok(x), Ok(y)) = (I54::try_from(a), I54::try_from(b)) {
        ensure!(x.cmp(&y) == a.cmp(&b), "I54 Ord agrees with i64");
        ensure!(x.partial_cmp(&y) == Some(a.cmp(&b)), "I54 PartialOrd agrees with i64");
        ensure!((x == y) == (a == b), "I54 Eq agrees with i64");
        ensure!(x.partial_cmp(&b) == Some(a.cmp(&b)), "I54 PartialOrd<i64> agrees");
        let _ = Ordering::Equal;
    }
    Ok(())
}

/// The derived `Deserialize` (serde(try_from)) driven from the integer onward.
pub fn ob_u53_deserialize(v: u64) -> Ob {
    let d: U64Deserializer<DeError> = v.into_deserializer();
    let r = U53::deserialize(d);
    ensure!(r.is_ok() == (v <= LIM), "Deserialize for U53 accepts iff v <= 2^53-1");
    if let Ok(x) = r {
        ensure!(u64::from(x) == v, "deserialised U53 holds the value");
    }
    Ok(())
}

/// An error type that does not format its message (formatting an f64 inside CBMC is out of reach and irrelevant here).
#[derive(Debug)]
pub struct NoMsg;
impl std::fmt::Display for NoMsg {
    fn fmt(&self, f: &mut std::fmt::Formatter<'_>) -> std::fmt::Result {
        f.write_str("deserialisation error")
    }
}
impl std::error::Error for NoMsg {}
impl serde::de::Error for NoMsg {
    fn custom<T: std::fmt::Display>(_msg: T) -> Self {
        NoMsg
    }
}

/// A JSON number that is not an integer token (serde hands it over as f64) is never accepted: `bits` is the IEEE-754 pattern,
/// so every double - fractions, whole doubles, infinities, NaNs - is covered.
pub fn ob_u53_deserialize_f64(bits: u64) -> Ob {
    let d: F64Deserializer<NoMsg> = F64Deserializer::new(f64::from_bits(bits));
    ensure!(U53::deserialize(d).is_err(), "Deserialize for U53 rejects a floating point token");
    Ok(())
}

pub fn ob_i54_deserialize_f64(bits: u64) -> Ob {
    let d: F64Deserializer<NoMsg> = F64Deserializer::new(f64::from_bits(bits));
    ensure!(I54::deserialize(d).is_err(), "Deserialize for I54 rejects a floating point token");
    Ok(())
}

pub fn ob_i54_deserialize(v: i64) -> Ob {
    let d: I64Deserializer<DeError> = v.into_deserializer();
    let r = I54::deserialize(d);
    ensure!(
        r.is_ok() == (v >= -ILIM && v <= ILIM),
        "Deserialize for I54 accepts iff |v| <= 2^53-1"
    );
    if let Ok(x) = r {
        ensure!(i64::from(x) == v, "deserialised I54 holds the value");
    }
    Ok(())
}

// --- a serializer that records the one integer a newtype struct serialises to -----------
pub mod rec {
    use serde::ser::{Impossible, Serialize, Serializer};
    use std::fmt;

    #[derive(Debug)]
    pub struct E;
    impl fmt::Display for E {
        fn fmt(&self, _: &mut fmt::Formatter) -> fmt::Result {
            Ok(())
        }
    }
    impl std::error::Error for E {}
    impl serde::ser::Error for E {
        fn custom<T: fmt::Display>(_: T) -> Self {
            E
        }
    }

    #[derive(Debug, PartialEq, Eq, Clone, Copy)]
    pub enum Rec {
        U64(u64),
        I64(i64),
    }

    pub struct R;
    macro_rules! no {
        ($($f:ident($t:ty)),*) => { $(fn $f(self, _v: $t) -> Result<Rec, E> { Err(E) })* };
    }
    impl Serializer for R {
        type Ok = Rec;
        type Error = E;
        type SerializeSeq = Impossible<Rec, E>;
        type SerializeTuple = Impossible<Rec, E>;
        type SerializeTupleStruct = Impossible<Rec, E>;
        type SerializeTupleVariant = Impossible<Rec, E>;
        type SerializeMap = Impossible<Rec, E>;
        type SerializeStruct = Impossible<Rec, E>;
        type SerializeStructVariant = Impossible<Rec, E>;
        fn serialize_u64(self, v: u64) -> Result<Rec, E> {
            Ok(Rec::U64(v))
        }
        fn serialize_i64(self, v: i64) -> Result<Rec, E> {
            Ok(Rec::I64(v))
        }
        no!(serialize_bool(bool), serialize_i8(i8), serialize_i16(i16), serialize_i32(i32),
            serialize_u8(u8), serialize_u16(u16), serialize_u32(u32), serialize_f32(f32),
            serialize_f64(f64), serialize_char(char), serialize_str(&str), serialize_bytes(&[u8]),
            serialize_unit_struct(&'static str));
        fn serialize_none(self) -> Result<Rec, E> {
            Err(E)
        }
        fn serialize_some<T: ?Sized + Serialize>(self, _: &T) -> Result<Rec, E> {
            Err(E)
        }
        fn serialize_unit(self) -> Result<Rec, E> {
            Err(E)
        }
        fn serialize_unit_variant(self, _: &'static str, _: u32, _: &'static str) -> Result<Rec, E> {
            Err(E)
        }
        fn serialize_newtype_struct<T: ?Sized + Serialize>(
            self,
            _: &'static str,
            value: &T,
        ) -> Result<Rec, E> {
            value.serialize(R)
        }
        fn serialize_newtype_variant<T: ?Sized + Serialize>(
            self,
            _: &'static str,
            _: u32,
            _: &'static str,
            _: &T,
        ) -> Result<Rec, E> {
            Err(E)
        }
        fn serialize_seq(self, _: Option<usize>) -> Result<Self::SerializeSeq, E> {
            Err(E)
        }
        fn serialize_tuple(self, _: usize) -> Result<Self::SerializeTuple, E> {
            Err(E)
        }
        fn serialize_tuple_struct(
            self,
            _: &'static str,
            _: usize,
        ) -> Result<Self::SerializeTupleStruct, E> {
            Err(E)
        }
        fn serialize_tuple_variant(
            self,
            _: &'static str,
            _: u32,
            _: &'static str,
            _: usize,
        ) -> Result<Self::SerializeTupleVariant, E> {
            Err(E)
        }
        fn serialize_map(self, _: Option<usize>) -> Result<Self::SerializeMap, E> {
            Err(E)
        }
        fn serialize_struct(self, _: &'static str, _: usize) -> Result<Self::SerializeStruct, E> {
            Err(E)
        }
        fn serialize_struct_variant(
            self,
            _: &'static str,
            _: u32,
            _: &'static str,
            _: usize,
        ) -> Result<Self::SerializeStructVariant, E> {
            Err(E)
        }
    }
}

/// The derived `Serialize` emits exactly the underlying integer (as the JSON number serde
/// writes for a u64/i64), so Serialize -> Deserialize is the identity on accepted values.
pub fn ob_u53_serialize(v: u64) -> Ob {
    if let Ok(x) = U53::try_from(v) {
        ensure!(x.serialize(rec::R).ok() == Some(rec::Rec::U64(v)), "Serialize for U53 emits the u64");
    }
    Ok(())
}

pub fn ob_i54_serialize(v: i64) -> Ob {
    if let Ok(x) = I54::try_from(v) {
        ensure!(x.serialize(rec::R).ok() == Some(rec::Rec::I64(v)), "Serialize for I54 emits the i64");
    }
    Ok(())
}

#[cfg(kani)]
mod proofs {
    use super::*;

    macro_rules! harness {
        ($name:ident, $wit:ident, |$($a:ident : $t:ty),*| $call:expr, $reach:expr) => {
            #[kani::proof]
            fn $name() {
                $(let $a: $t = kani::any();)*
                let r: Ob = $call;
                assert!(r.is_ok());
            }
            /// vacuity witness: the interesting region is reachable (must be SATISFIED)
            #[kani::proof]
            fn $wit() {
                $(let $a: $t = kani::any();)*
                let r: Ob = $call;
                kani::cover!(r.is_ok() && $reach);
            }
        };
    }

    harness!(u53_try_from, w_u53_try_from, |v: u64| ob_u53_try_from(v), v == LIM);
    harness!(i54_try_from, w_i54_try_from, |v: i64| ob_i54_try_from(v), v == -ILIM);
    harness!(u53_narrow, w_u53_narrow, |a: u8, b: u16, c: u32, v: u64| ob_u53_narrow(a, b, c, v), v == 65536);
    harness!(i54_narrow, w_i54_narrow, |a: i8, b: i16, c: i32, v: i64| ob_i54_narrow(a, b, c, v), v == -32769);
    harness!(u53_order, w_u53_order, |a: u64, b: u64| ob_u53_order(a, b), a == LIM && b == 0);
    harness!(i54_order, w_i54_order, |a: i64, b: i64| ob_i54_order(a, b), a == -ILIM && b == ILIM);
    harness!(u53_deserialize, w_u53_deserialize, |v: u64| ob_u53_deserialize(v), v == LIM);
    harness!(i54_deserialize, w_i54_deserialize, |v: i64| ob_i54_deserialize(v), v == -ILIM);
    harness!(u53_deserialize_f64, w_u53_deserialize_f64, |b: u64| ob_u53_deserialize_f64(b), b == 0x402D_0000_0000_0000);
    harness!(i54_deserialize_f64, w_i54_deserialize_f64, |b: u64| ob_i54_deserialize_f64(b), b == 0xC02D_0000_0000_0000);
    harness!(u53_serialize, w_u53_serialize, |v: u64| ob_u53_serialize(v), v == LIM);
    harness!(i54_serialize, w_i54_serialize, |v: i64| ob_i54_serialize(v), v == -ILIM);

    #[kani::proof]
    fn limits() {
        assert!(ob_limits().is_ok());
    }
}
