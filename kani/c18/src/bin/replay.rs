//! Native replay of a C18 counterexample: `replay <harness> <int>...` runs the same obligation
//! function on concrete values against the real /repo/lib build. Exit 1 + message if it fails.
use c18_harness::*;
fn main() {
    let a: Vec<String> = std::env::args().skip(1).collect();
    let h = a[0].as_str();
    let u = |i: usize| a[i].parse::<u64>().unwrap();
    let s = |i: usize| a[i].parse::<i64>().unwrap();
    let r = match h {
        "u53_try_from" => ob_u53_try_from(u(1)),
        "i54_try_from" => ob_i54_try_from(s(1)),
        "u53_narrow" => ob_u53_narrow(u(1) as u8, u(2) as u16, u(3) as u32, u(4)),
        "i54_narrow" => ob_i54_narrow(s(1) as i8, s(2) as i16, s(3) as i32, s(4)),
        "u53_order" => ob_u53_order(u(1), u(2)),
        "i54_order" => ob_i54_order(s(1), s(2)),
        "u53_deserialize" => ob_u53_deserialize(u(1)),
        "i54_deserialize" => ob_i54_deserialize(s(1)),
        "u53_deserialize_f64" => ob_u53_deserialize_f64(u(1)),
        "i54_deserialize_f64" => ob_i54_deserialize_f64(u(1)),
        "u53_serialize" => ob_u53_serialize(u(1)),
        "i54_serialize" => ob_i54_serialize(s(1)),
        "limits" => ob_limits(),
        _ => {
            eprintln!("unknown harness {h}");
            std::process::exit(2)
        }
    };
    match r {
        Ok(()) => println!("HOLDS {h}"),
        Err(m) => {
            println!("FAILS {h}: {m}");
            std::process::exit(1)
        }
    }
}
