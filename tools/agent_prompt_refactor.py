#!/usr/bin/env python3
"""Prompt for an independent sub-agent that writes a BEHAVIOUR-PRESERVING refactor of the code a property is anchored in
(used to test that the checks raise no alarm on code where the property still holds)."""
import json, sys
pid = sys.argv[1]
for l in open('/verif/properties.jsonl'):
    p = json.loads(l)
    if p['id'] == pid:
        break
wt = f"/tmp/wt_{pid}" + (sys.argv[2] if len(sys.argv) > 2 else "r")
print(f"""You are helping to evaluate a verification effort for the open-source Rust project 1Password/typeshare (a CLI + library that parses #[typeshare]-annotated Rust types with syn and generates type definitions for Swift, Kotlin, Scala, TypeScript, Go and Python). You have your own scratch git worktree of the repository at {wt} (detached HEAD). Work ONLY inside {wt} (never touch /repo or /verif, do not read anything under /verif). The sandbox has no network; cargo must be run with --offline (CARGO_NET_OFFLINE=true). Use `CARGO_TARGET_DIR={wt}/target`. Do NOT use `git stash`.

Here is a semantic property of typeshare that holds on the current code and must KEEP holding:

  id: {p['id']}
  title: {p['title']}
  statement: {p['statement']}
  files it is anchored in: {', '.join(p['anchors']['files'])}
  mechanisms: {'; '.join((m.get('name') or '') + ' @ ' + (m.get('where') or '') for m in p['anchors']['mechanism'])}

Your job: write ONE realistic, BEHAVIOUR-PRESERVING refactor (30-80 changed lines) of the non-test source code these mechanisms live in - the kind of clean-up a maintainer would merge: replace a hand-written loop by iterator adaptors or the other way round, extract or inline a helper function, switch between equivalent std APIs (e.g. `match` vs `if let`/`map_or`, `for` + `push` vs `collect`, `format!` vs `write!`, `iter().any` vs `contains`, `retain` vs filter+collect, slice patterns, `?` vs explicit match, Option combinators, early returns vs nested ifs), reorder independent statements, rename locals, change a `Vec` temp to an iterator chain, etc. The observable behaviour of the library and CLI must be EXACTLY the same for every input (same output bytes, same errors, same files written) - in particular the property above must still hold. Touch the functions named in the mechanisms list (that is the point), not unrelated code.

Requirements:
  1. `cargo build --workspace --offline` succeeds without new warnings.
  2. `cd {wt} && cargo test --workspace --no-fail-fast --offline` : all 370 unit/integration tests pass (one pre-existing compile_fail doctest in core/src/language/mod.rs fails on the pristine tree too - ignore it).
  3. Convince yourself the change is behaviour preserving: reason about each edit, and additionally write a small differential test or script (not to be kept in the tree) that runs a handful of inputs exercising the touched functions through the pristine and the refactored build and compares the outputs byte for byte.

When done, leave the source change applied (uncommitted) and write:
  {wt}/MUTATION/patch.diff   - `git diff` of the source change only
  {wt}/MUTATION/notes.md     - what was refactored, why it is behaviour preserving, what you ran to check it.
Finally delete {wt}/target. Reply with a short summary of the refactor and the checks you ran.""")
