#!/bin/bash
# confirm_seed.sh <ID> [suffix] : confirm an agent-written mutation in /tmp/wt_<ID><suffix>
#   (1) existing suite passes with the change, (2) demo fails with it, (3) demo passes without it.
# then copy into /verif/seeded/<ID><suffix>/ (patch.diff, demo/, notes.md) and write confirm.log
set -u
ID=$1; SFX=${2:-}; WT=/tmp/wt_$ID$SFX; OUT=/verif/seeded/$ID$SFX
export CARGO_NET_OFFLINE=true CARGO_TARGET_DIR=$WT/target
cd $WT || exit 2
LOG=$WT/MUTATION/confirm.log; : > $LOG
demo_rs=$(cd $WT && git status --porcelain -uall | grep '^??' | awk '{print $2}' | grep -E 'tests/.*\.rs$' | head -1)
echo "demo file: $demo_rs" | tee -a $LOG
# (1) suite with change, demo moved away
mkdir -p /tmp/demo_hold_$ID$SFX; [ -n "$demo_rs" ] && mv $WT/$demo_rs /tmp/demo_hold_$ID$SFX/
cargo test --workspace --no-fail-fast --offline --lib --bins --tests > $WT/MUTATION/suite.log 2>&1
passed=$(grep -E '^test result:' $WT/MUTATION/suite.log | sed -E 's/.* ([0-9]+) passed.*/\1/' | paste -sd+ | bc)
failed=$(grep -E '^test result:' $WT/MUTATION/suite.log | sed -E 's/.* ([0-9]+) failed.*/\1/' | paste -sd+ | bc)
echo "suite with change: passed=$passed failed=$failed" | tee -a $LOG
[ -n "$demo_rs" ] && mv /tmp/demo_hold_$ID$SFX/$(basename $demo_rs) $WT/$demo_rs
rmdir /tmp/demo_hold_$ID$SFX
if [ -n "$demo_rs" ]; then
  pkg=$(echo $demo_rs | cut -d/ -f1); case $pkg in core) p=typeshare-core;; cli) p=typeshare-cli;; lib) p=typeshare;; annotation) p=typeshare-annotation;; esac
  t=$(basename $demo_rs .rs)
  cargo test -p $p --test $t --offline > $WT/MUTATION/demo_with.log 2>&1; rc1=$?
  echo "demo with change: rc=$rc1 $(grep -E '^test result:' $WT/MUTATION/demo_with.log | tail -1)" | tee -a $LOG
  git diff > /tmp/confirm_patch_$ID$SFX.diff; git apply -R /tmp/confirm_patch_$ID$SFX.diff
  cargo test -p $p --test $t --offline > $WT/MUTATION/demo_without.log 2>&1; rc2=$?
  echo "demo without change: rc=$rc2 $(grep -E '^test result:' $WT/MUTATION/demo_without.log | tail -1)" | tee -a $LOG
  git apply /tmp/confirm_patch_$ID$SFX.diff; rm -f /tmp/confirm_patch_$ID$SFX.diff
fi
for s in $WT/MUTATION/demo/*.sh; do [ -f "$s" ] || continue
  cargo build -q --offline -p typeshare-cli 2>/dev/null
  echo "script demo $s present (run manually if needed)" | tee -a $LOG
done
mkdir -p $OUT && cp -r $WT/MUTATION/patch.diff $WT/MUTATION/demo $WT/MUTATION/notes.md $WT/MUTATION/confirm.log $OUT/ 2>/dev/null
rm -rf $WT/target
echo "CONFIRM $ID$SFX: suite=$passed/$failed demo_with_rc=${rc1:-NA} demo_without_rc=${rc2:-NA}" | tee -a $LOG
