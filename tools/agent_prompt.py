#!/usr/bin/env python3
"""Print the prompt given to an independent mutation-writing sub-agent for one property."""
import json, sys
pid = sys.argv[1]
for l in open('/verif/properties.jsonl'):
    p = json.loads(l)
    if p['id'] == pid:
        break
else:
    sys.exit('no such property')
wt = f"/tmp/wt_{pid}" + (sys.argv[2] if len(sys.argv) > 2 else "")
print(f"""You are helping to evaluate a verification effort for the open-source Rust project 1Password/typeshare (a CLI + library that parses #[typeshare]-annotated Rust types with syn and generates type definitions for Swift, Kotlin, Scala, TypeScript, Go and Python). You have your own scratch git worktree of the repository at {wt} (detached HEAD at the pinned commit). Work ONLY inside {wt} (never touch /repo or /verif, do not read anything under /verif). The sandbox has no network; cargo must be run with --offline (CARGO_NET_OFFLINE=true). Use `CARGO_TARGET_DIR={wt}/target`.

Here is a semantic property of typeshare that is supposed to hold:

  id: {p['id']}
  title: {p['title']}
  statement: {p['statement']}
  quantifier: {p['quantifier']['text']}
  files it is anchored in: {', '.join(p['anchors']['files'])}
  mechanisms: {'; '.join((m.get('name') or '') + ' @ ' + (m.get('where') or '') for m in p['anchors']['mechanism'])}

Your job: write ONE realistic change (a plausible bug a developer could introduce: a refactor gone subtly wrong, a wrong boundary, a missing case, a swapped order, an off-by-one, two cooperating sites that each look fine alone) to the typeshare source code (non-test code under core/src, cli/src, lib/src or annotation/src) that BREAKS this property while:
  1. the workspace still compiles (`cargo build --workspace --offline`), and
  2. the ENTIRE existing test suite still passes unchanged: `cd {wt} && cargo test --workspace --no-fail-fast --offline` (370 tests; all must pass; do not edit or delete any existing test or snapshot/expected-output file).
The change should need something SPECIFIC to manifest - an unusual input, a particular combination of attributes/options, a particular position or nesting depth, a particular arrival order, a multi-step sequence - not something that ordinary use would expose at once (that is also why the existing tests will not catch it). Keep the diff small (a few lines to ~30 lines). It must be a semantic behaviour change, not a new panic via an explicit panic!() call and not something guarded by an environment variable, a magic constant name or similar artificial trigger.

Also write a DEMONSTRATION: a small Rust test file (e.g. {wt}/core/tests/demo_{pid.lower()}.rs or a #[test] in a new file under the relevant crate's tests/ directory; for CLI properties a shell script that drives the built binary is fine) that FAILS with your change applied and PASSES without it (on the pristine source). Verify both directions yourself: run the demo with the change (must fail) and with the change stashed/reverted (must pass), and run the full existing suite with the change (must pass - excluding your new demo).

When done, leave in the worktree: the source change applied (uncommitted) and the demo file. Then write these files:
  {wt}/MUTATION/patch.diff   - `git diff` of the source change ONLY (not including the demo file)
  {wt}/MUTATION/demo/        - copy of the demonstration file(s), with a README line on how to run it
  {wt}/MUTATION/notes.md     - what the change is, which part of the property it breaks, what it needs in order to manifest (the specific input / order / configuration), and the exact commands you ran with their outcomes.
Finally run `cargo clean` equivalent: delete {wt}/target to free disk space.
Reply with a short summary: the idea of the change, the triggering condition, and confirmation of (a) full suite passes with change, (b) demo fails with change, (c) demo passes without change.""")
