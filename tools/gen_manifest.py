#!/usr/bin/env python3
"""Regenerate MANIFEST.json from the table below (kept valid at all times)."""
import json, os
V = os.path.dirname(os.path.dirname(os.path.abspath(__file__)))
BASE_OFF = ("cd /repo && cargo nextest run --workspace --no-fail-fast --tool-config-file pb:/w/lib/nextest.toml --profile pb "
            "--test-threads 8 --offline || (cd /repo && cargo test --workspace --no-fail-fast --offline)")

CHECKS = json.load(open(os.path.join(V, "tools", "checks_table.json")))
props = [json.loads(l) for l in open(os.path.join(V, "properties.jsonl"))]
checks, na = [], []
for p in props:
    c = CHECKS.get(p["id"])
    if c and c.get("claimed"):
        checks.append({
            "property_id": p["id"],
            "quick_cmd": "./check %s --tier quick" % p["id"],
            "thorough_cmd": "./check %s --tier thorough" % p["id"],
            "evidence_file": "/verif/evidence/%s.json" % p["id"],
            "replay_cmd_template": "./check %s --replay {path}" % p["id"],
            "engine": c["engine"],
            "level_claimed": {"category": c.get("category", "model_checking"), "text": c["text"], "design_ref": c.get("design_ref", "DESIGN.md section 5 " + p["id"])},
            "level_note": c["note"],
            "technique": c["technique"],
        })
    else:
        na.append({"property_id": p["id"], "reason": (c or {}).get("reason", "check not built yet (see DESIGN.md section 9 build order); not claimed")})
m = {
    "version": 1,
    "setup_cmd": "./setup.sh",
    "hooks": {"guard": "typeshare_verif", "enable": "none needed: MIR exposes private functions and the Kani harnesses use public API only; no source hooks are committed",
              "baseline_off_cmd": BASE_OFF, "source_commits": [], "add_only": True},
    "engines": [
        {"name": "kani", "path": "/verif/kani", "serves_properties": [c["property_id"] for c in checks if "kani" in c["engine"]],
         "kind_free_text": "Kani 0.68 / CBMC 6.11 (CaDiCaL) on out-of-tree harness crates with path dependencies on /repo"},
        {"name": "mirsym", "path": "/verif/vlib/mirsym", "serves_properties": [c["property_id"] for c in checks if "mirsym" in c["engine"]],
         "kind_free_text": "symbolic executor for rustc MIR (dumped from /repo's working tree on every run) over z3; KLEE-style forking, symbolic scalars/chars, library models; native replay of every counterexample"},
    ],
    "checks": checks,
    "not_applicable": na,
    "notes": "Exit 0 = holds within stated bounds (known findings printed as KNOWN-FINDING), 1 = replay-confirmed violation, 2 = inconclusive (never a pass, never an alarm). See DESIGN.md.",
}
json.dump(m, open(os.path.join(V, "MANIFEST.json"), "w"), indent=1)
import jsonschema
jsonschema.validate(m, json.load(open("/root/.vp/MANIFEST.schema.json")))
print("MANIFEST ok:", [c["property_id"] for c in checks], "n/a:", [n["property_id"] for n in na])
