#!/usr/bin/env python3
"""(Re)write seeded/<id>/meta.json from the agent's notes, the confirmation log and detection results."""
import json, os, re, sys
V = os.path.dirname(os.path.dirname(os.path.abspath(__file__)))
DET = json.load(open(os.path.join(V, "seeded", "detection.json"))) if os.path.exists(os.path.join(V, "seeded", "detection.json")) else {}
for d in sorted(os.listdir(os.path.join(V, "seeded"))):
    p = os.path.join(V, "seeded", d)
    if not os.path.isdir(p) or not os.path.exists(os.path.join(p, "patch.diff")):
        continue
    notes = open(os.path.join(p, "notes.md")).read() if os.path.exists(os.path.join(p, "notes.md")) else ""
    conf = open(os.path.join(p, "confirm.log")).read() if os.path.exists(os.path.join(p, "confirm.log")) else ""
    m = re.search(r"(?is)(?:needs|trigger|manifest)[^\n]*\n(.*?)(?:\n#|\n\*\*|\Z)", notes)
    needs = (m.group(1).strip() if m else notes[:600]).strip()[:900]
    files = sorted(set(re.findall(r"^\+\+\+ b/(\S+)", open(os.path.join(p, "patch.diff")).read(), re.M)))
    meta = {"property": d[:3], "breaks": "see notes.md (written by an independent sub-agent that saw only the property text)",
            "files_changed": files, "needs_to_manifest": needs,
            "confirmed_by_me": {"commands": "tools/confirm_seed.sh %s (existing suite with the change; demo with the change; demo without the change)" % d, "log": conf.strip().splitlines()},
            "adapted": os.path.exists(os.path.join(p, "patch.pinned-4ef46ed.diff")),
            "detected_by": DET.get(d, [])}
    json.dump(meta, open(os.path.join(p, "meta.json"), "w"), indent=1)
    print(d, files, "detected_by", meta["detected_by"])
