
// ---------------------------------------------------------------------------------------------
// /verif replay driver, appended to a copy of /repo/cli/src/main.rs (whose `fn main` is renamed
// `real_main`).  Without VERIF_DRIVER the binary behaves exactly like `typeshare`.
// With VERIF_DRIVER=1 it reads JSON lines on stdin and calls the real functions of this crate.
#[allow(dead_code)]
fn main() -> anyhow::Result<()> {
    if std::env::var_os("VERIF_DRIVER").is_none() {
        return real_main();
    }
    verif_driver::run();
    Ok(())
}

#[allow(dead_code)]
mod verif_driver {
    use super::*;
    use clap::Parser as _;
    use serde_json::{json, Value};
    use std::io::{BufRead, Write};
    use std::path::PathBuf;

    fn parsed(src_files: &Value, multi_file: bool, lang: SupportedLanguage) -> BTreeMap<CrateName, ParsedData> {
        // [{"crate": "a", "file": "src/lib.rs"/"a.rs", "path": "...", "src": "..."}] in arrival order
        let ctx = ParseContext { ignored_types: vec![], multi_file, target_os: vec![] };
        let mut out: BTreeMap<CrateName, ParsedData> = BTreeMap::new();
        for f in src_files.as_array().unwrap() {
            let crate_name = CrateName::from(f["crate"].as_str().unwrap().to_string());
            let _ = lang;
            let fctx = typeshare_core::context::ParseFileContext {
                source_code: f["src"].as_str().unwrap().to_string(),
                crate_name: crate_name.clone(),
                file_name: f["file"].as_str().unwrap().to_string(),
                file_path: PathBuf::from(f["path"].as_str().unwrap()),
            };
            if let Ok(Some(pd)) = typeshare_core::parser::parse(&ctx, fctx) {
                *out.entry(crate_name).or_default() += pd;
            }
        }
        out
    }

    fn lang_of(s: &str) -> SupportedLanguage {
        s.parse().expect("language")
    }

    fn handle(req: &Value) -> Value {
        match req["op"].as_str().unwrap_or("") {
            "override" => {
                let cfg: Config = match toml::from_str(req["toml"].as_str().unwrap()) {
                    Ok(c) => c,
                    Err(e) => return json!({"err": format!("toml: {e}")}),
                };
                let argv: Vec<String> = req["argv"].as_array().unwrap().iter().map(|v| v.as_str().unwrap().to_string()).collect();
                let args = match Args::try_parse_from(argv) {
                    Ok(a) => a,
                    Err(e) => return json!({"err": format!("clap: {e}")}),
                };
                match override_configuration(cfg, &args) {
                    Ok(c) => json!({"ok": serde_json::to_value(&c).unwrap()}),
                    Err(e) => json!({"rejected": format!("{e}")}),
                }
            }
            "roundtrip" => {
                // what -g does (toml::to_string_pretty in store_config) followed by what a later run does (toml::from_str in load_config)
                let cfg: Config = match toml::from_str(req["toml"].as_str().unwrap()) {
                    Ok(c) => c,
                    Err(e) => return json!({"err": format!("toml: {e}")}),
                };
                let dir = PathBuf::from(req["dir"].as_str().unwrap());
                let path = dir.join("generated.toml");
                if let Err(e) = config::store_config(&cfg, Some(&path)) {
                    return json!({"rejected": format!("{e}")});
                }
                match config::load_config(Some(&path)) {
                    Ok(back) => json!({"ok": {"same": back == cfg, "before": serde_json::to_value(&cfg).unwrap(), "after": serde_json::to_value(&back).unwrap()}}),
                    Err(e) => json!({"rejected": format!("reload: {e}")}),
                }
            }
            "load_config" => {
                // cwd-relative search for typeshare.toml (find_configuration_file) + load
                std::env::set_current_dir(req["cwd"].as_str().unwrap()).unwrap();
                let explicit = req["path"].as_str().map(PathBuf::from);
                match config::load_config(explicit.as_deref()) {
                    Ok(c) => json!({"ok": serde_json::to_value(&c).unwrap()}),
                    Err(e) => json!({"rejected": format!("{e}")}),
                }
            }
            "store_config" => {
                std::env::set_current_dir(req["cwd"].as_str().unwrap()).unwrap();
                let p = req["path"].as_str().map(PathBuf::from);
                match config::store_config(&Config::default(), p.as_deref()) {
                    Ok(()) => json!({"ok": true}),
                    Err(e) => json!({"rejected": format!("{e}")}),
                }
            }
            "write" => {
                // generate with the real writer: {"lang","files":[...], "file"|"folder": path, "config_toml"}
                let lt = lang_of(req["lang"].as_str().unwrap());
                let cfg: Config = toml::from_str(req["config_toml"].as_str().unwrap_or("")).unwrap();
                let folder = req["folder"].as_str().map(PathBuf::from);
                let file = req["file"].as_str().map(PathBuf::from);
                let multi_file = folder.is_some();
                let lang = language(lt, cfg, multi_file);
                let mut data = parsed(&req["files"], multi_file, lt);
                reconcile_aliases(&mut data);
                let import_candidates = if multi_file { all_types(&mut data) } else { HashMap::new() };
                if let Err(e) = check_parse_errors(&data) {
                    return json!({"rejected": format!("{e}")});
                }
                let dest = match (&file, &folder) {
                    (Some(f), _) => Output::File(f),
                    (_, Some(d)) => Output::Folder(d),
                    _ => return json!({"err": "no destination"}),
                };
                let mut lang = lang;
                match write_generated(dest, lang.as_mut(), data, import_candidates) {
                    Ok(()) => json!({"ok": true}),
                    Err(e) => json!({"rejected": format!("{e:#}")}),
                }
            }
            other => json!({"err": format!("unknown op {other}")}),
        }
    }

    pub fn run() {
        let stdin = std::io::stdin();
        let stdout = std::io::stdout();
        std::panic::set_hook(Box::new(|_| {}));
        for line in stdin.lock().lines() {
            let line = match line {
                Ok(l) => l,
                Err(_) => break,
            };
            if line.trim().is_empty() {
                continue;
            }
            let req: Value = serde_json::from_str(&line).expect("json");
            let res = match std::panic::catch_unwind(|| handle(&req)) {
                Ok(v) => v,
                Err(p) => {
                    let msg = p.downcast_ref::<String>().cloned().or_else(|| p.downcast_ref::<&str>().map(|s| s.to_string())).unwrap_or_default();
                    json!({"panic": msg})
                }
            };
            let mut o = stdout.lock();
            writeln!(o, "{}", res).unwrap();
            o.flush().unwrap();
        }
    }
}
