//! Code to convert the Rust-styled field/variant (e.g. `my_field`, `MyType`) to the
//! case of the source (e.g. `my-field`, `MY_FIELD`).

use self::RenameRule::*;
use std::fmt::{self, Debug, Display};

/// The different possible ways to change case of fields in a struct, or variants in an enum.
#[derive(Copy, Clone, PartialEq)]
pub enum RenameRule {
    /// Don't apply a default rename rule.
    None,
    /// Rename direct children to "lowercase" style.
    LowerCase,
    /// Rename direct children to "UPPERCASE" style.
    UpperCase,
    /// Rename direct children to "PascalCase" style, as typically used for
    /// enum variants.
    PascalCase,
    /// Rename direct children to "camelCase" style.
    CamelCase,
    /// Rename direct children to "snake_case" style, as commonly used for
    /// fields.
    SnakeCase,
    /// Rename direct children to "SCREAMING_SNAKE_CASE" style, as commonly
    /// used for constants.
    ScreamingSnakeCase,
    /// Rename direct children to "kebab-case" style.
    KebabCase,
    /// Rename direct children to "SCREAMING-KEBAB-CASE" style.
    ScreamingKebabCase,
}

static RENAME_RULES: &[(&str, RenameRule)] = &[
    ("lowercase", LowerCase),
    ("UPPERCASE", UpperCase),
    ("PascalCase", PascalCase),
    ("camelCase", CamelCase),
    ("snake_case", SnakeCase),
    ("SCREAMING_SNAKE_CASE", ScreamingSnakeCase),
    ("kebab-case", KebabCase),
    ("SCREAMING-KEBAB-CASE", ScreamingKebabCase),
];

impl RenameRule {
    pub fn from_str(rename_all_str: &str) -> Result<Self, ParseError> {
        for (name, rule) in RENAME_RULES {
            if rename_all_str == *name {
                return Ok(*rule);
            }
        }
        Err(ParseError {
            unknown: rename_all_str,
        })
    }

    /// Apply a renaming rule to an enum variant, returning the version expected in the source.
    pub fn apply_to_variant(self, variant: &str) -> String {
        match self {
            None | PascalCase => variant.to_owned(),
            LowerCase => variant.to_ascii_lowercase(),
            UpperCase => variant.to_ascii_uppercase(),
            CamelCase => variant[..1].to_ascii_lowercase() + &variant[1..],
            SnakeCase => {
                let mut snake = String::new();
                for (i, ch) in variant.char_indices() {
                    if i > 0 && ch.is_uppercase() {
                        snake.push('_');
                    }
                    snake.push(ch.to_ascii_lowercase());
                }
                snake
            }
            ScreamingSnakeCase => SnakeCase.apply_to_variant(variant).to_ascii_uppercase(),
            KebabCase => SnakeCase.apply_to_variant(variant).replace('_', "-"),
            ScreamingKebabCase => ScreamingSnakeCase
                .apply_to_variant(variant)
                .replace('_', "-"),
        }
    }

    /// Apply a renaming rule to a struct field, returning the version expected in the source.
    pub fn apply_to_field(self, field: &str) -> String {
        match self {
            None | LowerCase | SnakeCase => field.to_owned(),
            UpperCase => field.to_ascii_uppercase(),
            PascalCase => {
                let mut pascal = String::new();
                let mut capitalize = true;
                for ch in field.chars() {
                    if ch == '_' {
                        capitalize = true;
                    } else if capitalize {
                        pascal.push(ch.to_ascii_uppercase());
                        capitalize = false;
                    } else {
                        pascal.push(ch);
                    }
                }
                pascal
            }
            CamelCase => {
                let pascal = PascalCase.apply_to_field(field);
                pascal[..1].to_ascii_lowercase() + &pascal[1..]
            }
            ScreamingSnakeCase => field.to_ascii_uppercase(),
            KebabCase => field.replace('_', "-"),
            ScreamingKebabCase => ScreamingSnakeCase.apply_to_field(field).replace('_', "-"),
        }
    }

    /// Returns the `RenameRule` if it is not `None`, `rule_b` otherwise.
    pub fn or(self, rule_b: Self) -> Self {
        match self {
            None => rule_b,
            _ => self,
        }
    }
}

pub struct ParseError<'a> {
    unknown: &'a str,
}

impl<'a> Display for ParseError<'a> {
    fn fmt(&self, f: &mut fmt::Formatter) -> fmt::Result {
        f.write_str("unknown rename rule `rename_all = ")?;
        Debug::fmt(self.unknown, f)?;
        f.write_str("`, expected one of ")?;
        for (i, (name, _rule)) in RENAME_RULES.iter().enumerate() {
            if i > 0 {
                f.write_str(", ")?;
            }
            Debug::fmt(name, f)?;
        }
        Ok(())
    }
}

#[test]
fn rename_variants() {
    for &(original, lower, upper, camel, snake, screaming, kebab, screaming_kebab) in &[
        (
            "Outcome", "outcome", "OUTCOME", "outcome", "outcome", "OUTCOME", "outcome", "OUTCOME",
        ),
        (
            "VeryTasty",
            "verytasty",
            "VERYTASTY",
            "veryTasty",
            "very_tasty",
            "VERY_TASTY",
            "very-tasty",
            "VERY-TASTY",
        ),
        ("A", "a", "A", "a", "a", "A", "a", "A"),
        ("Z42", "z42", "Z42", "z42", "z42", "Z42", "z42", "Z42"),
    ] {
        assert_eq!(None.apply_to_variant(original), original);
        assert_eq!(LowerCase.apply_to_variant(original), lower);
        assert_eq!(UpperCase.apply_to_variant(original), upper);
        assert_eq!(PascalCase.apply_to_variant(original), original);
        assert_eq!(CamelCase.apply_to_variant(original), camel);
        assert_eq!(SnakeCase.apply_to_variant(original), snake);
        assert_eq!(ScreamingSnakeCase.apply_to_variant(original), screaming);
        assert_eq!(KebabCase.apply_to_variant(original), kebab);
        assert_eq!(
            ScreamingKebabCase.apply_to_variant(original),
            screaming_kebab
        );
    }
}

#[test]
fn rename_fields() {
    for &(original, upper, pascal, camel, screaming, kebab, screaming_kebab) in &[
        (
            "outcome", "OUTCOME", "Outcome", "outcome", "OUTCOME", "outcome", "OUTCOME",
        ),
        (
            "very_tasty",
            "VERY_TASTY",
            "VeryTasty",
            "veryTasty",
            "VERY_TASTY",
            "very-tasty",
            "VERY-TASTY",
        ),
        ("a", "A", "A", "a", "A", "a", "A"),
        ("z42", "Z42", "Z42", "z42", "Z42", "z42", "Z42"),
    ] {
        assert_eq!(None.apply_to_field(original), original);
        assert_eq!(UpperCase.apply_to_field(original), upper);
        assert_eq!(PascalCase.apply_to_field(original), pascal);
        assert_eq!(CamelCase.apply_to_field(original), camel);
        assert_eq!(SnakeCase.apply_to_field(original), original);
        assert_eq!(ScreamingSnakeCase.apply_to_field(original), screaming);
        assert_eq!(KebabCase.apply_to_field(original), kebab);
        assert_eq!(ScreamingKebabCase.apply_to_field(original), screaming_kebab);
    }
}
