//! vreplay: native replay against the REAL typeshare-core build of /repo's working tree.
//! Reads one JSON request per line on stdin, writes one JSON answer per line on stdout.
//! Every library call is wrapped in catch_unwind so that panics are reported as outcomes.
#![allow(dead_code)]
#[allow(dead_code, unused_imports, clippy::all)]
#[path = "serde_case.rs"]
mod serde_case; // serde_derive's own internals/case.rs (vendored verbatim; see vlib/mirsym/dump.py check)

use serde_json::{json, Map, Value};
use std::collections::{BTreeMap, BTreeSet, HashMap, HashSet};
use std::io::{BufRead, Write};
use std::panic::{catch_unwind, AssertUnwindSafe};
use typeshare_core::context::{ParseContext, ParseFileContext};
use typeshare_core::language::*;
use typeshare_core::parser::{ErrorInfo, ParsedData};
use typeshare_core::rust_types::*;
use typeshare_core::RenameExt;

trait J {
    fn j(&self) -> Value;
}
fn obj(tag: &str, f: Vec<(&str, Value)>) -> Value {
    let mut m = Map::new();
    m.insert("$".into(), json!(tag));
    for (k, v) in f {
        m.insert(k.to_string(), v);
    }
    Value::Object(m)
}
impl J for String {
    fn j(&self) -> Value {
        json!(self)
    }
}
impl J for bool {
    fn j(&self) -> Value {
        json!(self)
    }
}
impl J for usize {
    fn j(&self) -> Value {
        json!(self)
    }
}
impl<T: J> J for Vec<T> {
    fn j(&self) -> Value {
        Value::Array(self.iter().map(|x| x.j()).collect())
    }
}
impl<T: J> J for Box<T> {
    fn j(&self) -> Value {
        (**self).j()
    }
}
impl<T: J> J for BTreeSet<T> {
    fn j(&self) -> Value {
        Value::Array(self.iter().map(|x| x.j()).collect())
    }
}
impl J for Id {
    fn j(&self) -> Value {
        obj("Id", vec![("original", self.original.j()), ("renamed", self.renamed.j()), ("serde_rename", self.serde_rename.j())])
    }
}
impl J for FieldDecorator {
    fn j(&self) -> Value {
        match self {
            FieldDecorator::Word(w) => obj("FieldDecorator::Word", vec![("0", w.j())]),
            FieldDecorator::NameValue(a, b) => obj("FieldDecorator::NameValue", vec![("0", a.j()), ("1", b.j())]),
        }
    }
}
fn lang_name(l: &SupportedLanguage) -> &'static str {
    match l {
        SupportedLanguage::Go => "Go",
        SupportedLanguage::Kotlin => "Kotlin",
        SupportedLanguage::Scala => "Scala",
        SupportedLanguage::Swift => "Swift",
        SupportedLanguage::TypeScript => "TypeScript",
        SupportedLanguage::Python => "Python",
    }
}
fn field_decorators(d: &HashMap<SupportedLanguage, BTreeSet<FieldDecorator>>) -> Value {
    let mut v: Vec<(String, Value)> = d.iter().map(|(k, s)| (lang_name(k).to_string(), s.j())).collect();
    v.sort_by(|a, b| a.0.cmp(&b.0));
    Value::Array(v.into_iter().map(|(k, s)| json!([k, s])).collect())
}
fn decorator_map(d: &DecoratorMap) -> Value {
    let mut v: Vec<(String, Value)> = d.iter().map(|(k, s)| (format!("{:?}", k), s.j())).collect();
    v.sort_by(|a, b| a.0.cmp(&b.0));
    Value::Array(v.into_iter().map(|(k, s)| json!([k, s])).collect())
}
impl J for RustType {
    fn j(&self) -> Value {
        match self {
            RustType::Generic { id, parameters } => obj("RustType::Generic", vec![("id", id.j()), ("parameters", parameters.j())]),
            RustType::Special(s) => obj("RustType::Special", vec![("0", s.j())]),
            RustType::Simple { id } => obj("RustType::Simple", vec![("id", id.j())]),
        }
    }
}
impl J for SpecialRustType {
    fn j(&self) -> Value {
        use SpecialRustType::*;
        match self {
            Vec(t) => obj("SpecialRustType::Vec", vec![("0", t.j())]),
            Array(t, n) => obj("SpecialRustType::Array", vec![("0", t.j()), ("1", n.j())]),
            Slice(t) => obj("SpecialRustType::Slice", vec![("0", t.j())]),
            HashMap(k, v) => obj("SpecialRustType::HashMap", vec![("0", k.j()), ("1", v.j())]),
            Option(t) => obj("SpecialRustType::Option", vec![("0", t.j())]),
            other => obj(&format!("SpecialRustType::{:?}", other), vec![]),
        }
    }
}
impl J for RustField {
    fn j(&self) -> Value {
        obj("RustField", vec![("id", self.id.j()), ("ty", self.ty.j()), ("comments", self.comments.j()), ("has_default", self.has_default.j()),
            ("decorators", field_decorators(&self.decorators))])
    }
}
impl J for RustStruct {
    fn j(&self) -> Value {
        obj("RustStruct", vec![("id", self.id.j()), ("generic_types", self.generic_types.j()), ("fields", self.fields.j()), ("comments", self.comments.j()),
            ("decorators", decorator_map(&self.decorators)), ("is_redacted", self.is_redacted.j())])
    }
}
impl J for RustTypeAlias {
    fn j(&self) -> Value {
        obj("RustTypeAlias", vec![("id", self.id.j()), ("generic_types", self.generic_types.j()), ("type", self.r#type.j()), ("comments", self.comments.j()),
            ("decorators", decorator_map(&self.decorators)), ("is_redacted", self.is_redacted.j())])
    }
}
impl J for RustConst {
    fn j(&self) -> Value {
        let RustConstExpr::Int(i) = &self.expr;
        obj("RustConst", vec![("id", self.id.j()), ("type", self.r#type.j()), ("expr", obj("RustConstExpr::Int", vec![("0", json!(i.to_string()))]))])
    }
}
impl J for RustEnumVariantShared {
    fn j(&self) -> Value {
        obj("RustEnumVariantShared", vec![("id", self.id.j()), ("comments", self.comments.j())])
    }
}
impl J for RustEnumVariant {
    fn j(&self) -> Value {
        match self {
            RustEnumVariant::Unit(s) => obj("RustEnumVariant::Unit", vec![("0", s.j())]),
            RustEnumVariant::Tuple { ty, shared } => obj("RustEnumVariant::Tuple", vec![("ty", ty.j()), ("shared", shared.j())]),
            RustEnumVariant::AnonymousStruct { fields, shared } => obj("RustEnumVariant::AnonymousStruct", vec![("fields", fields.j()), ("shared", shared.j())]),
        }
    }
}
impl J for RustEnumShared {
    fn j(&self) -> Value {
        obj("RustEnumShared", vec![("id", self.id.j()), ("generic_types", self.generic_types.j()), ("comments", self.comments.j()), ("variants", self.variants.j()),
            ("decorators", decorator_map(&self.decorators)), ("is_recursive", self.is_recursive.j()), ("is_redacted", self.is_redacted.j())])
    }
}
impl J for RustEnum {
    fn j(&self) -> Value {
        match self {
            RustEnum::Unit(s) => obj("RustEnum::Unit", vec![("0", s.j())]),
            RustEnum::Algebraic { tag_key, content_key, shared } => obj("RustEnum::Algebraic", vec![("tag_key", tag_key.j()), ("content_key", content_key.j()), ("shared", shared.j())]),
        }
    }
}
fn error_info(e: &ErrorInfo) -> Value {
    let dbg = format!("{:?}", e.error);
    let variant = dbg.split(|c: char| !c.is_alphanumeric()).next().unwrap_or("").to_string();
    json!({"$": "ErrorInfo", "file_name": e.file_name, "variant": variant, "message": e.error.to_string()})
}
fn parsed_data(d: &ParsedData) -> Value {
    let mut imports: Vec<(String, String)> = d.import_types.iter().map(|i| (i.base_crate.to_string(), i.type_name.clone())).collect();
    imports.sort();
    let mut names: Vec<String> = d.type_names.iter().cloned().collect();
    names.sort();
    obj("ParsedData", vec![("structs", d.structs.j()), ("enums", d.enums.j()), ("aliases", d.aliases.j()), ("consts", d.consts.j()),
        ("import_types", json!(imports)), ("crate_name", json!(d.crate_name.to_string())), ("file_name", json!(d.file_name)),
        ("type_names", json!(names)), ("errors", Value::Array(d.errors.iter().map(error_info).collect())), ("multi_file", json!(d.multi_file))])
}

fn strs(v: &Value) -> Vec<String> {
    v.as_array().map(|a| a.iter().filter_map(|x| x.as_str().map(|s| s.to_string())).collect()).unwrap_or_default()
}
fn smap(v: &Value) -> HashMap<String, String> {
    v.as_object().map(|m| m.iter().map(|(k, v)| (k.clone(), v.as_str().unwrap_or("").to_string())).collect()).unwrap_or_default()
}

fn make_lang(name: &str, c: &Value, multi_file: bool) -> Box<dyn Language> {
    let s = |k: &str| c.get(k).and_then(|v| v.as_str()).unwrap_or("").to_string();
    let b = |k: &str| c.get(k).and_then(|v| v.as_bool()).unwrap_or(false);
    let nvh = c.get("no_version_header").and_then(|v| v.as_bool()).unwrap_or(true);
    let tm = smap(c.get("type_mappings").unwrap_or(&Value::Null));
    match name {
        "typescript" => Box::new(TypeScript { type_mappings: tm, no_version_header: nvh, ..Default::default() }),
        "kotlin" => Box::new(Kotlin { package: s("package"), module_name: s("module_name"), prefix: s("prefix"), type_mappings: tm, no_version_header: nvh, ..Default::default() }),
        "swift" => Box::new(Swift { prefix: s("prefix"), type_mappings: tm, default_decorators: strs(c.get("default_decorators").unwrap_or(&Value::Null)),
            default_generic_constraints: GenericConstraints::from_config(strs(c.get("default_generic_constraints").unwrap_or(&Value::Null))),
            no_version_header: nvh, multi_file, codablevoid_constraints: strs(c.get("codablevoid_constraints").unwrap_or(&Value::Null)), ..Default::default() }),
        "scala" => Box::new(Scala { package: s("package"), module_name: s("module_name"), type_mappings: tm, no_version_header: nvh, ..Default::default() }),
        "go" => Box::new(Go { package: s("package"), type_mappings: tm, uppercase_acronyms: strs(c.get("uppercase_acronyms").unwrap_or(&Value::Null)),
            no_version_header: nvh, no_pointer_slice: b("no_pointer_slice"), ..Default::default() }),
        "python" => Box::new(Python { type_mappings: tm, no_version_header: nvh, ..Default::default() }),
        _ => panic!("unknown language {name}"),
    }
}

fn lang_enum(name: &str) -> SupportedLanguage {
    match name {
        "typescript" => SupportedLanguage::TypeScript,
        "kotlin" => SupportedLanguage::Kotlin,
        "swift" => SupportedLanguage::Swift,
        "scala" => SupportedLanguage::Scala,
        "go" => SupportedLanguage::Go,
        _ => SupportedLanguage::Python,
    }
}

fn do_parse(req: &Value) -> Value {
    let target_os = strs(req.get("target_os").unwrap_or(&Value::Null));
    let multi_file = req.get("multi_file").and_then(|v| v.as_bool()).unwrap_or(false);
    let ignored: Vec<String> = strs(req.get("ignored_types").unwrap_or(&Value::Null));
    let ctx = ParseContext { ignored_types: ignored.iter().map(|s| s.as_str()).collect(), multi_file, target_os };
    let s = |k: &str| req.get(k).and_then(|v| v.as_str()).unwrap_or("").to_string();
    let fctx = ParseFileContext { source_code: s("source"), crate_name: CrateName::from(s("crate_name")), file_name: s("file_name"), file_path: s("file_path").into() };
    match typeshare_core::parser::parse(&ctx, fctx) {
        Ok(Some(d)) => json!({"ok": parsed_data(&d)}),
        Ok(None) => json!({"ok": null}),
        Err(e) => json!({"err": e.to_string()}),
    }
}

/// The CLI pipeline through the library API: parse each file, fold into a per-crate map in the given
/// arrival order, reconcile, collect all type names, generate one output per crate.
fn do_generate(req: &Value) -> Value {
    let target_os = strs(req.get("target_os").unwrap_or(&Value::Null));
    let multi_file = req.get("multi_file").and_then(|v| v.as_bool()).unwrap_or(false);
    let lang = req.get("lang").and_then(|v| v.as_str()).unwrap_or("typescript").to_string();
    let cfg = req.get("config").cloned().unwrap_or(json!({}));
    let ctx = ParseContext { ignored_types: vec![], multi_file, target_os };
    let files = req.get("files").and_then(|v| v.as_array()).cloned().unwrap_or_default();
    let order: Vec<usize> = req.get("order").and_then(|v| v.as_array()).map(|a| a.iter().map(|x| x.as_u64().unwrap() as usize).collect()).unwrap_or((0..files.len()).collect());
    let mut map: BTreeMap<CrateName, ParsedData> = BTreeMap::new();
    let mut errs = vec![];
    for i in order {
        let f = &files[i];
        let s = |k: &str| f.get(k).and_then(|v| v.as_str()).unwrap_or("").to_string();
        let crate_name = CrateName::from(s("crate_name"));
        let fctx = ParseFileContext { source_code: s("source"), crate_name: crate_name.clone(), file_name: s("file_name"), file_path: s("file_path").into() };
        match typeshare_core::parser::parse(&ctx, fctx) {
            Ok(Some(d)) => {
                *map.entry(d.crate_name.clone()).or_default() += d;
            }
            Ok(None) => {}
            Err(e) => errs.push(e.to_string()),
        }
    }
    if !errs.is_empty() {
        return json!({"err": errs});
    }
    let parse_errors: Vec<Value> = map.values().flat_map(|d| d.errors.iter().map(error_info)).collect();
    if !parse_errors.is_empty() {
        return json!({"parse_errors": parse_errors});
    }
    typeshare_core::reconcile::reconcile_aliases(&mut map);
    let ir: Vec<Value> = map.values().map(parsed_data).collect();
    let mut all_types: CrateTypes = HashMap::new();
    for (k, d) in map.iter_mut() {
        all_types.entry(k.clone()).or_default().extend(std::mem::take(&mut d.type_names));
    }
    let mut l = make_lang(&lang, &cfg, multi_file);
    let mut out = Map::new();
    for (k, d) in map {
        let mut buf: Vec<u8> = vec![];
        match l.generate_types(&mut buf, &all_types, d) {
            Ok(()) => {
                out.insert(k.to_string(), json!(String::from_utf8_lossy(&buf)));
            }
            Err(e) => return json!({"io_err": e.to_string()}),
        }
    }
    // folder mode: run the language's post-generation step in a scratch directory and report the files it wrote
    let mut extra = Map::new();
    if let Some(dir) = req.get("post_generation_dir").and_then(|v| v.as_str()) {
        let _ = std::fs::create_dir_all(dir);
        if let Err(e) = l.post_generation(dir) {
            return json!({"post_generation_err": e.to_string()});
        }
        if let Ok(rd) = std::fs::read_dir(dir) {
            for e in rd.flatten() {
                if let Ok(t) = std::fs::read_to_string(e.path()) {
                    extra.insert(e.file_name().to_string_lossy().to_string(), json!(t));
                }
            }
        }
        let _ = std::fs::remove_dir_all(dir);
    }
    json!({"out": out, "ir": ir, "post_generation_files": extra})
}

fn do_rename(req: &Value) -> Value {
    let s = req["s"].as_str().unwrap().to_string();
    let f = req["fn"].as_str().unwrap();
    let r = match f {
        "to_camel_case" => s.to_camel_case(),
        "to_pascal_case" => s.to_pascal_case(),
        "to_snake_case" => s.to_snake_case(),
        "to_screaming_snake_case" => s.to_screaming_snake_case(),
        "to_kebab_case" => s.to_kebab_case(),
        "to_screaming_kebab_case" => s.to_screaming_kebab_case(),
        _ => return json!({"err": "unknown fn"}),
    };
    json!({"ok": r})
}

fn do_serde_case(req: &Value) -> Value {
    let s = req["s"].as_str().unwrap();
    let rule = req["rule"].as_str().unwrap();
    let Ok(r) = serde_case::RenameRule::from_str(rule) else { return json!({"unknown_rule": true}) };
    let out = if req["pos"].as_str() == Some("variant") { r.apply_to_variant(s) } else { r.apply_to_field(s) };
    json!({"ok": out})
}

fn main() {
    std::panic::set_hook(Box::new(|_| {}));
    let stdin = std::io::stdin();
    let stdout = std::io::stdout();
    for line in stdin.lock().lines() {
        let line = line.unwrap();
        if line.trim().is_empty() {
            continue;
        }
        let req: Value = serde_json::from_str(&line).unwrap_or(json!({"op": "bad"}));
        let op = req.get("op").and_then(|v| v.as_str()).unwrap_or("").to_string();
        let res = catch_unwind(AssertUnwindSafe(|| match op.as_str() {
            "parse" => do_parse(&req),
            "generate" => do_generate(&req),
            "rename" => do_rename(&req),
            "serde_case" => do_serde_case(&req),
            _ => json!({"err": "unknown op"}),
        }));
        let ans = match res {
            Ok(v) => v,
            Err(p) => {
                let msg = p.downcast_ref::<String>().cloned().or_else(|| p.downcast_ref::<&str>().map(|s| s.to_string())).unwrap_or_default();
                json!({"panic": msg})
            }
        };
        let mut o = stdout.lock();
        writeln!(o, "{}", ans).unwrap();
        o.flush().unwrap();
    }
}
