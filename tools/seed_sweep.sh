#!/bin/bash
# run every quick check under several VERIF_SEED values on the current tree; print anything that is not exit 0
cd /verif
for sd in "$@"; do
  for p in C01 C02 C03 C04 C05 C06 C07 C08 C09 C11 C12 C13 C14 C15 C16 C17 C18 C19 C20; do
    VERIF_SEED=$sd VERIF_EVID_SUFFIX=.seed ./check $p --tier quick > /tmp/sweep_${sd}_$p.log 2>&1; rc=$?
    [ $rc -ne 0 ] && echo "seed=$sd $p rc=$rc $(grep -E '^INCONC|^VIOL' /tmp/sweep_${sd}_$p.log | head -2 | cut -c1-250)"
  done
  echo "seed $sd done"
done
